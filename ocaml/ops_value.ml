(* Line-protocol handlers for the value model (coq/Value.v): `==`, `!=`, display.

   Compact text encoding of a literal-syntax value (prefix notation, tokens separated by one space):
     i<decimal>                        Int
     f<decimal of the 64-bit pattern>  Float
     s<hex of UTF-8 bytes, or ->       String
     L<n> v1 .. vn                     list literal
     T<n> v1 .. vn                     tuple literal
     D<n> s<key1> v1 .. s<keyn> vn     dict literal, pairs in source order (repeated keys allowed)
     E<type hex>,<nparams>,<hint|->,<variant idx>,<variant name hex>,<0|1> [payload]
                                       enum value; hint = index of the type parameter named by the payload hint
     S<type hex>,<nparams>,<ndef>,<nlit> <field hex>,<tparam|-> (ndef times)  s<field> v (nlit times)
                                       struct literal: definition (field order, type parameter of each field)
                                       and the fields in the order they are written
   The values are built with the model's literal evaluators (mk_list, mk_dict, ...), so they carry the same
   runtime-type annotations as the implementation's values. *)
open Mdl
open Driver_core

let variant_names : (string * int, string) Hashtbl.t = Hashtbl.create 16

let n_of_decimal (s : string) : n = Z.to_N (z_of_string s)

let opt_nat s = if s = "-" then None else Some (nat_of_int (int_of_string s))

let parse_value ~(orig : bool) (text : string) : value =
  let toks = ref (List.filter (fun t -> t <> "") (String.split_on_char ' ' text)) in
  let next () = match !toks with [] -> failwith "value: unexpected end" | t :: r -> toks := r; t in
  let rest t = String.sub t 1 (String.length t - 1) in
  let key () = let t = next () in if t.[0] <> 's' then failwith "value: key expected" else bytes_of_string (unhex (rest t)) in
  let rec times n f = if n <= 0 then [] else let x = f () in x :: times (n - 1) f in
  let rec v () =
    let t = next () in
    match t.[0] with
    | 'i' -> VInt (z_of_string (rest t))
    | 'f' -> VFloat (n_of_decimal (rest t))
    | 's' -> VString (bytes_of_string (unhex (rest t)))
    | 'L' -> mk_list (times (int_of_string (rest t)) v)
    | 'T' -> mk_tuple (times (int_of_string (rest t)) v)
    | 'D' -> mk_dict (times (int_of_string (rest t)) (fun () -> let k = key () in let x = v () in (k, x)))
    | 'E' ->
      (match String.split_on_char ',' (rest t) with
       | [ty; np; hint; idx; vname; has] ->
         Hashtbl.replace variant_names (unhex ty, int_of_string idx) (unhex vname);
         let payload = if has = "1" then Some (v ()) else None in
         mk_enum (bytes_of_string (unhex ty)) (nat_of_int (int_of_string np)) (opt_nat hint)
           (n_of_int (int_of_string idx)) payload
       | _ -> failwith "value: bad E token")
    | 'S' ->
      (match String.split_on_char ',' (rest t) with
       | [ty; np; ndef; nlit] ->
         let def = times (int_of_string ndef) (fun () ->
             match String.split_on_char ',' (next ()) with
             | [fld; tp] -> (bytes_of_string (unhex fld), opt_nat tp)
             | _ -> failwith "value: bad field def") in
         let lit = times (int_of_string nlit) (fun () -> let k = key () in let x = v () in (k, x)) in
         (if orig then orig_mk_struct else mk_struct)
           (bytes_of_string (unhex ty)) (nat_of_int (int_of_string np)) def lit
       | _ -> failwith "value: bad S token")
    | _ -> failwith ("value: bad token " ^ t)
  in
  let r = v () in
  if !toks <> [] then failwith "value: trailing tokens";
  r

let tf b = if b then "T" else "F"

(* veq <A> <B>  ->  veq TAB vne TAB veq(B,A) TAB literal(A)&&literal(B)
                    TAB orig(no fix) TAB orig(fix-1 only)   [both on values built by the pre-fix-3 struct evaluator] *)
let () = register "veq" (fun args ->
    match args with
    | [a; b] ->
      let va = parse_value ~orig:false a and vb = parse_value ~orig:false b in
      let oa = parse_value ~orig:true a and ob = parse_value ~orig:true b in
      String.concat "\t" [tf (veq va vb); tf (vne va vb); tf (veq vb va); tf (literalb va && literalb vb);
                          tf (orig_veq_sh false no_sharing oa ob); tf (orig_veq_sh true no_sharing oa ob)]
    | _ -> "error\targs")

(* `format!("{f}")` for an f64: shortest digits that read back as the same float, never an exponent.
   (Rust std: modelled in this glue, not verified.) *)
let rust_float_display (bits : int64) : string =
  let f = Int64.float_of_bits bits in
  if Float.is_nan f then "NaN"
  else if f = Float.infinity then "inf"
  else if f = Float.neg_infinity then "-inf"
  else begin
    let neg = Int64.compare bits 0L < 0 in
    let a = Float.abs f in
    let body =
      if a = 0.0 then "0"
      else begin
        let rec find p =
          let s = Printf.sprintf "%.*e" p a in
          if p >= 17 || float_of_string s = a then s else find (p + 1) in
        let s = find 0 in
        let epos = String.index s 'e' in
        let mant = String.sub s 0 epos in
        let es = String.sub s (epos + 1) (String.length s - epos - 1) in
        let es = if es.[0] = '+' then String.sub es 1 (String.length es - 1) else es in
        let exp = int_of_string es in
        let digits = String.concat "" (String.split_on_char '.' mant) in
        let digits =
          let n = ref (String.length digits) in
          while !n > 1 && digits.[!n - 1] = '0' do decr n done;
          String.sub digits 0 !n in
        let n = String.length digits and point = exp + 1 in
        if point <= 0 then "0." ^ String.make (- point) '0' ^ digits
        else if point >= n then digits ^ String.make (point - n) '0'
        else String.sub digits 0 point ^ "." ^ String.sub digits point (n - point)
      end in
    (if neg then "-" else "") ^ body
  end

let int64_of_n (x : n) : int64 = Int64.of_string ("0u" ^ string_of_z (Z.of_N x))

let fmt_float (bits : n) : n list = bytes_of_string (rust_float_display (int64_of_n bits))

let variant_name (ty : n list) (idx : n) : n list option =
  match Hashtbl.find_opt variant_names (string_of_bytes ty, int_of_n idx) with
  | Some s -> Some (bytes_of_string s)
  | None -> None

(* display <A>  ->  hex of Value::display, TAB, hex of display_unless_unit or "none", TAB hex of type_representation *)
let () = register "display" (fun args ->
    match args with
    | [a] ->
      let va = parse_value ~orig:false a in
      let d = display fmt_float variant_name va in
      let u = match display_unless_unit fmt_float variant_name va with
        | None -> "none" | Some s -> hex (string_of_bytes s) in
      hex (string_of_bytes d) ^ "\t" ^ u ^ "\t" ^ hex (string_of_bytes (type_representation va))
    | _ -> "error\targs")
