#!/bin/sh
# Builds everything the checks need from files on disk (offline): hooked garden
# binary from /repo's working tree, the Coq development, the extracted model driver.
set -e
cd "$(dirname "$0")"
export CARGO_NET_OFFLINE=true
python3 - <<'PY'
import sys
sys.path.insert(0, "tools")
from vplib import common
ok, log, exe = common.build_impl()
print("impl build:", ok)
if not ok:
    print(log[-3000:]); sys.exit(1)
ok, log, exe = common.build_model()
print("model driver:", ok)
if not ok:
    print(log[-3000:]); sys.exit(1)
import os
props = sorted(f for f in os.listdir(os.path.join(common.COQ, "Properties")) if f.endswith(".v"))
ok, log = common.coq_make(["Properties/" + p for p in props])
print("coq properties:", ok)
if not ok:
    print(log[-3000:])
PY
