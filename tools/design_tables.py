#!/usr/bin/env python3
"""Rewrites the generated tables of DESIGN.md section 11 from the drivers' META, known_findings.json and seeded/*/meta.json."""
import importlib
import json
import os
import re
import sys

HERE = os.path.dirname(os.path.abspath(__file__))
VERIF = os.path.dirname(HERE)
sys.path.insert(0, HERE)


def region(s, name, body):
    a = "<!-- BEGIN %s -->" % name
    b = "<!-- END %s -->" % name
    i, j = s.index(a) + len(a), s.index(b)
    return s[:i] + "\n" + body.rstrip() + "\n" + s[j:]


props = [json.loads(l) for l in open(os.path.join(VERIF, "properties.jsonl"))]
manifest = json.load(open(os.path.join(VERIF, "MANIFEST.json")))
claimed = {c["property_id"] for c in manifest["checks"]}
rows = []
for p in props:
    pid = p["id"]
    path = os.path.join(HERE, "props", pid + ".py")
    if os.path.exists(path):
        try:
            m = importlib.import_module("props." + pid).META
            thm = ""
            pf = os.path.join(VERIF, "coq", "Properties", pid + ".v")
            if os.path.exists(pf):
                thm = ", ".join("`%s`" % t for t in re.findall(r"^(?:Theorem|Example)\s+(\w+)", open(pf).read(), re.M)[:14])
            rows.append("**%s — %s** (%s)\n\n* *Claim.* %s\n* *Pinned statements* (`coq/Properties/%s.v`): %s\n* *Trusted / not covered.* %s\n* *Technique.* %s\n"
                        % (pid, p["title"], "claimed, level proof" if pid in claimed else "driver exists, NOT claimed",
                           m["level_text"], pid, thm or "—", m["level_note"], m["technique"]))
            continue
        except Exception as e:  # noqa
            pass
    rows.append("**%s — %s** (not claimed: no check yet)\n" % (pid, p["title"]))
ptable = "\n".join(rows)

kf = json.load(open(os.path.join(VERIF, "known_findings.json")))
lines = ["| property | status | commit / key | what |", "|---|---|---|---|"]
for f in kf:
    what = f["what"].replace("|", "\\|")
    lines.append("| %s | %s | `%s` | %s |" % (f["property"], f["status"], f.get("commit") or f["key"], what))
ftable = "\n".join(lines)

sd = os.path.join(VERIF, "seeded")
lines = ["| seeded change | property | what it needs to manifest | caught by |", "|---|---|---|---|"]
if os.path.isdir(sd):
    for d in sorted(os.listdir(sd)):
        mp = os.path.join(sd, d, "meta.json")
        if os.path.exists(mp):
            m = json.load(open(mp))
            lines.append("| `seeded/%s` — %s | %s | %s | %s |" % (d, m.get("change", "").replace("|", "\\|"), m.get("property"),
                                                                  m.get("needs", "").replace("|", "\\|"), m.get("caught_by", "").replace("|", "\\|")))
stable = "\n".join(lines)

p = os.path.join(VERIF, "DESIGN.md")
s = open(p).read()
s = region(s, "PROPERTY TABLE", ptable)
s = region(s, "FINDINGS TABLE", ftable)
s = region(s, "SEEDED TABLE", stable)
open(p, "w").write(s)
print("DESIGN.md tables updated")
