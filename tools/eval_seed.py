#!/usr/bin/env python3
"""tools/eval_seed.py <Cxx> [<name>]  -- evaluate a seeded change delivered in /tmp/seed/<Cxx>-out/ against ./check <Cxx>.
Applies patch.diff to a scratch worktree of /repo HEAD (/tmp/evalwt), confirms the demo (fails with the change, passes on
/repo HEAD's binary), runs the check against the scratch tree, stores everything under /verif/seeded/<name>/."""
import json
import os
import shutil
import subprocess
import sys
import time

tag = sys.argv[1]                 # "C05" (first wave) or "C05b" (second wave: /tmp/seed/C05b-out)
pid = tag[:3]
name = sys.argv[2] if len(sys.argv) > 2 else pid + ("-1" if tag == pid else "-%d" % (ord(tag[3]) - ord("a") + 1))
src = "/tmp/seed/%s-out" % tag
wt = os.environ.get("EVAL_WT", "/tmp/evalwt")
V = "/verif"


def sh(cmd, **kw):
    return subprocess.run(cmd, shell=True, capture_output=True, text=True, **kw)


if not os.path.isdir(wt):
    print(sh("git -C /repo worktree add --detach %s HEAD" % wt).stderr)
head = sh("git -C /repo rev-parse HEAD").stdout.strip()
sh("git -C %s checkout -q --detach %s && git -C %s reset -q --hard %s && git -C %s clean -fdq" % (wt, head, wt, head, wt))
r = sh("git -C %s apply --3way %s/patch.diff || (cd %s && patch -p1 < %s/patch.diff)" % (wt, src, wt, src))
st = sh("git -C %s status --short" % wt).stdout
if not st.strip():
    print("PATCH DID NOT APPLY", r.stderr[-500:])
    sys.exit(2)
env = dict(os.environ, VERIF_REPO=wt, VERIF_TARGET=wt + "-target")
t0 = time.time()
chk = subprocess.run(["./check", pid, "quick"], cwd=V, env=env, capture_output=True, text=True)
lines = [l for l in chk.stdout.splitlines() if l.startswith(("VIOLATION", "KNOWN-FINDING")) or "BROKEN" in l or "done:" in l]
print("\n".join(l[:300] for l in lines))
seeded_bin = wt + "-target/debug/garden"
clean_bin = "/verif/.cache/target/debug/garden"
d1 = sh("bash %s/demo.sh %s" % (src, seeded_bin), timeout=900)
d0 = sh("bash %s/demo.sh %s" % (src, clean_bin), timeout=900)
print("demo with change rc=%d, on /repo HEAD rc=%d" % (d1.returncode, d0.returncode))
caught = chk.returncode == 1 and any(l.startswith("VIOLATION") for l in lines)
dst = os.path.join(V, "seeded", name)
if os.path.isdir(dst):
    shutil.rmtree(dst)
shutil.copytree(src, dst, ignore=lambda d, fs: [f for f in fs if os.path.isfile(os.path.join(d, f))
                                                  and os.path.getsize(os.path.join(d, f)) > 2_000_000])
viol = [l for l in lines if l.startswith("VIOLATION")]
replays = []
for l in viol[:3]:
    p = l.split("replay=")[1].split()[0]
    try:
        rp = json.load(open(p))
        replays.append({"key": rp.get("key"), "what": rp.get("what", "")[:300], "no_longer_checks": [b["name"] for b in rp.get("no_longer_checks", [])]})
    except Exception:
        pass
notes = open(os.path.join(src, "notes.md")).read() if os.path.exists(os.path.join(src, "notes.md")) else ""
meta = {"property": pid, "change": notes.strip().split("\n")[0][:200] if notes else "", "needs": "", "repo_head": head,
        "ran": ["git apply patch.diff on a scratch worktree of /repo HEAD", "demo.sh <seeded binary> -> rc %d" % d1.returncode,
                "demo.sh <HEAD binary> -> rc %d" % d0.returncode, "VERIF_REPO=<scratch> ./check %s quick -> rc %d" % (pid, chk.returncode)],
        "check_rc": chk.returncode, "check_lines": lines[:12], "replays": replays,
        "caught_by": ("./check %s quick: " % pid + "; ".join(sorted({(r_["key"] or "broken: " + ",".join(r_["no_longer_checks"])) for r_ in replays}))) if caught else "NOT CAUGHT",
        "demo_confirmed": d1.returncode == 1 and d0.returncode == 0, "wall_s": round(time.time() - t0)}
json.dump(meta, open(os.path.join(dst, "meta.json"), "w"), indent=1)
sh("git -C %s reset -q --hard %s" % (wt, head))
print("caught" if caught else "NOT CAUGHT", "->", dst)
