#!/usr/bin/env python3
"""Translator: built-in function / method dispatch of garden  ->  coq/gen/Builtins.v

Regenerated on every check run (see tools/README-dev.md "Translators").  For
EVERY variant of `BuiltInFunctionKind` (src/values.rs) and `BuiltInMethodKind`
(src/parser/ast.rs) it emits one row describing the arm of
`eval_built_in_call` / `eval_built_in_method_call` (src/eval.rs):

  * the arity literal passed to `check_arity` (None when the arm has no call),
    whether that call is a top-level statement of the arm and propagates its
    error with `?`;
  * every `arg_values[i]` / `arg_positions[i]` use, the literal index (None for
    a non-literal index) and whether it comes textually AFTER the arity check;
  * the first test of `env.enforce_sandbox`: is it the first statement of the
    arm, is it a top-level `if` whose block returns
    `Err((.., EvalError::ForbiddenInSandbox(..)))`; its offset, and the offset
    and callee of the first *textually effectful* Rust call in the arm;
  * the first effectful call reached through crate-level free helper functions called
    from the arm (transitively; `Type::f` / `x.f()` calls are not followed), with the chain;
  * every `std::...` path named in the arm.

"Dominated by" is approximated by TEXTUAL ORDER inside the arm, restricted to
arity checks / sandbox tests that are top-level statements of the arm (brace
depth 1), where textual order and control-flow order coincide.

It also emits the sandbox limits assigned in sandboxed_playground.rs and
test_runner.rs and a few shape facts about the `eval` loop (tick increment,
limit tests before `eval_expr`).

Self-checks (exit 2): enum not found; a variant with no arm; an arm with no
variant; a variant with two arms; a method kind not registered in env.rs
exactly once; a function kind without Display name or namespace file.
Shapes it does not recognise inside a located arm become `None`/`false`
fields so that the theorems fail instead of the translator guessing.
"""
import argparse
import hashlib
import os
import re
import sys


class TranslatorError(Exception):
    pass


# ---------------------------------------------------------------------------
# Small Rust text helpers (self-contained on purpose)

def blank_comments_and_strings(src):
    """Same length as src; comment text and string/char literal contents are
    replaced by spaces (newlines kept) so that offsets stay comparable and no
    pattern matches inside a comment or a literal."""
    out = list(src)
    i, n = 0, len(src)
    while i < n:
        c = src[i]
        if src.startswith("//", i):
            j = src.find("\n", i)
            j = n if j < 0 else j
            for k in range(i, j):
                out[k] = " "
            i = j
        elif src.startswith("/*", i):
            j = src.find("*/", i + 2)
            j = n if j < 0 else j + 2
            for k in range(i, j):
                if out[k] != "\n":
                    out[k] = " "
            i = j
        elif c == "r" and re.match(r'r#*"', src[i:i + 6]) and (i == 0 or not (src[i - 1].isalnum() or src[i - 1] == "_")):
            m = re.match(r'r(#*)"', src[i:i + 6])
            close = '"' + m.group(1)
            j = src.find(close, i + len(m.group(0)))
            j = n if j < 0 else j
            for k in range(i + len(m.group(0)), j):
                if out[k] != "\n":
                    out[k] = " "
            i = j + len(close)
        elif c == '"':
            j = i + 1
            while j < n and src[j] != '"':
                if src[j] == "\\":
                    j += 1
                j += 1
            for k in range(i + 1, min(j, n)):
                if out[k] != "\n":
                    out[k] = " "
            i = j + 1
        elif c == "'":
            m = re.match(r"'(\\.[^']*|[^\\'])'", src[i:i + 12])
            if m:
                for k in range(i + 1, i + len(m.group(0)) - 1):
                    out[k] = " "
                i += len(m.group(0))
            else:
                i += 1      # lifetime
        else:
            i += 1
    return "".join(out)


def match_close(text, i, open_="{", close="}"):
    """text[i] is an opening delimiter (text already blanked): index of its match."""
    depth = 0
    n = len(text)
    while i < n:
        c = text[i]
        if c == open_:
            depth += 1
        elif c == close:
            depth -= 1
            if depth == 0:
                return i
        i += 1
    raise TranslatorError("unbalanced %s%s" % (open_, close))


def find_fn_body(blank, name):
    """(start, end) offsets of the `{ ... }` body of `fn name`."""
    m = re.search(r"\bfn\s+" + re.escape(name) + r"\s*(<[^>]*>)?\s*\(", blank)
    if not m:
        raise TranslatorError("function %s not found" % name)
    p = match_close(blank, m.end() - 1, "(", ")")
    b = blank.index("{", p)
    return b, match_close(blank, b)


def enum_variants(blank, name):
    m = re.search(r"\benum\s+" + re.escape(name) + r"\s*\{", blank)
    if not m:
        raise TranslatorError("enum %s not found" % name)
    b = m.end() - 1
    e = match_close(blank, b)
    body = re.sub(r"#\[[^\]]*\]", " ", blank[b + 1:e])
    vs = []
    for part in body.split(","):
        part = part.strip()
        if not part:
            continue
        mm = re.fullmatch(r"([A-Z]\w*)", part)
        if not mm:
            raise TranslatorError("enum %s: unexpected variant shape %r" % (name, part))
        vs.append(mm.group(1))
    if not vs:
        raise TranslatorError("enum %s has no variants" % name)
    return vs


def split_arms(blank, raw, b, e, enum):
    """Arms of the `match` whose body is blank[b+1:e].  Returns
    [(names, start, end)] with offsets of the arm body text into blank/raw."""
    arms = []
    i = b + 1
    pat = re.compile(r"\s*((?:" + re.escape(enum) + r"::\w+\s*\|?\s*)+|_)\s*=>\s*")
    while True:
        m = pat.match(blank, i)
        if not m or m.end() > e:
            if blank[i:e].strip() == "":
                break
            raise TranslatorError("cannot parse match arm of %s near %r" % (enum, raw[i:i + 80]))
        names = re.findall(re.escape(enum) + r"::(\w+)", m.group(1)) or ["_"]
        j = m.end()
        if blank[j] == "{":
            k = match_close(blank, j)
            arms.append((names, j, k + 1))
            j = k + 1
            while j < e and blank[j] in " \n\t":
                j += 1
            if j < e and blank[j] == ",":
                j += 1
        else:
            k = j
            depth = 0
            while k < e:
                c = blank[k]
                if c in "({[":
                    depth += 1
                elif c in ")}]":
                    depth -= 1
                elif c == "," and depth == 0:
                    break
                k += 1
            arms.append((names, j, k))
            j = k + 1
        i = j
    return arms


def depth_at(blank_arm, off):
    """Brace depth of offset `off` inside an arm text that starts with '{'."""
    return blank_arm.count("{", 0, off) - blank_arm.count("}", 0, off)


# ---------------------------------------------------------------------------
# Textual classification of effectful Rust calls.
# (category, regex).  Over-approximate on purpose: a match inside an arm that
# the audit says is pure makes a theorem fail.

EFFECT_PATTERNS = [
    ("EFile", r"\bstd::fs::\w+"),
    ("EFile", r"(?<![\w:])fs::\w+\s*\("),
    ("EFile", r"\bFile::\w+"),
    ("EFile", r"\bOpenOptions\b"),
    ("EFile", r"\.(?:read_dir|read_link|exists|try_exists|is_file|is_dir|is_symlink|metadata|symlink_metadata|"
              r"canonicalize|read_to_string|read_to_end|write_all|create_dir|create_dir_all|remove_file|remove_dir|"
              r"remove_dir_all|rename|set_permissions)\s*\("),
    ("EProcess", r"\bstd::process::\w+"),
    ("EProcess", r"\bCommand::new\b"),
    ("EProcess", r"\.(?:spawn|output|status)\s*\(\s*\)"),
    ("EStdin", r"\bstd::io::stdin\b"),
    ("EStdin", r"\bstdin\s*\(\s*\)"),
    ("EStdin", r"\.(?:read_line|lines)\s*\(\s*&mut"),
    ("ECwd", r"\bstd::env::(?:set_current_dir|current_dir)\b"),
    ("ECwd", r"\bset_current_dir\b"),
]
# `file_type.is_file()` on an already obtained `Metadata` is not an access, but
# it only occurs inside Path::info, an audited-effectful arm, so flagging it is harmless.


def first_effect(blank_arm):
    best = None
    for cat, pat in EFFECT_PATTERNS:
        m = re.search(pat, blank_arm)
        if m and (best is None or m.start() < best[0]):
            best = (m.start(), cat, re.sub(r"\s+", "", m.group(0)).rstrip("("))
    return best


# ---------------------------------------------------------------------------
# Effects reached through helper functions.  Free functions of the crate (definitions that
# start in column 0) called from an arm by bare or lower-case-module-qualified name are
# followed transitively; the first one whose body matches an effect pattern is reported with
# the call chain.  Associated functions / methods (`Type::f(..)`, `x.f(..)`) are NOT followed.

def crate_free_functions(repo):
    fns = {}
    for d, _, fs in os.walk(os.path.join(repo, "src")):
        for f in sorted(fs):
            if not f.endswith(".rs"):
                continue
            rel = os.path.relpath(os.path.join(d, f), os.path.join(repo, "src"))
            if rel == "verif_hooks.rs":
                continue
            bl = blank_comments_and_strings(open(os.path.join(d, f), encoding="utf-8").read())
            m = re.search(r"#\[cfg\(test\)\]\s*mod\s+\w+\s*\{", bl)
            if m:
                bl = bl[:m.start()]
            for m in re.finditer(r"^(?:pub(?:\([^)]*\))?\s+)?(?:async\s+)?fn\s+(\w+)\s*(?:<[^>{]*>)?\s*\(", bl, re.M):
                try:
                    q = match_close(bl, m.end() - 1, "(", ")")
                    k = q + 1
                    while k < len(bl) and bl[k] not in "{;":
                        k += 1
                    if k >= len(bl) or bl[k] == ";":
                        continue
                    e = match_close(bl, k)
                except TranslatorError:
                    continue
                fns.setdefault(m.group(1), []).append(bl[k:e + 1])
    return fns


def free_calls(body, fns):
    res = set()
    for m in re.finditer(r"(?<![\.\w:])(?:[a-z_]\w*::)*([a-z_]\w*)\s*\(", body):
        if m.group(1) in fns:
            res.add(m.group(1))
    return res


def helper_effect_finder(repo):
    fns = crate_free_functions(repo)
    direct = {}
    for n in sorted(fns):
        for body in fns[n]:
            e = first_effect(body)
            if e and n not in direct:
                direct[n] = e[2]
    graph = {n: set().union(*[free_calls(b, fns) for b in bodies]) for n, bodies in fns.items()}

    def reach(arm_blank):
        seen = set()
        todo = [(c, [c]) for c in sorted(free_calls(arm_blank, fns))]
        while todo:
            n, path = todo.pop(0)
            if n in seen:
                continue
            seen.add(n)
            if n in direct:
                return " > ".join(path + [direct[n]])
            for c in sorted(graph.get(n, ())):
                if c not in seen:
                    todo.append((c, path + [c]))
        return None
    return reach


def coq_str(s):
    return '"' + s.replace('"', '""') + '"'


def coq_opt(v, f=str):
    return "None" if v is None else "(Some %s)" % f(v)


def coq_bool(b):
    return "true" if b else "false"


# ---------------------------------------------------------------------------

def analyse_arm(raw_arm, blank_arm):
    """raw_arm / blank_arm: the text `{ ... }` of one arm."""
    r = {}
    # -- arity check
    ar = None
    m = re.search(r"\bcheck_arity\s*\(", blank_arm)
    if m:
        p = m.end() - 1
        q = match_close(blank_arm, p, "(", ")")
        args = split_top_commas(blank_arm[p + 1:q])
        lit = None
        if len(args) == 6 and re.fullmatch(r"\d+", args[3].strip()) and \
                args[4].strip() == "arg_positions" and args[5].strip() == "arg_values":
            lit = int(args[3].strip())
        propagated = bool(re.match(r"\s*\?\s*;", blank_arm[q + 1:]))
        ar = {"off": m.start(), "lit": lit, "toplevel": depth_at(blank_arm, m.start()) == 1,
              "propagated": propagated, "count": len(re.findall(r"\bcheck_arity\s*\(", blank_arm))}
        # function name literal given to check_arity (methods): text: "Dict::get".to_owned()
        mm = re.search(r'text:\s*"([^"]*)"', raw_arm[p:q])
        ar["name"] = mm.group(1) if mm else None
    r["arity"] = ar
    # -- literal index uses
    uses = []
    for m in re.finditer(r"\b(arg_values|arg_positions)\s*\[([^\]]*)\]", blank_arm):
        idx = m.group(2).strip()
        lit = int(idx) if re.fullmatch(r"\d+", idx) else None
        uses.append({"what": m.group(1), "idx": lit, "off": m.start()})
    r["uses"] = uses
    # -- sandbox test
    g = None
    m = re.search(r"\benv\s*\.\s*enforce_sandbox\b", blank_arm)
    if m:
        g = {"off": m.start(), "first_stmt": False, "toplevel_if": False, "returns_forbidden": False}
        mi = re.match(r"\{\s*if\s+env\s*\.\s*enforce_sandbox\s*\{", blank_arm)
        g["first_stmt"] = bool(mi)
        mt = None
        for cand in re.finditer(r"\bif\s+env\s*\.\s*enforce_sandbox\s*\{", blank_arm):
            if cand.start() <= m.start() < cand.end():
                mt = cand
                break
        if mt and depth_at(blank_arm, mt.start()) == 1:
            g["toplevel_if"] = True
            bb = mt.end() - 1
            be = match_close(blank_arm, bb)
            block = re.sub(r"\s+", " ", blank_arm[bb + 1:be]).strip()
            # the block must END with `return Err(( ... EvalError::ForbiddenInSandbox(...) ... ));`
            mr = re.search(r"return Err\(\(.*\bEvalError::ForbiddenInSandbox\(.*\)\s*,?\s*\)\)\s*;$", block)
            no_else = not re.match(r"\s*else\b", blank_arm[be + 1:])
            g["returns_forbidden"] = bool(mr) and no_else
    r["guard"] = g
    r["effect"] = first_effect(blank_arm)
    r["std_paths"] = sorted(set(re.sub(r"\s+", "", p) for p in re.findall(r"\bstd(?:\s*::\s*\w+)+", blank_arm)))
    return r


def split_top_commas(s):
    parts, depth, cur = [], 0, []
    for c in s:
        if c in "({[":
            depth += 1
        elif c in ")}]":
            depth -= 1
        if c == "," and depth == 0:
            parts.append("".join(cur))
            cur = []
        else:
            cur.append(c)
    if "".join(cur).strip():
        parts.append("".join(cur))
    return parts


def rows_for(eval_raw, eval_blank, fn, enum, variants, reach):
    b, e = find_fn_body(eval_blank, fn)
    m = re.compile(r"\bmatch\s+kind\s*\{").search(eval_blank, b, e)
    if not m:
        raise TranslatorError("%s: `match kind {` not found" % fn)
    mb = m.end() - 1
    me = match_close(eval_blank, mb)
    arms = split_arms(eval_blank, eval_raw, mb, me, enum)
    seen = {}
    for names, s, t in arms:
        for nm in names:
            if nm == "_":
                raise TranslatorError("%s: wildcard arm in match over %s (cannot be exhaustive per variant)" % (fn, enum))
            if nm in seen:
                raise TranslatorError("%s: two arms for %s::%s" % (fn, enum, nm))
            if nm not in variants:
                raise TranslatorError("%s: arm for %s::%s which is not a variant" % (fn, enum, nm))
            seen[nm] = (s, t, len(names))
    missing = [v for v in variants if v not in seen]
    if missing:
        raise TranslatorError("%s: no arm for %s variant(s) %s" % (fn, enum, ", ".join(missing)))
    # anything after the match inside the function must be only `Ok(())`
    tail = re.sub(r"\s+", "", eval_blank[me + 1:e])
    tail_ok = tail == "Ok(())"
    res = []
    for v in variants:
        s, t, shared = seen[v]
        info = analyse_arm(eval_raw[s:t], eval_blank[s:t])
        info["helper_effect"] = reach(eval_blank[s:t])
        info["shared_arm"] = shared > 1
        info["block_arm"] = eval_blank[s] == "{"
        res.append((v, info))
    return res, tail_ok


def parse_display_names(values_raw, values_blank, variants):
    m = re.search(r"impl\s+Display\s+for\s+BuiltInFunctionKind\s*\{", values_blank)
    if not m:
        raise TranslatorError("impl Display for BuiltInFunctionKind not found")
    b = m.end() - 1
    e = match_close(values_blank, b)
    names = {}
    for mm in re.finditer(r'BuiltInFunctionKind::(\w+)\s*=>\s*"([^"]*)"', values_raw[b:e]):
        names[mm.group(1)] = mm.group(2)
    m = re.search(r"fn\s+namespace_path\s*\(", values_blank)
    if not m:
        raise TranslatorError("BuiltInFunctionKind::namespace_path not found")
    fb, fe = find_fn_body(values_blank, "namespace_path")
    ns = {}
    for mm in re.finditer(r'((?:BuiltInFunctionKind::\w+\s*\|?\s*)+)=>\s*PathBuf::from\("([^"]*)"\)', values_raw[fb:fe]):
        for v in re.findall(r"BuiltInFunctionKind::(\w+)", mm.group(1)):
            ns[v] = mm.group(2)
    for v in variants:
        if v not in names:
            raise TranslatorError("BuiltInFunctionKind::%s has no Display name" % v)
        if v not in ns:
            raise TranslatorError("BuiltInFunctionKind::%s has no namespace_path" % v)
    return names, ns


def parse_method_registration(env_raw, env_blank, variants):
    m = re.search(r"let\s+built_in_methods\s*=\s*vec!\s*\[", env_blank)
    if not m:
        raise TranslatorError("env.rs: `let built_in_methods = vec![` not found")
    b = m.end() - 1
    e = match_close(env_blank, b, "[", "]")
    text = env_raw[b:e + 1]
    reg = {}
    # ("Type", vec![ ("name", BuiltInMethodKind::X), ... ])
    for tm in re.finditer(r'\(\s*"(\w+)"\s*,\s*vec!\s*\[(.*?)\]\s*,?\s*\)', text, re.S):
        ty = tm.group(1)
        for mm in re.finditer(r'\(\s*"(\w+)"\s*,\s*BuiltInMethodKind::(\w+)\s*\)', tm.group(2)):
            if mm.group(2) in reg:
                raise TranslatorError("env.rs: BuiltInMethodKind::%s registered twice" % mm.group(2))
            reg[mm.group(2)] = (ty, mm.group(1))
    for v in variants:
        if v not in reg:
            raise TranslatorError("env.rs: BuiltInMethodKind::%s is not registered on any type" % v)
    for v in reg:
        if v not in variants:
            raise TranslatorError("env.rs: registers unknown BuiltInMethodKind::%s" % v)
    return reg


def gdn_params(repo, ns_file, name, is_method=None):
    """Number of declared parameters of the Garden-side stub (methods: not counting `this`);
    None when the declaration is not found."""
    try:
        src = open(os.path.join(repo, "src", ns_file), encoding="utf-8").read()
    except OSError:
        return None
    if is_method:
        ty = is_method
        m = re.search(r"\bmethod\s+" + re.escape(name) + r"\s*(?:<[^>]*>)?\s*\(\s*\w+\s*:\s*" + re.escape(ty) + r"\b[^,)]*", src)
        if not m:
            return None
        p = src.index("(", m.start())
    else:
        m = re.search(r"\bfun\s+" + re.escape(name) + r"\s*(?:<[^>]*>)?\s*\(", src)
        if not m:
            return None
        p = m.end() - 1
    depth, i = 0, p
    while True:
        if src[i] in "(<":
            depth += 1
        elif src[i] in ")>":
            depth -= 1
            if depth == 0 and src[i] == ")":
                break
        i += 1
    inner = src[p + 1:i]
    parts = [x for x in split_top_commas(inner.replace("<", "(").replace(">", ")")) if x.strip()]
    return len(parts) - (1 if is_method else 0)


def emit_row(out, kind, variant, ns, name, decl_params, info):
    ar = info["arity"]
    out.append("  {| r_kind := %s; r_variant := %s; r_ns := %s; r_name := %s; r_decl_params := %s;" %
               (kind, coq_str(variant), coq_str(ns), coq_str(name), coq_opt(decl_params)))
    if ar is None:
        out.append("     r_arity := None;")
    else:
        out.append("     r_arity := Some {| a_expected := %s; a_off := %d; a_toplevel := %s; a_propagated := %s; a_unique := %s |};" %
                   (coq_opt(ar["lit"]), ar["off"], coq_bool(ar["toplevel"]), coq_bool(ar["propagated"]),
                    coq_bool(ar["count"] == 1)))
    us = "; ".join("{| u_what := %s; u_index := %s; u_off := %d |}" %
                   ("UValue" if u["what"] == "arg_values" else "UPosition", coq_opt(u["idx"]), u["off"])
                   for u in info["uses"])
    out.append("     r_uses := [%s];" % us)
    g = info["guard"]
    if g is None:
        out.append("     r_guard := None;")
    else:
        out.append("     r_guard := Some {| g_off := %d; g_first_stmt := %s; g_toplevel_if := %s; g_returns_forbidden := %s |};" %
                   (g["off"], coq_bool(g["first_stmt"]), coq_bool(g["toplevel_if"]), coq_bool(g["returns_forbidden"])))
    ef = info["effect"]
    if ef is None:
        out.append("     r_effect := None;")
    else:
        out.append("     r_effect := Some {| e_off := %d; e_cat := %s; e_callee := %s |};" % (ef[0], ef[1], coq_str(ef[2])))
    out.append("     r_helper_effect := %s;" % coq_opt(info["helper_effect"], coq_str))
    out.append("     r_std_paths := [%s];" % "; ".join(coq_str(p) for p in info["std_paths"]))
    out.append("     r_block_arm := %s; r_shared_arm := %s |}" % (coq_bool(info["block_arm"]), coq_bool(info["shared_arm"])))


def parse_limits(repo, rel, eval_call_names):
    path = os.path.join(repo, "src", rel)
    try:
        raw = open(path, encoding="utf-8").read()
    except OSError:
        raise TranslatorError("%s not found" % rel)
    blank = blank_comments_and_strings(raw)

    def one(field, pat):
        ms = list(re.finditer(r"\benv\s*\.\s*" + field + r"\s*=\s*([^;]*);", blank))
        if len(ms) != 1:
            return None, (ms[0].start() if ms else None), len(ms)
        v = re.sub(r"\s+", "", ms[0].group(1))
        mm = re.fullmatch(pat, v)
        return (mm.group(1) if mm else None), ms[0].start(), 1
    tick, toff, tn = one("tick_limit", r"Some\(([0-9_]+)\)")
    stack, soff, sn = one("stack_limit", r"Some\(([0-9_]+)\)")
    enf, eoff, en = one("enforce_sandbox", r"(true|false)")
    if tn == 0 and sn == 0 and en == 0:
        raise TranslatorError("%s: no assignment to env.tick_limit / stack_limit / enforce_sandbox found" % rel)
    # first evaluation entry (after which code of the user program runs) inside the function
    # that contains the assignments
    ev = None
    fn_name = None
    anchor = toff if toff is not None else (soff if soff is not None else eoff)
    for fm in re.finditer(r"\bfn\s+(\w+)\s*(?:<[^>]*>)?\s*\(", blank):
        try:
            fb, fe = find_fn_body(blank[fm.start():], fm.group(1))
        except (TranslatorError, ValueError):
            continue
        fb, fe = fb + fm.start(), fe + fm.start()
        if fb < anchor < fe:
            fn_name = fm.group(1)
            for nm in eval_call_names:
                for m in re.finditer(r"\b" + nm + r"\s*\(", blank[fb:fe]):
                    if ev is None or fb + m.start() < ev:
                        ev = fb + m.start()
                    break
            break
    offs = [o for o in (toff, soff, eoff) if o is not None]
    before = ev is not None and len(offs) == 3 and all(o < ev for o in offs)
    return {"file": rel, "tick": int(tick.replace("_", "")) if tick else None,
            "stack": int(stack.replace("_", "")) if stack else None,
            "enforce": None if enf is None else enf == "true", "before_eval": before, "fn": fn_name,
            "single": tn == 1 and sn == 1 and en == 1}


def eval_loop_facts(eval_blank, all_src_blank):
    b, e = find_fn_body(eval_blank, "eval")
    body = eval_blank[b:e + 1]
    flat = re.sub(r"\s+", " ", body)
    inc = re.search(r"env\.ticks \+= 1;", flat)
    tick = re.search(r"if let Some\((\w+)\) = env\.tick_limit \{ if env\.ticks >= \1 \{(.*?)return Err\(EvalError::ReachedTickLimit\(", flat)
    stack = re.search(r"if let Some\((\w+)\) = env\.stack_limit \{ if env\.stack\.0\.len\(\) > \1 \{(.*?)return Err\(EvalError::ReachedStackLimit\(", flat)
    ee = re.search(r"\beval_expr\(", flat)
    pop = re.search(r"if let Some\(\(mut expr_state, outer_expr\)\) = env\.current_frame_mut\(\)\.exprs_to_eval\.pop\(\) \{", flat)
    facts = {
        "loop_pop_then_incr": bool(pop and inc and pop.end() <= inc.start() and flat[pop.end():inc.start()].strip() == ""),
        "loop_tick_check_ge": bool(tick),
        "loop_incr_before_tick_check": bool(inc and tick and inc.start() < tick.start()),
        "loop_tick_check_before_eval_expr": bool(tick and ee and tick.start() < ee.start()),
        "loop_stack_check_gt": bool(stack),
        "loop_stack_check_before_eval_expr": bool(stack and ee and stack.start() < ee.start()),
        "loop_single_eval_expr_call": len(re.findall(r"\beval_expr\(", flat)) == 1,
    }
    # `ticks` is only ever incremented by one; the only other write allowed is a reset `= 0`
    # inside `fn eval_tests` (each test of a file may get a fresh budget: finitely many tests)
    ok = True
    for rel, blank in all_src_blank.items():
        test_fn = None
        if rel == "eval.rs":
            try:
                test_fn = find_fn_body(blank, "eval_tests")
            except TranslatorError:
                test_fn = None
        for m in re.finditer(r"\bticks\s*(\+=|-=|\*=|=(?!=))\s*([^;,}]*)", blank):
            if blank[max(0, m.start() - 1)] in "=!<>":
                continue
            op, rhs = m.group(1), re.sub(r"\s+", "", m.group(2))
            if op == "+=" and rhs == "1":
                continue
            if op == "=" and rhs == "0" and test_fn and test_fn[0] < m.start() < test_fn[1]:
                continue
            ok = False
    inits = []
    for rel, blank in all_src_blank.items():
        inits += re.findall(r"\bticks\s*:\s*([^,}\n]*)", blank)
    facts["ticks_only_incremented"] = ok and all(x.strip() in ("0", "usize") for x in inits)
    # same for the limits: assigned only in the two sandbox entry points (and initialised to None)
    lim_writes = []
    for rel, blank in all_src_blank.items():
        for m in re.finditer(r"\b(tick_limit|stack_limit|enforce_sandbox)\s*=(?!=)", blank):
            lim_writes.append(rel)
    facts["limits_assigned_only_in_entry_points"] = set(lim_writes) <= {"sandboxed_playground.rs", "test_runner.rs"}
    return facts


def arity_fn_facts(eval_blank):
    """Shape of `check_arity` and of the loops that build arg_values / arg_positions."""
    b, e = find_fn_body(eval_blank, "check_arity")
    flat = re.sub(r"\s+", " ", eval_blank[b:e + 1])
    m = re.fullmatch(r"\{ if arg_values\.len\(\) != expected \{(.*)\} Ok\(\(\)\) \}", flat)
    len_test = bool(m)
    idx_ok = False
    if m:
        inner = m.group(1)
        idxs = re.findall(r"\b\w+\s*\[[^\]]*\]", inner)
        idxs = [re.sub(r"\s+", "", x) for x in idxs if not x.startswith("vec")]
        guarded = re.search(r"if arg_values\.len\(\) > expected \{ arg_positions\[expected\]\.clone\(\) \} else \{", inner)
        # the error path must end by returning: `return Err(( ... ));`
        idx_ok = idxs == ["arg_positions[expected]"] and bool(guarded) and \
            bool(re.search(r"return Err\(\(.*\)\);\s*$", inner))

    def pushes(fn):
        fb, fe = find_fn_body(eval_blank, fn)
        fl = re.sub(r"\s+", " ", eval_blank[fb:fe + 1])
        loop = re.search(r'for arg in &paren_args\.arguments \{ arg_values\.push\( env\.pop_value\(\) \.expect\(" "\), \); '
                         r"arg_positions\.push\(arg\.expr\.position\.clone\(\)\); \}", fl)
        return bool(loop) and len(re.findall(r"\barg_values\.push\(", fl)) == 1 and \
            len(re.findall(r"\barg_positions\.push\(", fl)) == 1
    return {"ca_len_test": len_test, "ca_index_only_when_longer": idx_ok,
            "call_pushes_pairwise": pushes("eval_call"), "method_call_pushes_pairwise": pushes("eval_method_call")}


def main():
    ap = argparse.ArgumentParser()
    ap.add_argument("--repo", default="/repo")
    ap.add_argument("--out", required=True)
    ap.add_argument("--json", help="also dump the table as JSON to this file (used by the search drivers)")
    a = ap.parse_args()

    def read(rel):
        try:
            return open(os.path.join(a.repo, "src", rel), encoding="utf-8").read()
        except OSError:
            raise TranslatorError("src/%s not found" % rel)

    try:
        eval_raw = read("eval.rs")
        eval_blank = blank_comments_and_strings(eval_raw)
        values_raw = read("values.rs")
        values_blank = blank_comments_and_strings(values_raw)
        ast_blank = blank_comments_and_strings(read("parser/ast.rs"))
        env_raw = read("env.rs")
        env_blank = blank_comments_and_strings(env_raw)

        fvars = enum_variants(values_blank, "BuiltInFunctionKind")
        mvars = enum_variants(ast_blank, "BuiltInMethodKind")
        reach = helper_effect_finder(a.repo)
        frows, ftail = rows_for(eval_raw, eval_blank, "eval_built_in_call", "BuiltInFunctionKind", fvars, reach)
        mrows, mtail = rows_for(eval_raw, eval_blank, "eval_built_in_method_call", "BuiltInMethodKind", mvars, reach)
        fnames, fns = parse_display_names(values_raw, values_blank, fvars)
        mreg = parse_method_registration(env_raw, env_blank, mvars)

        limits = [parse_limits(a.repo, "sandboxed_playground.rs", ["eval_toplevel_items", "eval_tests", "eval"]),
                  parse_limits(a.repo, "test_runner.rs", ["eval_tests", "eval_toplevel_items", "eval"])]
        all_blank = {}
        for d, _, fs in os.walk(os.path.join(a.repo, "src")):
            for f in fs:
                if f.endswith(".rs"):
                    rel = os.path.relpath(os.path.join(d, f), os.path.join(a.repo, "src"))
                    if rel == "verif_hooks.rs":
                        continue        # cfg-gated verification hook, not part of the product
                    all_blank[rel] = blank_comments_and_strings(open(os.path.join(d, f), encoding="utf-8").read())
        loop = eval_loop_facts(eval_blank, all_blank)
        afn = arity_fn_facts(eval_blank)
    except TranslatorError as ex:
        print("gen_builtins: " + str(ex), file=sys.stderr)
        return 2

    out = ["(* GENERATED by tools/gen_builtins.py from src/eval.rs, values.rs, parser/ast.rs, env.rs,",
           "   sandboxed_playground.rs, test_runner.rs -- do not edit.",
           "   Offsets are character offsets inside the arm text (comments and literals blanked);",
           "   they are only compared with each other: textual order approximates dominance for",
           "   top-level statements of an arm. *)",
           "From Coq Require Import NArith List String.",
           "From Garden Require Import Sandbox.",
           "Import ListNotations.",
           "Open Scope string_scope.",
           "Open Scope N_scope.",
           ""]
    js = {"functions": [], "methods": [], "limits": limits, "loop": loop, "arity_fn": afn}
    out.append("Definition function_rows : list row := [")
    for i, (v, info) in enumerate(frows):
        dp = gdn_params(a.repo, fns[v], fnames[v])
        emit_row(out, "KFunction", v, fns[v], fnames[v], dp, info)
        out[-1] += ";" if i + 1 < len(frows) else ""
        js["functions"].append({"variant": v, "ns": fns[v], "name": fnames[v], "decl_params": dp,
                                "arity": (info["arity"] or {}).get("lit"), "guard": bool(info["guard"]),
                                "effect": info["effect"][2] if info["effect"] else None,
                                "helper_effect": info["helper_effect"]})
    out.append("].")
    out.append("")
    out.append("Definition method_rows : list row := [")
    for i, (v, info) in enumerate(mrows):
        ty, nm = mreg[v]
        dp = gdn_params(a.repo, "__prelude.gdn", nm, is_method=ty)
        emit_row(out, "KMethod", v, ty, nm, dp, info)
        out[-1] += ";" if i + 1 < len(mrows) else ""
        js["methods"].append({"variant": v, "type": ty, "name": nm, "decl_params": dp,
                              "arity": (info["arity"] or {}).get("lit"), "guard": bool(info["guard"]),
                              "effect": info["effect"][2] if info["effect"] else None,
                              "helper_effect": info["helper_effect"],
                              "arity_name": (info["arity"] or {}).get("name")})
    out.append("].")
    out.append("")
    out.append("Definition builtin_table : list row := function_rows ++ method_rows.")
    out.append("")
    out.append("(* Translator self-check results that are facts about the source, kept as data: *)")
    out.append("Definition function_variant_count : N := %d." % len(fvars))
    out.append("Definition method_variant_count : N := %d." % len(mvars))
    out.append("Definition function_match_tail_is_ok : bool := %s.   (* only `Ok(())` follows the match *)" % coq_bool(ftail))
    out.append("Definition method_match_tail_is_ok : bool := %s." % coq_bool(mtail))
    out.append("")
    out.append("Definition sandbox_entry_points : list limits := [")
    for i, l in enumerate(limits):
        out.append("  {| l_file := %s; l_tick_limit := %s; l_stack_limit := %s; l_enforce_sandbox := %s;"
                   " l_set_before_eval := %s; l_assigned_once := %s |}%s" %
                   (coq_str(l["file"]), coq_opt(l["tick"]), coq_opt(l["stack"]),
                    coq_opt(l["enforce"], coq_bool), coq_bool(l["before_eval"]), coq_bool(l["single"]),
                    ";" if i + 1 < len(limits) else ""))
    out.append("].")
    out.append("")
    out.append("Definition eval_loop : loop_facts :=")
    out.append("  {| " + ";\n     ".join("%s := %s" % (k, coq_bool(v)) for k, v in loop.items()) + " |}.")
    out.append("")
    out.append("Definition arity_fn : arity_fn_facts :=")
    out.append("  {| " + ";\n     ".join("%s := %s" % (k, coq_bool(v)) for k, v in afn.items()) + " |}.")
    text = "\n".join(out) + "\n"
    os.makedirs(a.out, exist_ok=True)
    p = os.path.join(a.out, "Builtins.v")
    old = open(p).read() if os.path.exists(p) else None
    if old != text:
        with open(p, "w") as f:
            f.write(text)
    if a.json:
        import json
        with open(a.json, "w") as f:
            json.dump(js, f, indent=1)
    print("builtins sha256 %s (%d functions, %d methods)" % (hashlib.sha256(text.encode()).hexdigest()[:16], len(fvars), len(mvars)))
    return 0


if __name__ == "__main__":
    sys.exit(main())
