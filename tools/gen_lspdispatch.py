#!/usr/bin/env python3
"""Translator: src/lsp.rs of garden  ->  coq/gen/LspDispatch.v

Regenerated on every check run.  It extracts, textually, the facts the model
coq/LspDispatch.v is parameterised by:

  * the arms of `match parsed.method.as_deref()` in `handle_message`, IN ORDER
    (Rust tries them first to last): the method strings of the pattern, the
    guard, and the SHAPE of the body -- does it push exactly one response
    carrying the request id on every path when an id is present (and none
    otherwise), is it a notification handler that may only publish
    diagnostics, does it change the loop action;
  * what happens when the JSON value does not deserialize into `Message`
    (InvalidRequest error when `message.get("id")` is present);
  * the shape of `push_request_response` (exactly one of push_response /
    push_error(InvalidParams)) and of `push_response` / `push_error`
    (push, or only log when serialization fails);
  * that every request handler named in an arm is a function declared to
    return `JsonRpcResponse<..>` (one response by type) and every did*
    handler returns only `Option<Value>` built by `diagnostics_notification`;
  * the main loop of `run_lsp`: a read error is logged and the loop
    continues, EOF breaks, `Action::Exit` exits with status 0 after a
    shutdown request and 1 otherwise.

Anything whose shape is not recognised becomes an `...Unknown` constructor
(the Coq table check then computes to false and the theorems fail); an item
that cannot be located at all is a hard failure (exit 2).
"""
import argparse
import os
import re
import sys


class TranslatorError(Exception):
    pass


# --------------------------------------------------------------------------
# small Rust text helpers (string/comment aware brace matching)

def match_close(src, i, open_="{", close="}"):
    depth = 0
    n = len(src)
    while i < n:
        c = src[i]
        if src.startswith("//", i):
            j = src.find("\n", i)
            i = n if j < 0 else j
            continue
        if c == '"':
            i += 1
            while i < n and src[i] != '"':
                if src[i] == "\\":
                    i += 1
                i += 1
        elif c == "'" and re.match(r"'(\\.|[^\\'])'", src[i:i + 4]):
            i += len(re.match(r"'(\\.|[^\\'])'", src[i:i + 4]).group(0)) - 1
        elif c == open_:
            depth += 1
        elif c == close:
            depth -= 1
            if depth == 0:
                return i
        i += 1
    raise TranslatorError("unbalanced %s%s" % (open_, close))


def find_fn(src, name):
    """(signature text, body text including braces) of `fn name`."""
    m = re.search(r"\bfn\s+" + re.escape(name) + r"\b", src)
    if not m:
        raise TranslatorError("function %s not found" % name)
    # skip generics and the parameter list
    i = src.index("(", m.end())
    j = match_close(src, i, "(", ")")
    k = src.index("{", j)
    e = match_close(src, k)
    return src[m.start():k], src[k:e + 1]


def strip_comments(s):
    out = []
    i, n = 0, len(s)
    while i < n:
        if s.startswith("//", i):
            j = s.find("\n", i)
            i = n if j < 0 else j
            continue
        if s[i] == '"':
            j = i + 1
            while j < n and s[j] != '"':
                if s[j] == "\\":
                    j += 1
                j += 1
            out.append(s[i:j + 1])
            i = j + 1
            continue
        out.append(s[i])
        i += 1
    return "".join(out)


def norm(s):
    return re.sub(r"\s+", " ", strip_comments(s)).strip()


def squeeze(s):
    """norm + no spaces around punctuation, trailing commas dropped; string literals are kept verbatim."""
    s = strip_comments(s)
    parts = re.split(r'("(?:[^"\\]|\\.)*")', s)
    out = []
    for k, part in enumerate(parts):
        if k % 2 == 1:
            out.append(part)
        else:
            part = re.sub(r"\s+", " ", part)
            part = re.sub(r"\s*([(){}\[\],;:&|=<>!.+*@-])\s*", r"\1", part)
            out.append(part)
    s = "".join(out).strip()
    # spaces left between a literal and punctuation
    s = re.sub(r'"\s+([(){}\[\],;:&|=<>!.])', r'"\1', s)
    s = re.sub(r'([(){}\[\],;:&|=<>!.])\s+"', r'\1"', s)
    s = s.replace(",)", ")").replace(",}", "}").replace(";}", "}")
    return s


# --------------------------------------------------------------------------
# match arms

def split_arms(body):
    """body = text between the braces of a `match`: list of (pattern, guard, arm_body_text)."""
    arms = []
    i, n = 0, len(body)
    while i < n:
        while i < n and (body[i].isspace() or body[i] == ","):
            i += 1
        if body.startswith("//", i):
            j = body.find("\n", i)
            i = n if j < 0 else j
            continue
        if i >= n:
            break
        # pattern up to `=>` at depth 0
        j = i
        depth = 0
        while j < n:
            c = body[j]
            if c == '"':
                j += 1
                while body[j] != '"':
                    if body[j] == "\\":
                        j += 1
                    j += 1
            elif c in "([{":
                depth += 1
            elif c in ")]}":
                depth -= 1
            elif depth == 0 and body.startswith("=>", j):
                break
            j += 1
        if j >= n:
            raise TranslatorError("arm without =>")
        head = body[i:j].strip()
        j += 2
        while body[j].isspace():
            j += 1
        if body[j] == "{":
            e = match_close(body, j)
            arm = body[j:e + 1]
            i = e + 1
        else:
            # expression arm up to the next comma at depth 0
            k = j
            depth = 0
            while k < n:
                c = body[k]
                if c == '"':
                    k += 1
                    while body[k] != '"':
                        if body[k] == "\\":
                            k += 1
                        k += 1
                elif c in "([{":
                    depth += 1
                elif c in ")]}":
                    depth -= 1
                elif c == "," and depth == 0:
                    break
                k += 1
            arm = body[j:k]
            i = k + 1
        guard = ""
        mg = re.search(r"\bif\b", head)
        if mg:
            # `if` at depth 0 outside strings
            pat, guard = head[:mg.start()].strip(), head[mg.end():].strip()
        else:
            pat = head
        arms.append((pat, guard, arm))
    return arms


STR = r'"((?:[^"\\]|\\.)*)"'


def parse_pattern(pat):
    """-> ('strs', [..]) | ('any', binder) | ('none',) | ('unknown', text)"""
    p = squeeze(pat)
    if p == "None":
        return ("none",)
    m = re.fullmatch(r"Some\((.*)\)", p)
    if not m:
        return ("unknown", p)
    inner = m.group(1)
    mb = re.fullmatch(r"([a-z_][a-z0-9_]*)@\((.*)\)", inner)
    if mb:
        inner = mb.group(2)
    elif re.fullmatch(r"[a-z_][a-z0-9_]*", inner):
        return ("any", inner)
    elif inner == "_":
        return ("any", "_")
    parts = inner.split("|")
    strs = []
    for q in parts:
        ms = re.fullmatch(STR, q)
        if not ms:
            return ("unknown", p)
        strs.append(ms.group(1))
    return ("strs", strs)


def parse_guard(g):
    g = squeeze(g)
    if g == "":
        return "GNone"
    if g == "parsed.id.is_some()":
        return "GIdPresent"
    if g == "parsed.id.is_none()":
        return "GIdAbsent"
    return "GUnknown"


ERRCODES = {"MethodNotFound": "MethodNotFound", "InvalidRequest": "InvalidRequest",
            "InvalidParams": "InvalidParams", "ParseError": "ParseErrorCode", "InternalError": "InternalError"}


def classify_body(arm, fns, facts):
    """Shape of an arm body.  Returns (coq_term, handler_name or None, comment)."""
    b = squeeze(arm)
    if b.startswith("{") and b.endswith("}"):
        b = b[1:-1]
    # trailing action assignment
    action = "ActContinue"
    ma = re.search(r";?action=Action::(\w+);?$", b)
    if ma:
        action = {"Shutdown": "ActShutdown", "Exit": "ActExit", "Continue": "ActContinue"}.get(ma.group(1), "ActUnknown")
        b = b[:ma.start()]
    b = b.rstrip(";")
    if "action=" in b or "return" in b:
        return "BUnknown", None, "action assignment / return in an unexpected place"
    if b == "":
        return "BNothing %s" % action, None, "no output"
    # if let Some(id) = parsed.id { <one push> }
    m = re.fullmatch(r"if let Some\(id\)=parsed\.id\{(.*)\}", b)
    if m:
        inner = m.group(1).rstrip(";")
        # push_request_response(&mut outgoing, message, id, "<method>", <handler>)
        mr = re.fullmatch(r"push_request_response\(&mut outgoing,message,id," + STR + r",(.*)\)", inner)
        if mr:
            h = mr.group(2)
            mh = re.fullmatch(r"\|id,params\|(\w+)\(id,params(?:,[\w.()&]+)*\)", h) or re.fullmatch(r"(\w+)", h)
            if not mh:
                return "BUnknown", None, "handler closure not recognised: " + h
            hname = mh.group(1)
            if hname not in fns:
                return "BUnknown", hname, "handler %s is not a function of lsp.rs" % hname
            if not fns[hname]["returns_response"]:
                return "BUnknown", hname, "handler %s is not declared to return JsonRpcResponse<..>" % hname
            facts.setdefault("req_method_literals", []).append(mr.group(1))
            return "BRespondParams %s" % action, hname, "push_request_response -> " + hname
        mp = re.fullmatch(r"push_response\(&mut outgoing,(\w+)\(id\)\)", inner)
        if mp:
            hname = mp.group(1)
            if hname not in fns or not fns[hname]["returns_response"]:
                return "BUnknown", hname, "direct handler %s does not return JsonRpcResponse<..>" % hname
            return "BRespondDirect %s" % action, hname, "push_response(" + hname + "(id))"
        me = re.fullmatch(r"push_error\(&mut outgoing,id,ErrorCodes::(\w+),(.*)\)", inner)
        if me and me.group(1) in ERRCODES and "push_" not in me.group(2):
            return "BRespondError %s %s" % (ERRCODES[me.group(1)], action), None, "push_error " + me.group(1)
        return "BUnknown", None, "unrecognised push inside `if let Some(id)`: " + inner[:80]
    # let params = message.get("params").unwrap_or(&Null); outgoing.extend(handle_did_x(params, documents))
    md = re.fullmatch(r'let params=message\.get\("params"\)\.unwrap_or\(&serde_json::Value::Null\);'
                      r"outgoing\.extend\((\w+)\(params,documents\)\)", b)
    if md:
        hname = md.group(1)
        if hname not in fns or not fns[hname]["notification_only"]:
            return "BUnknown", hname, "notification handler %s may produce something else than diagnostics" % hname
        if fns[hname]["store"] == "StoreUnknown":
            return "BUnknown", hname, "notification handler %s both inserts and removes documents" % hname
        return "BNotify %s %s" % (fns[hname]["store"], action), hname, "outgoing.extend(" + hname + ")"
    return "BUnknown", None, "unrecognised arm body: " + b[:100]


def scan_functions(src):
    """For every `fn handle_*`: does the signature return JsonRpcResponse<..>; is it a did* handler
    that can only yield a publishDiagnostics notification."""
    fns = {}
    for m in re.finditer(r"\bfn\s+(handle_\w+)\b", src):
        name = m.group(1)
        if name == "handle_message":
            continue
        sig, body = find_fn(src, name)
        s = squeeze(sig)
        returns_response = bool(re.search(r"\)->JsonRpcResponse<.*>$", s))
        nb = squeeze(body)
        notification_only = (bool(re.search(r"\)->Option<serde_json::Value>$", s))
                             and "JsonRpcResponse" not in nb and "push_response" not in nb and "push_error" not in nb
                             and bool(re.search(r"diagnostics_notification\([^;]*\)\}$", nb))
                             and not re.search(r"\breturn\b", nb))
        ins, rem = "documents.insert(" in nb, "documents.remove(" in nb
        store = "StoreUnknown" if (ins and rem) else "StoreInsert" if ins else "StoreRemove" if rem else "StoreNone"
        fns[name] = {"returns_response": returns_response, "notification_only": notification_only, "store": store}
    return fns


def parse_dispatch(src):
    """-> dict with everything extracted from lsp.rs (also used by tools/props/C28.py)."""
    facts = {}
    fns = scan_functions(src)
    sig, body = find_fn(src, "handle_message")
    # ---- envelope parse failure ------------------------------------------
    mp = re.search(r"let\s+parsed\s*:\s*Message\s*=\s*match\s+serde_json::from_value\(message\.clone\(\)\)\s*\{", body)
    if not mp:
        raise TranslatorError("handle_message: `let parsed: Message = match serde_json::from_value(..)` not found")
    e = match_close(body, mp.end() - 1)
    parse_arms = split_arms(body[mp.end():e])
    on_parse_error = "PEUnknown"
    for pat, guard, arm in parse_arms:
        if squeeze(pat).startswith("Err("):
            a = squeeze(arm)
            mm = re.fullmatch(r'\{error!\(.*?\);if let Some\(id\)=message\.get\("id"\)\{push_error\(&mut outgoing,id\.clone\(\),'
                              r"ErrorCodes::(\w+),.*?\)\}return\(outgoing,action\)\}", a)
            if mm and mm.group(1) in ERRCODES:
                on_parse_error = "PEErrorIfRawId " + ERRCODES[mm.group(1)]
            elif re.fullmatch(r"\{error!\(.*?\);return\(outgoing,action\)\}", a):
                on_parse_error = "PEIgnore"
    # `action` must start as Continue
    if not re.search(r"let\s+mut\s+action\s*=\s*Action::Continue\s*;", body):
        on_parse_error = "PEUnknown"
    facts["on_parse_error"] = on_parse_error
    # ---- the dispatch match ----------------------------------------------
    mm = re.search(r"match\s+parsed\.method\.as_deref\(\)\s*\{", body)
    if not mm:
        raise TranslatorError("handle_message: `match parsed.method.as_deref()` not found")
    e2 = match_close(body, mm.end() - 1)
    tail = squeeze(body[e2 + 1:])
    facts["returns_outgoing"] = tail == "(outgoing,action)}"
    # nothing between the envelope parse and the dispatch match may touch outgoing/action
    between = squeeze(body[e + 1:mm.start()]).lstrip(";")
    facts["between_clean"] = between == ""
    arms = []
    for pat, guard, arm in split_arms(body[mm.end():e2]):
        p = parse_pattern(pat)
        g = parse_guard(guard)
        shape, hname, comment = classify_body(arm, fns, facts)
        arms.append({"pattern": p, "guard": g, "shape": shape, "handler": hname, "comment": comment})
    if not arms:
        raise TranslatorError("no arms in the dispatch match")
    facts["arms"] = arms
    # ---- push helpers -----------------------------------------------------
    _, prr = find_fn(src, "push_request_response")
    p = squeeze(prr)
    ok = re.fullmatch(r'\{match message\.get\("params"\)\.and_then\(\|p\|serde_json::from_value\(p\.clone\(\)\)\.ok\(\)\)'
                      r"\{Some\(params\)=>push_response\(outgoing,handler\(id,params\)\),"
                      r"None=>\{error!\(.*?\);push_error\(outgoing,id,ErrorCodes::InvalidParams,.*?\);?\}\}\}", p)
    facts["push_request_response"] = "PrrResponseOrInvalidParams" if ok else "PrrUnknown"
    for name in ("push_response", "push_error"):
        _, pb = find_fn(src, name)
        q = squeeze(pb)
        ok = re.search(r"match serde_json::to_value\(&response\)\{Ok\(v\)=>outgoing\.push\(v\),Err\(e\)=>error!\(.*?\)\}\}$", q)
        facts[name] = "PushOrLog" if ok and q.count("outgoing.push(") == 1 else "PushUnknown"
    # ---- main loop ----------------------------------------------------------
    _, rl = find_fn(src, "run_lsp")
    r = squeeze(rl)
    loop = {}
    loop["on_eof"] = "LoopBreak" if re.search(r"Ok\(None\)=>\{break;?\}", r) else "LoopUnknown"
    loop["on_read_error"] = "LoopContinue" if re.search(r"Err\(e\)=>\{error!\([^;]*\);continue;?\}", r) else "LoopUnknown"
    mexit = re.search(r"Action::Exit=>\{std::process::exit\(if shutdown_received\{(\d+)\}else\{(\d+)\}\);?\}", r)
    loop["exit_codes"] = (int(mexit.group(1)), int(mexit.group(2))) if mexit else None
    loop["on_shutdown"] = "SetShutdown" if re.search(r"Action::Shutdown=>shutdown_received=true", r) else "ShutdownUnknown"
    loop["on_continue"] = "Nothing" if re.search(r"Action::Continue=>\{\}", r) else "ContinueUnknown"
    loop["writes_all"] = bool(re.search(r"for msg in&outgoing\{if let Err\(e\)=write_message\(msg\)\{error!\([^;]*\);?\}\}", r))
    loop["starts_not_shutdown"] = bool(re.search(r"let mut shutdown_received=false;", r))
    facts["loop"] = loop
    facts["fns"] = fns
    return facts


# --------------------------------------------------------------------------
# Coq output

def coq_string(s):
    return '"' + s.replace('"', '""') + '"'


def render(facts, srcpath):
    L = []
    L.append("(* GENERATED by tools/gen_lspdispatch.py from src/lsp.rs -- do not edit. *)")
    L.append("From Coq Require Import List String NArith.")
    L.append("Require Import Garden.LspDispatch.")
    L.append("Import ListNotations.")
    L.append("Open Scope string_scope.")
    L.append("")
    L.append("(* arms of `match parsed.method.as_deref()` in handle_message, in source order *)")
    L.append("Definition dispatch_arms : list arm :=")
    rows = []
    for a in facts["arms"]:
        p = a["pattern"]
        if p[0] == "strs":
            pat = "PStrs [" + "; ".join(coq_string(s) for s in p[1]) + "]"
        elif p[0] == "any":
            pat = "PAnySome"
        elif p[0] == "none":
            pat = "PNone"
        else:
            pat = "PUnknown"
        rows.append("    {| a_pat := %s; a_guard := %s; a_body := %s |} (* %s *)"
                    % (pat, a["guard"], a["shape"], a["comment"].replace("*)", "* )").replace("(*", "( *")))
    # the `;` separator must come before the trailing comment
    body = []
    for i, row in enumerate(rows):
        code, _, comment = row.partition(" (* ")
        sep = ";" if i + 1 < len(rows) else ""
        body.append("%s%s (* %s" % (code, sep, comment))
    L.append("  [\n" + "\n".join(body) + "\n  ].")
    L.append("")
    lp = facts["loop"]
    ec = lp["exit_codes"]
    L.append("Definition dispatch_table : table :=")
    L.append("  {| t_arms := dispatch_arms;")
    L.append("     t_on_parse_error := %s;" % facts["on_parse_error"])
    L.append("     t_prr := %s;" % facts["push_request_response"])
    L.append("     t_push_response := %s;" % facts["push_response"])
    L.append("     t_push_error := %s;" % facts["push_error"])
    L.append("     t_frame_ok := %s;" % ("true" if facts["returns_outgoing"] and facts["between_clean"] else "false"))
    L.append("     t_on_eof := %s;" % lp["on_eof"])
    L.append("     t_on_read_error := %s;" % lp["on_read_error"])
    L.append("     t_on_shutdown := %s;" % lp["on_shutdown"])
    L.append("     t_loop_ok := %s;" % ("true" if lp["writes_all"] and lp["starts_not_shutdown"] and lp["on_continue"] == "Nothing" else "false"))
    if ec:
        L.append("     t_exit_codes := ExitCodes %d %d |}." % ec)
    else:
        L.append("     t_exit_codes := ExitUnknown |}.")
    L.append("")
    L.append("(* handlers named by the arms (informational): *)")
    for a in facts["arms"]:
        if a["handler"]:
            pp = a["pattern"][1] if a["pattern"][0] == "strs" else a["pattern"][0]
            L.append("(*   %s -> %s *)" % (pp, a["handler"]))
    return "\n".join(L) + "\n"


def write_if_changed(path, content):
    os.makedirs(os.path.dirname(path), exist_ok=True)
    try:
        with open(path) as f:
            if f.read() == content:
                return False
    except FileNotFoundError:
        pass
    with open(path, "w") as f:
        f.write(content)
    return True


def load(repo):
    p = os.path.join(repo, "src", "lsp.rs")
    try:
        return open(p).read(), p
    except OSError as e:
        raise TranslatorError("cannot read %s: %s" % (p, e))


def main():
    ap = argparse.ArgumentParser()
    ap.add_argument("--repo", default="/repo")
    ap.add_argument("--out", default=None)
    ap.add_argument("--dump", action="store_true", help="print the extracted facts")
    args = ap.parse_args()
    try:
        src, p = load(args.repo)
        facts = parse_dispatch(src)
    except TranslatorError as e:
        print("gen_lspdispatch: " + str(e), file=sys.stderr)
        return 2
    except (ValueError, IndexError) as e:
        print("gen_lspdispatch: cannot parse lsp.rs: %r" % (e,), file=sys.stderr)
        return 2
    if args.dump:
        import json
        print(json.dumps(facts, indent=1, default=str))
    if args.out:
        write_if_changed(os.path.join(args.out, "LspDispatch.v"), render(facts, p))
    return 0


if __name__ == "__main__":
    sys.exit(main())
