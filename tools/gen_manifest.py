#!/usr/bin/env python3
"""Writes MANIFEST.json from tools/props/Cxx.py META blocks."""
import importlib
import json
import os
import subprocess
import sys

HERE = os.path.dirname(os.path.abspath(__file__))
VERIF = os.path.dirname(HERE)
sys.path.insert(0, HERE)

props = [json.loads(l) for l in open(os.path.join(VERIF, "properties.jsonl"))]
checks, na = [], []
PENDING = json.load(open(os.path.join(VERIF, "tools", "not_claimed.json")))
for p in props:
    pid = p["id"]
    path = os.path.join(HERE, "props", pid + ".py")
    if not os.path.exists(path) or pid in PENDING.get("unregistered", []):
        na.append({"property_id": pid, "reason": PENDING["reasons"].get(pid, "no machine-checked theorem discharged for this property yet; not claimed (see DESIGN.md section 6)")})
        continue
    mod = importlib.import_module("props." + pid)
    if getattr(mod, "CLAIMED", True) is False:
        na.append({"property_id": pid, "reason": getattr(mod, "NOT_CLAIMED_REASON", "the minimal theorem for this property (DESIGN.md section 6) is not discharged yet; its search driver exists but is not claimed")})
        continue
    m = mod.META
    checks.append({
        "property_id": pid,
        "quick_cmd": "./check %s quick" % pid,
        "thorough_cmd": "./check %s thorough" % pid,
        "evidence_file": "evidence/%s.json" % pid,
        "replay_cmd_template": "./check %s --replay {path}" % pid,
        "engine": "coq-garden",
        "level_claimed": {"category": getattr(mod, "LEVEL", "proof"), "text": m["level_text"], "design_ref": m.get("design_ref", "DESIGN.md section 5")},
        "level_note": m["level_note"],
        "technique": m["technique"],
    })
try:
    commits = subprocess.check_output(["git", "-C", "/repo", "log", "--format=%h %s", "910f5b8..HEAD"]).decode().splitlines()
except Exception:
    commits = []
hook_commits = [c.split()[0] for c in commits if c.split(" ", 1)[1].startswith("verif hooks")]
manifest = {
    "version": 1,
    "setup_cmd": "./setup.sh",
    "hooks": {
        "guard": "wilfred_garden_verif",
        "enable": "RUSTFLAGS='--cfg wilfred_garden_verif' CARGO_TARGET_DIR=/verif/.cache/target cargo build --offline --manifest-path /repo/Cargo.toml",
        "baseline_off_cmd": "cd /repo && cargo test --workspace --no-fail-fast --offline",
        "source_commits": hook_commits,
        "add_only": True,
    },
    "engines": [{
        "name": "coq-garden",
        "path": "coq/",
        "serves_properties": [c["property_id"] for c in checks],
        "kind_free_text": "Coq 8.16.1 development (hand-written Gallina models + tables regenerated from the Rust source by tools/gen_tables.py) with a correspondence check that runs the extracted models (OCaml) and the garden binary on the same inputs",
    }],
    "checks": checks,
    "not_applicable": na,
    "notes": "Entry point ./check <Cxx> quick|thorough. Known findings: known_findings.json. Design: DESIGN.md.",
}
with open(os.path.join(VERIF, "MANIFEST.json"), "w") as f:
    json.dump(manifest, f, indent=1)
    f.write("\n")
print("checks:", [c["property_id"] for c in checks])
