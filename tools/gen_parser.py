#!/usr/bin/env python3
"""Translator: src/parser.rs -> coq/gen/ParserShape.v
  * the binary operator table of `token_as_binary_op` (token text -> BinaryOperatorKind)
  * the SHAPE of the infix-operator arm of the expression loop (`parse_expression_with`, or `parse_expression`
    in the code before the associativity fix): is it guarded by `allow_binary_ops`, is the right operand parsed with
    operators disabled, does it rotate the tree once, and does it build BinaryOperator(expr, op, rhs) in that order.
Unknown shapes give `arm_recognised := false` (the theorems then fail)."""
import argparse
import hashlib
import os
import re
import sys

sys.path.insert(0, os.path.dirname(os.path.abspath(__file__)))
from gen_tables import find_fn, match_brace, norm, TranslatorError  # noqa: E402

KINDS = ["Add", "AddFloat", "Subtract", "SubtractFloat", "Multiply", "MultiplyFloat", "Divide", "DivideFloat",
         "Modulo", "Exponent", "Equal", "NotEqual", "LessThan", "LessThanOrEqual", "GreaterThan",
         "GreaterThanOrEqual", "And", "Or", "BitwiseAnd", "BitwiseOr", "StringConcat"]


def coq_str(s):
    return "[" + "; ".join(str(ord(c)) for c in s) + "]%N"


def main():
    ap = argparse.ArgumentParser()
    ap.add_argument("--repo", default="/repo")
    ap.add_argument("--out", required=True)
    a = ap.parse_args()
    try:
        src = open(os.path.join(a.repo, "src", "parser.rs"), encoding="utf-8").read()
        body = find_fn(src, "token_as_binary_op")
        table = re.findall(r'"([^"]+)"\s*=>\s*Some\(BinaryOperatorKind::(\w+)\)', body)
        if not table:
            raise TranslatorError("token_as_binary_op: no arms found")
        for _, k in table:
            if k not in KINDS:
                raise TranslatorError("unknown BinaryOperatorKind " + k)
        # the expression loop
        try:
            loop_fn = find_fn(src, "parse_expression_with")
            has_flag = True
        except TranslatorError:
            loop_fn = find_fn(src, "parse_expression")
            has_flag = False
        m = re.search(r"Some\(token\)\s+if\s+([^=]*?)token_as_binary_op\(&token\)\.is_some\(\)\s*=>\s*\{", loop_fn)
        if not m:
            raise TranslatorError("binary operator arm of the expression loop not found")
        guard = norm(m.group(1))
        b = m.end() - 1
        e = match_brace(loop_fn, b)
        arm = norm(loop_fn[b:e + 1])
        guarded = has_flag and guard == "allow_binary_ops &&"
        recognised = guard in ("", "allow_binary_ops &&")
        rhs_false = bool(re.search(r"let rhs_expr = parse_expression_with\(tokens, id_gen, diagnostics, false\);", arm))
        rhs_full = bool(re.search(r"let rhs_expr = parse_expression\(tokens, id_gen, diagnostics\);", arm)) or \
            bool(re.search(r"let rhs_expr = parse_expression_with\(tokens, id_gen, diagnostics, true\);", arm))
        if rhs_false == rhs_full:
            recognised = False
        rotates = "match rhs_expr.expr_" in arm
        build = re.findall(r"Expression_::BinaryOperator\( (.*?), (.*?), (.*?),? \)", arm)
        plain = ("Rc::new(expr)", "token_as_binary_op(&token).unwrap()", "Rc::new(rhs_expr)")
        if rotates:
            # the old code: inner = BinaryOperator(expr, op, next_lhs); outer = BinaryOperator(new_inner, next_op, next_rhs); else plain
            want = [("Rc::new(expr)", "token_as_binary_op(&token).unwrap()", "next_lhs"),
                    ("Rc::new(new_inner)", "next_op", "next_rhs"), plain]
            if build != want:
                recognised = False
        else:
            if build != [plain]:
                recognised = False
        if not arm.startswith("{ tokens.pop();") and "tokens.pop();" not in arm[:400]:
            recognised = False
        # the loop must continue after the arm (no early return/break inside it)
        if re.search(r"\breturn\b|\bbreak\b", arm):
            recognised = False
        # the `.` arm of the same loop: when is `x.name` followed by `(` a method call?  (added fact, used by
        # ParseFull.v: `method_paren_touches` = the parenthesis must start where the method name ends, as for calls)
        meth_recognised, meth_touch = False, False
        md = re.search(r'Some\(token\)\s+if\s+token\.text\s*==\s*"\."\s*=>\s*\{', loop_fn)
        if md:
            db = md.end() - 1
            dot_arm = norm(loop_fn[db:match_brace(loop_fn, db) + 1])
            sym = 'let variable = parse_symbol(tokens, id_gen, diagnostics, Some("method name")); '
            any_paren = sym + 'if peeked_symbol_is(tokens, "(") { '
            touching = (sym + 'let paren_touches = match tokens.peek() { Some(next_token) => { next_token.text == "(" && '
                        'variable.position.end_offset == next_token.position.start_offset } None => false, }; '
                        'if paren_touches { ')
            glued_name = ('if Some(token.position.end_offset) == next_token.map(|tok| tok.position.start_offset) { ')
            call = 'let arguments = parse_call_arguments(tokens, id_gen, diagnostics);'
            if glued_name + any_paren in dot_arm and dot_arm.count("paren_touches") == 0:
                meth_recognised, meth_touch = True, False
            elif glued_name + touching in dot_arm and dot_arm.count("paren_touches") == 2:
                meth_recognised, meth_touch = True, True
            if call not in dot_arm or "Expression_::MethodCall(Rc::new(expr), variable, arguments)" not in dot_arm \
                    or "Expression_::DotAccess(Rc::new(expr), variable)" not in dot_arm:
                meth_recognised = False
        # the call arm: `(` touching the expression so far
        call_touch = bool(re.search(r'Some\(token\)\s+if\s+token\.text\s*==\s*"\("\s*&&\s*'
                                    r'expr\.position\.end_offset\s*==\s*token\.position\.start_offset\s*=>', loop_fn))
        # parse_return: the returned expression must start on the line of the keyword
        ret_fn = norm(find_fn(src, "parse_return"))
        ret_same_line = ("if let Some(next_token) = tokens.peek() { if return_token.position.end_line_number == "
                         "next_token.position.line_number { let returned_expr = parse_expression(tokens, id_gen, diagnostics);") in ret_fn
        # parse_expression_no_trailing: the SECOND token decides assignments, before any keyword
        nt_fn = norm(find_fn(src, "parse_expression_no_trailing"))
        assign_first = nt_fn.startswith('{ if let Some((_, token)) = tokens.peek_two() { if token.text == "=" { return '
                                        'parse_assign(tokens, id_gen, diagnostics); } if token.text == "+=" || token.text == "-=" '
                                        '{ return parse_assign_update(tokens, id_gen, diagnostics); } }')
        mk = re.search(r"const KEYWORDS: &\[&str\] = &\[(.*?)\];", src, re.S)
        if not mk:
            raise TranslatorError("KEYWORDS not found")
        kws = re.findall(r'"(\w+)"', mk.group(1))
    except (TranslatorError, OSError) as ex:
        print("translator(parser): " + str(ex), file=sys.stderr)
        return 2
    out = ["(* GENERATED by tools/gen_parser.py from src/parser.rs -- do not edit. *)",
           "From Coq Require Import NArith List.", "From Garden Require Import ParseExpr.", "Import ListNotations.", "",
           "(* token text (as character codes) -> operator kind, in source order *)",
           "Definition op_table : list (list N * opk) :=", "  ["]
    out.append(";\n".join("   (%s, K%s)" % (coq_str(t), k) for t, k in table))
    out += ["  ].", "",
            "Definition arm_recognised : bool := %s." % ("true" if recognised else "false"),
            "Definition current_shape : arm_shape :=",
            "  {| rhs_stops_at_operators := %s; rotates_once := %s; guarded_by_flag := %s |}."
            % ("true" if rhs_false else "false", "true" if rotates else "false", "true" if guarded else "false"), "",
            "(* facts used by ParseFull.v *)",
            "Definition method_arm_recognised : bool := %s." % ("true" if meth_recognised else "false"),
            "Definition method_paren_touches : bool := %s." % ("true" if meth_touch else "false"),
            "Definition call_paren_touches : bool := %s." % ("true" if call_touch else "false"),
            "Definition return_needs_same_line : bool := %s." % ("true" if ret_same_line else "false"),
            "Definition assignment_decided_by_second_token : bool := %s." % ("true" if assign_first else "false"),
            "Definition keyword_count : nat := %d." % len(kws), ""]
    text = "\n".join(out)
    os.makedirs(a.out, exist_ok=True)
    p = os.path.join(a.out, "ParserShape.v")
    old = open(p).read() if os.path.exists(p) else None
    if old != text:
        open(p, "w").write(text)
    print("parsershape sha256 " + hashlib.sha256(text.encode()).hexdigest()[:16])
    return 0


if __name__ == "__main__":
    sys.exit(main())
