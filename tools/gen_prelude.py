#!/usr/bin/env python3
"""Translator: src/__prelude.gdn + src/eval.rs  ->  coq/gen/PreludeSrc.v

For every prelude function that coq/Prelude.v transliterates, and for every
Rust built-in method arm those functions run, emit a hash of the CURRENT
source text (comments stripped, whitespace collapsed, so re-formatting does not
matter).  coq/Properties/C32.v pins the hashes of the sources the model was
written from: an edit of a modelled function makes an `Example ..._src_pinned`
fail, the check then reports the broken obligation and falls back on the
exhaustive search until the model has been brought up to date.

exit 2 when an item cannot be located (the check reports a broken tie)."""
import argparse
import hashlib
import os
import re
import sys


class TranslatorError(Exception):
    pass


# (Coq constant prefix, kind, name, receiver type or None)
GARDEN = [
    ("starts_with", "method", "starts_with", "String"),
    ("ends_with", "method", "ends_with", "String"),
    ("replace", "method", "replace", "String"),
    ("split_once", "method", "split_once", "String"),
    ("join", "method", "join", "String"),
    ("contains", "method", "contains", "String"),
    ("trim_left", "method", "trim_left", "String"),
    ("trim_right", "method", "trim_right", "String"),
    ("trim", "method", "trim", "String"),
    ("strip_suffix", "method", "strip_suffix", "String"),
    ("strip_prefix", "method", "strip_prefix", "String"),
    ("split", "method", "split", "String"),
    ("chars", "method", "chars", "String"),
    ("len", "method", "len", "String"),
    ("lines", "method", "lines", "String"),
    ("substring", "method", "substring", "String"),
    ("index_of", "method", "index_of", "String"),
    ("range", "fun", "range", None),
    ("append", "method", "append", "List<T>"),
    ("concat", "method", "concat", "List<T>"),
    ("lcontains", "method", "contains", "List<T>"),
    ("get", "method", "get", "List<T>"),
    ("llen", "method", "len", "List<T>"),
    ("first", "method", "first", "List<T>"),
    ("last", "method", "last", "List<T>"),
    ("filter", "method", "filter", "List<T>"),
    ("map", "method", "map", "List<T>"),
    ("lindex_of", "method", "index_of", "List<T>"),
    ("slice", "method", "slice", "List<T>"),
    ("enumerate", "method", "enumerate", "List<T>"),
    ("sort_nums", "fun", "sort_nums", None),
    ("max", "fun", "max", None),
    ("min", "fun", "min", None),
]

RUST_ARMS = ["StringLen", "StringSubstring", "StringStartsWith", "StringEndsWith", "StringIndexOf", "StringJoin",
             "StringChars", "StringLines", "ListAppend", "ListLen", "ListGet", "ListContains", "ListSlice"]


def scan(src, i, comment="//"):
    """Index of the brace matching src[i] == '{', skipping string literals, char literals and line comments."""
    depth = 0
    n = len(src)
    while i < n:
        c = src[i]
        if src.startswith(comment, i):
            j = src.find("\n", i)
            i = n if j < 0 else j
            continue
        if c == '"':
            i += 1
            while i < n and src[i] != '"':
                if src[i] == "\\":
                    i += 1
                i += 1
        elif c == "'" and re.match(r"'(\\.|[^\\'])'", src[i:i + 4]):
            i += len(re.match(r"'(\\.|[^\\'])'", src[i:i + 4]).group(0)) - 1
        elif c == "{":
            depth += 1
        elif c == "}":
            depth -= 1
            if depth == 0:
                return i
        i += 1
    raise TranslatorError("unbalanced braces")


def normalise(text):
    """Strip // comments that are outside string literals, collapse whitespace."""
    out = []
    i, n = 0, len(text)
    while i < n:
        c = text[i]
        if c == '"':
            j = i + 1
            while j < n and text[j] != '"':
                if text[j] == "\\":
                    j += 1
                j += 1
            out.append(text[i:j + 1])
            i = j + 1
        elif text.startswith("//", i):
            j = text.find("\n", i)
            i = n if j < 0 else j
        else:
            out.append(c)
            i += 1
    return re.sub(r"\s+", " ", "".join(out)).strip()


def garden_item(src, kind, name, recv):
    if kind == "method":
        pat = r"^public method " + re.escape(name) + r"(<[^>]*>)?\(this: " + re.escape(recv) + r"[,)]"
    else:
        pat = r"^public fun " + re.escape(name) + r"(<[^>]*>)?\("
    ms = list(re.finditer(pat, src, re.M))
    if len(ms) != 1:
        raise TranslatorError("%d definitions of %s %s(%s) in __prelude.gdn" % (len(ms), kind, name, recv))
    start = ms[0].start()
    i = src.index("{", ms[0].end())
    j = scan(src, i)
    return src[start:j + 1]


def rust_arm(src, variant):
    ms = list(re.finditer(r"\n        BuiltInMethodKind::" + variant + r" => \{", src))
    if len(ms) != 1:
        raise TranslatorError("%d arms BuiltInMethodKind::%s in eval.rs" % (len(ms), variant))
    i = ms[0].end() - 1
    j = scan(src, i)
    return src[ms[0].start() + 1:j + 1]


def h(text):
    return hashlib.sha256(normalise(text).encode()).hexdigest()[:16]


def main():
    ap = argparse.ArgumentParser()
    ap.add_argument("--repo", default="/repo")
    ap.add_argument("--out", required=True)
    a = ap.parse_args()
    try:
        prelude = open(os.path.join(a.repo, "src", "__prelude.gdn"), encoding="utf-8").read()
        evalrs = open(os.path.join(a.repo, "src", "eval.rs"), encoding="utf-8").read()
        lines = ["(* GENERATED by tools/gen_prelude.py from src/__prelude.gdn and src/eval.rs -- do not edit.",
                 "   sha256 (first 16 hex digits) of each modelled item, comments stripped, whitespace collapsed. *)",
                 "From Coq Require Import String.", "Open Scope string_scope.", ""]
        for coq, kind, name, recv in GARDEN:
            lines.append('Definition %s_hash : string := "%s".' % (coq, h(garden_item(prelude, kind, name, recv))))
        for v in RUST_ARMS:
            lines.append('Definition rust_%s_hash : string := "%s".' % (v, h(rust_arm(evalrs, v))))
        content = "\n".join(lines) + "\n"
    except (TranslatorError, OSError, ValueError) as e:
        sys.stderr.write("gen_prelude.py: %s\n" % e)
        return 2
    path = os.path.join(a.out, "PreludeSrc.v")
    os.makedirs(a.out, exist_ok=True)
    try:
        if open(path).read() == content:
            return 0
    except OSError:
        pass
    with open(path, "w") as f:
        f.write(content)
    return 0


if __name__ == "__main__":
    sys.exit(main())
