#!/usr/bin/env python3
"""Translator: Rust source of garden  ->  coq/gen/Tables.v

Regenerated on every check run.  It extracts the small declarative facts the
Coq models are parameterised by.  Anything it does not recognise becomes an
`...Unknown` constructor (the theorems then fail and the check searches for a
failing input); a source shape it cannot even locate is a hard failure
(exit 2), which the check reports as a broken tie.
"""
import argparse
import hashlib
import os
import re
import sys


class TranslatorError(Exception):
    pass


def find_fn(src, name):
    """Return the text of `fn name(...) ... { body }` (body with braces)."""
    m = re.search(r"\bfn\s+" + re.escape(name) + r"\s*(<[^>]*>)?\s*\(", src)
    if not m:
        raise TranslatorError("function %s not found" % name)
    i = src.index("{", skip_sig(src, m.end() - 1))
    j = match_brace(src, i)
    return src[i:j + 1]


def skip_sig(src, i):
    """i at '(' of the parameter list: return index after the matching ')'."""
    depth = 0
    while True:
        c = src[i]
        if c == "(":
            depth += 1
        elif c == ")":
            depth -= 1
            if depth == 0:
                return i + 1
        i += 1


def match_brace(src, i, open_="{", close="}"):
    """src[i] is an opening brace: index of the matching close. Skips string
    and char literals and comments."""
    depth = 0
    n = len(src)
    while i < n:
        c = src[i]
        if src.startswith("//", i):
            i = src.index("\n", i)
            continue
        if c == '"':
            i += 1
            while src[i] != '"':
                if src[i] == "\\":
                    i += 1
                i += 1
        elif c == "'" and re.match(r"'(\\.|[^\\'])'", src[i:i + 4]):
            i += len(re.match(r"'(\\.|[^\\'])'", src[i:i + 4]).group(0)) - 1
        elif c == "r" and src.startswith('r#"', i):
            i = src.index('"#', i + 3) + 1
        elif c == open_:
            depth += 1
        elif c == close:
            depth -= 1
            if depth == 0:
                return i
        i += 1
    raise TranslatorError("unbalanced braces")


def strip_comments(s):
    return re.sub(r"//[^\n]*", "", s)


def norm(s):
    return re.sub(r"\s+", " ", strip_comments(s)).strip()


def split_match_arms(body, enum):
    """body = text between the braces of `match x { ... }`; returns
    [(Variant, arm_text)] for arms `Enum::Variant => ...` at the top level,
    plus ('_', text) for a wildcard arm."""
    arms = []
    i = 0
    n = len(body)
    pat = re.compile(r"\s*((?:" + re.escape(enum) + r"::(\w+)(?:\s*\|\s*)?)+|_)\s*=>\s*")
    while i < n:
        m = pat.match(body, i)
        if not m:
            if body[i:].strip() == "":
                break
            raise TranslatorError("cannot parse match arm near: %r" % body[i:i + 80])
        names = re.findall(re.escape(enum) + r"::(\w+)", m.group(1)) or ["_"]
        j = m.end()
        # arm body: a block {...} optionally followed by ',', or an expression up to top-level ','
        if body[j] == "{":
            k = match_brace(body, j)
            text = body[j:k + 1]
            j = k + 1
            if j < n and body[j] == ",":
                j += 1
        else:
            k = j
            depth = 0
            while k < n:
                c = body[k]
                if c in "({[":
                    depth += 1
                elif c in ")}]":
                    depth -= 1
                elif c == '"':
                    k += 1
                    while body[k] != '"':
                        if body[k] == "\\":
                            k += 1
                        k += 1
                elif c == "," and depth == 0:
                    break
                k += 1
            text = body[j:k]
            j = k + 1
        for nm in names:
            arms.append((nm, text))
        i = j
    return arms


# ---------------------------------------------------------------------------
# Integer operator arms (C04, C02)

GUARDS = [
    (r"rhs_num == 0", "GRhsZero"),
    (r"rhs_num < 0", "GRhsNeg"),
    (r"rhs_num > u32::MAX as i64 && lhs_num\.unsigned_abs\(\) > 1", "GRhsGtU32BigBase"),
    (r"rhs_num > u32::MAX as i64", "GRhsGtU32"),
    (r"lhs_num == i64::MIN && rhs_num == -1", "GMinDivNegOne"),
]

CORE_EXPRS = [
    (r"lhs_num\.wrapping_add\(rhs_num\)", "CWrapAdd"),
    (r"lhs_num\.wrapping_sub\(rhs_num\)", "CWrapSub"),
    (r"lhs_num\.wrapping_mul\(rhs_num\)", "CWrapMul"),
    (r"lhs_num \+ rhs_num", "CPlainAdd"),
    (r"lhs_num - rhs_num", "CPlainSub"),
    (r"lhs_num \* rhs_num", "CPlainMul"),
    (r"lhs_num / rhs_num", "CPlainDiv"),
    (r"lhs_num % rhs_num", "CPlainRem"),
    (r"lhs_num\.wrapping_div\(rhs_num\)", "CWrapDiv"),
    (r"lhs_num\.wrapping_rem\(rhs_num\)", "CWrapRem"),
    (r"lhs_num\.wrapping_rem_euclid\(rhs_num\)", "CWrapRemEuclid"),
    (r"lhs_num & rhs_num", "CBitAnd"),
    (r"lhs_num \| rhs_num", "CBitOr"),
    (r"lhs_num < rhs_num", "CLt"),
    (r"lhs_num > rhs_num", "CGt"),
    (r"lhs_num <= rhs_num", "CLe"),
    (r"lhs_num >= rhs_num", "CGe"),
]

CHECKED_EXPRS = [
    (r"lhs_num\.checked_add\(rhs_num\)", "CCheckedAdd"),
    (r"lhs_num\.checked_sub\(rhs_num\)", "CCheckedSub"),
    (r"lhs_num\.checked_mul\(rhs_num\)", "CCheckedMul"),
    (r"lhs_num\.checked_div\(rhs_num\)", "CCheckedDiv"),
    (r"lhs_num\.checked_rem\(rhs_num\)", "CCheckedRem"),
    (r"lhs_num\.checked_rem_euclid\(rhs_num\)", "CCheckedRemEuclid"),
    (r"lhs_num\.checked_pow\(rhs_num as u32\)", "CCheckedPowU32"),
    (r"lhs_num\.checked_pow\(exponent\)", "CCheckedPowParity"),
]

RETURN_ERR = r"return Err\(\(.*?\)\);"


def strip_return_err(text, start):
    """text[start:] begins with `return Err((`: return index after the `;`."""
    i = text.index("(", start)
    j = match_brace(text, i, "(", ")")
    k = j + 1
    while text[k] in " \n\t":
        k += 1
    if text[k] != ";":
        raise TranslatorError("expected ; after return Err(...)")
    return k + 1


def parse_int_arm(text, lhs="lhs_num", rhs="rhs_num", bare=False):
    """Return (guards, core)."""
    t = strip_comments(text).strip()
    if t.startswith("{") and t.endswith("}"):
        t = t[1:-1].strip()
    if bare:
        # operands are references here: `*var_value_num + *rhs_num`, `var_value_num.wrapping_add(*rhs_num)`
        t = t.replace("*" + lhs, "lhs_num").replace("*" + rhs, "rhs_num")
    t = t.replace(lhs, "lhs_num").replace(rhs, "rhs_num")
    guards = []
    # leading `if COND { return Err((...)); }` statements
    while True:
        m = re.match(r"if\s+(.*?)\s*\{\s*return Err\(\(", t, re.S)
        if not m:
            break
        cond = norm(m.group(1))
        b = t.index("{", m.start(1) + len(m.group(1)))
        e = match_brace(t, b)
        inner = t[b + 1:e].strip()
        k = strip_return_err(inner, 0)
        if inner[k:].strip():
            return guards + ["GUnknown"], "CUnknown"
        g = "GUnknown"
        for pat, name in GUARDS:
            if re.fullmatch(pat, cond):
                g = name
                break
        guards.append(g)
        t = t[e + 1:].strip()
    parity = False
    t1 = norm(t)
    m = re.match(r"let exponent = if rhs_num > u32::MAX as i64 \{ 2 \+ \(rhs_num % 2\) as u32 \} "
                 r"else \{ rhs_num as u32 \}; ", t1)
    if m:
        parity = True
        t1 = t1[m.end():].strip()
    m = re.fullmatch(r"match (.*?) \{ Some\(num\) => Value::new\(Value_::Int\(num\)\), None => \{ return Err\(\(.*\)\); \} \},?", t1)
    if m:
        for pat, name in CHECKED_EXPRS:
            if re.fullmatch(pat, m.group(1)):
                if (name == "CCheckedPowParity") != parity:
                    return guards, "CUnknown"
                return guards, name
        return guards, "CUnknown"
    if parity:
        return guards, "CUnknown"
    m = re.fullmatch(r"Value::new\(Value_::Int\((.*)\)\),?", t1)
    wrapper = "int"
    if not m:
        m = re.fullmatch(r"Value::bool\((.*)\),?", t1)
        wrapper = "bool"
    if not m and bare:
        m = re.fullmatch(r"(.*?),?", t1)
        wrapper = "int"
    if m:
        e = m.group(1)
        for pat, name in CORE_EXPRS:
            if re.fullmatch(pat, e):
                if (name in ("CLt", "CGt", "CLe", "CGe")) != (wrapper == "bool"):
                    return guards, "CUnknown"
                return guards, name
    return guards, "CUnknown"


INT_OPS = [("Add", "OAdd"), ("Subtract", "OSub"), ("Multiply", "OMul"), ("Divide", "ODiv"),
           ("Modulo", "OMod"), ("Exponent", "OPow"), ("BitwiseAnd", "OBitAnd"), ("BitwiseOr", "OBitOr"),
           ("LessThan", "OLt"), ("GreaterThan", "OGt"), ("LessThanOrEqual", "OLe"),
           ("GreaterThanOrEqual", "OGe")]


def gen_int_ops(eval_src, out):
    body = find_fn(eval_src, "eval_int_binop")
    m = re.search(r"let value = match op\.kind \{", body)
    if not m:
        raise TranslatorError("eval_int_binop: `let value = match op.kind {` not found")
    b = m.end() - 1
    e = match_brace(body, b)
    arms = dict(split_match_arms(body[b + 1:e], "BinaryOperatorKind"))
    # operand extraction: lhs_num / rhs_num must be bound from lhs_value / rhs_value Int payloads
    pre = norm(body[:m.start()])
    operands_ok = bool(re.search(r"let lhs_num = match lhs_value\.as_ref\(\) \{ Value_::Int\(i\) => \*i,", pre)) and \
        bool(re.search(r"let rhs_num = match rhs_value\.as_ref\(\) \{ Value_::Int\(i\) => \*i,", pre)) and \
        bool(re.search(r"let rhs_value = env \.pop_value\(\).*?let lhs_value = env \.pop_value\(\)", pre))
    out.append("(* eval_int_binop: operands popped rhs-then-lhs and unwrapped from Int: %s *)" % operands_ok)
    out.append("Definition int_operands_ok : bool := %s." % ("true" if operands_ok else "false"))
    out.append("Definition int_arm (o : int_op) : arm :=\n  match o with")
    for rust, coq in INT_OPS:
        if rust not in arms:
            raise TranslatorError("eval_int_binop: no arm for " + rust)
        gs, core = parse_int_arm(arms[rust])
        out.append("  | %s => {| guards := [%s]; body := %s |}" % (coq, "; ".join(gs), core))
    out.append("  end.")
    extra = sorted(set(arms) - {r for r, _ in INT_OPS} - {"_"})
    out.append("(* other arms in eval_int_binop: %s *)" % extra)

    # eval_assign_update
    body = find_fn(eval_src, "eval_assign_update")
    m = re.search(r"let new_value_num = match op \{", body)
    if not m:
        raise TranslatorError("eval_assign_update: match not found")
    b = m.end() - 1
    e = match_brace(body, b)
    arms = dict(split_match_arms(body[b + 1:e], "AssignUpdateKind"))
    out.append("Definition upd_arm (o : upd_op) : arm :=\n  match o with")
    for rust, coq in [("Add", "UAdd"), ("Subtract", "USub")]:
        if rust not in arms:
            raise TranslatorError("eval_assign_update: no arm for " + rust)
        gs, core = parse_int_arm(arms[rust], "var_value_num", "rhs_num", bare=True)
        out.append("  | %s => {| guards := [%s]; body := %s |}" % (coq, "; ".join(gs), core))
    out.append("  end.")


def main():
    ap = argparse.ArgumentParser()
    ap.add_argument("--repo", default="/repo")
    ap.add_argument("--out", required=True)
    a = ap.parse_args()
    src = lambda p: open(os.path.join(a.repo, "src", p), encoding="utf-8").read()
    out = ["(* GENERATED by tools/gen_tables.py from the Rust source -- do not edit. *)",
           "From Coq Require Import ZArith List String.",
           "From Garden Require Import Arith.",
           "Import ListNotations.", ""]
    try:
        eval_src = src("eval.rs")
        gen_int_ops(eval_src, out)
    except TranslatorError as e:
        print("translator: " + str(e), file=sys.stderr)
        return 2
    text = "\n".join(out) + "\n"
    os.makedirs(a.out, exist_ok=True)
    p = os.path.join(a.out, "Tables.v")
    old = open(p).read() if os.path.exists(p) else None
    if old != text:
        with open(p, "w") as f:
            f.write(text)
    print("tables sha256 " + hashlib.sha256(text.encode()).hexdigest()[:16])
    return 0


if __name__ == "__main__":
    sys.exit(main())
