"""C01 -- Front end never crashes on any source text (lexer: proof; parser/checker/formatter: search only).

This module also holds what the three lexer-related drivers (C01, C12, C23) share: source generators, the
canonical text form of a lexer result, and the model/implementation correspondence of `lex`."""
import itertools
import json
import os
import re
import shutil
import tempfile

from vplib import common, oracle

LEVEL = "proof"
RULE = ("Coq: Properties/C01.v (lex_total and friends over coq/Lex.v, all char lists). Dynamic: (1) the extracted "
        "lexer model and the real lexer (hook op `lex`) must agree on token texts, all six position fields, comments "
        "and errors for every generated source: grammar-ish programs, token-level mutations, char-level mutations "
        "(2/3/4-byte chars, NBSP, U+2003, U+3000, lone quotes/backslashes, shebangs, CR), programs cut off at a token "
        "boundary (unterminated constructs) and ALL strings of length "
        "<= 3 (quick) / <= 4 (thorough) over a 20-symbol alphabet; (2) crash search on the real front end: hook op "
        "`sexp` (lex+parse under catch_unwind) on every source, then `garden check`, `format`, `reftest-ast`, `run` "
        "on a sample written to files; exit status 101 or 'panicked at' is a violation, delta-debugged before it is "
        "reported. A case is non-trivial when the source is non-empty and is not a plain ASCII-only well-lexed program.")
META = {
    "technique": ("Coq proof over an executable model of lex.rs (every str slice checked against char boundaries) "
                  "+ differential execution of the extracted model vs the real lexer + crash fuzzing of the real front end"),
    "level_text": ("LEXER PART (proved): Coq theorem lex_total: for ALL sources (lists of scalar values, any length) the model "
                   "of lex_between returns LexOk -- no slice off a char boundary, no out-of-range from_offset, enough fuel -- "
                   "plus lex_step_progress (every iteration consumes a non-empty prefix) and lex_positions (all positions "
                   "well-formed). The model is tied to lex.rs by differential lexing on generated and exhaustively "
                   "enumerated small sources. PARSER / CHECKER / FORMATTER PART (NOT proved): covered by search only "
                   "(in-process lex+parse on every generated source, CLI check/format/reftest-ast/run on a sample)."),
    "level_note": ("Trusted: Coq kernel; the meaning given to Rust str/char/regex/line_numbers operations in coq/Lex.v "
                   "and coq/Base/Utf.v (modelled, not verified; the four regexes are re-implemented as scanners); "
                   "extraction + ocaml/ops_lex.ml; the cfg-gated hook; the generators. Not covered by any theorem: "
                   "parser.rs, checks/*, format.rs, main.rs; native stack overflow on deep nesting."),
    "design_ref": "DESIGN.md §5 C01, §8 item 1",
}

TRUSTED = [
    "Coq 8.16.1 kernel (coqc); vm_compute only in concrete Examples",
    "coq/Lex.v, coq/Base/Utf.v: meaning of Rust str slicing, char::len_utf8/is_whitespace, the regex crate "
    "(four anchored regexes as scanners), line_numbers::from_offset -- modelled, not verified",
    "Extraction (ExtrOcamlBasic only) + ocaml/driver_core.ml, ops_lex.ml (UTF-8 decoding, printing)",
    "garden verif-batch hook ops lex/sexp (cfg wilfred_garden_verif) and the plain CLI as oracle of record",
    "the source generators of tools/props/C01.py",
]

# ---------------------------------------------------------------------------
# canonical text of a lexer result (same grammar as ocaml/ops_lex.ml)


def hx(s):
    return common.hexs(s)


def cpos(p):
    return ",".join(str(x) for x in p)


def canon_hook(r):
    """JSON response of hook op `lex` -> canonical line."""
    if "panic" in r:
        return "panic"
    if "tokens" not in r:
        return "bad:" + json.dumps(r)[:200]
    toks = []
    for t in r["tokens"]:
        cs = "+".join(cpos(c["pos"]) + "~" + hx(c["text"]) for c in t["comments"])
        toks.append("%s:%s:%s" % (cpos(t["pos"]), hx(t["text"]), cs))
    tr = [cpos(c["pos"]) + "~" + hx(c["text"]) for c in r["trailing_comments"]]
    es = []
    for e in r["errors"]:
        m = e["message"]
        if m == "Unclosed string literal.":
            es.append(cpos(e["pos"]) + ":unclosed:-")
        elif m.startswith("Unrecognized syntax `") and m.endswith("`"):
            es.append(cpos(e["pos"]) + ":unrec:" + hx(m[len("Unrecognized syntax `"):-1]))
        else:
            es.append(cpos(e["pos"]) + ":other:" + hx(m))
    return "ok|T=" + ";".join(toks) + "|C=" + ";".join(tr) + "|E=" + ";".join(es)


def parse_canon(line):
    """canonical line -> dict(tokens=[(pos, text, [(pos,text)])], trailing=[...], errors=[(pos, kind, text)]) or None."""
    if not line.startswith("ok|"):
        return None
    _, t, c, e = line.split("|")

    def pos(s):
        return [int(x) for x in s.split(",")]

    def com(s):
        p, h = s.split("~")
        return (pos(p), common.unhex(h))
    toks = []
    for s in filter(None, t[2:].split(";")):
        p, h, cs = s.split(":")
        toks.append((pos(p), common.unhex(h), [com(x) for x in filter(None, cs.split("+"))]))
    tr = [com(x) for x in filter(None, c[2:].split(";"))]
    es = []
    for s in filter(None, e[2:].split(";")):
        p, k, h = s.split(":")
        es.append((pos(p), k, common.unhex(h)))
    return {"tokens": toks, "trailing": tr, "errors": es}


# ---------------------------------------------------------------------------
# independent recomputation of line / column from byte offsets

def line_col(b, o):
    """(line, column) of byte offset o in bytes b: number of LF before o, bytes since the last of them."""
    pre = b[:o]
    return pre.count(b"\n"), o - (pre.rfind(b"\n") + 1)


def is_boundary(b, o):
    return 0 <= o <= len(b) and (o == len(b) or (b[o] & 0xC0) != 0x80)


def pos_problem(b, p):
    """None when position p = [start,end,line,end_line,col,end_col] is consistent with source bytes b."""
    s, e, l, el, c, ec = p
    if not (0 <= s <= e <= len(b)):
        return "offsets not ordered / outside the file"
    if not is_boundary(b, s):
        return "start offset inside a character"
    if not is_boundary(b, e):
        return "end offset inside a character"
    if (l, c) != line_col(b, s):
        return "line/column %s differ from those of the start offset %s" % ((l, c), line_col(b, s))
    if (el, ec) != line_col(b, e):
        return "end line/column %s differ from those of the end offset %s" % ((el, ec), line_col(b, e))
    return None


# ---------------------------------------------------------------------------
# generators

IDENTS = ["x", "y", "foo", "bar", "n", "acc", "item", "_", "Foo", "None", "Some", "True", "False", "String", "Int",
          "List", "a1", "_b", "é"]
KEYWORDS = ["let", "fun", "if", "else", "while", "return", "match", "struct", "enum", "import", "for", "in", "break",
            "continue", "test", "method", "external", "as", "assert", "public", "shared"]
OPS2 = ["==", "!=", ">=", "<=", "&&", "||", "+=", "-=", "**", "+.", "-.", "*.", "/.", "=>", "::"]
OPS1 = list("+-*/%^=<>&|(){},[].:")
BINOPS = ["+", "-", "*", "/", "%", "==", "!=", "<", ">", "<=", ">=", "&&", "||", "**", "+.", "-.", "*.", "/.", "^"]
INTS = ["0", "1", "2", "42", "-7", "-1", "1_000", "9223372036854775807", "-9223372036854775808", "007", "1_", "99999999999999999999"]
FLOATS = ["1.5", "-0.5", "1_0.2_5", "3.14", "0.0", "-0.0", "1.0", "123456.789"]
STR_PIECES = ["a", "b", " ", "foo", "\\\"", "\\\\", "\\n", "\\t", "\n", "\t", "é", "€", "😀", "\\z", "//", "\\",
              "'", "{", " ", "1", "\r\n"]
SPECIAL_CHARS = ["é", "ß", "€", " ", "　", " ", "\u0085", " ", " ", "😀", "𝒳", "\"", "\\", "#", "#!",
                 "\r", "\r\n", "\n", "\t", "\x0b", "\x0c", "\x00", "\x7f", "'", "`", "@", "$", "~", "?", "!", ";", "_", ".",
                 "-", "/", "//", "\\\"", "\\\\", "0", "9", "e", "﻿", "́", "​", "\U0010ffff", "퟿", ""]
SMALL_ALPHABET = ["\"", "\\", "\n", " ", "a", "1", "-", ".", "_", "/", "=", "é", " ", "#", "😀", "(", "+", "\r", "€", ":"]


def gen_string(rng):
    n = rng.choice([0, 1, 1, 2, 3, 5])
    return "\"" + "".join(rng.choice(STR_PIECES) for _ in range(n)) + "\""


def gen_comment(rng):
    return "//" + rng.choice(["", " c", " é €", "/ doc", " \"q", " x // y", " ", " 😀"]) + "\n"


def gen_expr(rng, d):
    """-> list of tokens"""
    k = rng.random()
    if d <= 0 or k < 0.30:
        k2 = rng.random()
        if k2 < 0.3:
            return [rng.choice(IDENTS)]
        if k2 < 0.5:
            return [rng.choice(INTS)]
        if k2 < 0.6:
            return [rng.choice(FLOATS)]
        return [gen_string(rng)]
    if k < 0.5:
        return gen_expr(rng, d - 1) + [rng.choice(BINOPS)] + gen_expr(rng, d - 1)
    if k < 0.65:
        args = []
        for i in range(rng.randint(0, 3)):
            if i:
                args.append(",")
            args += gen_expr(rng, d - 1)
        return [rng.choice(["foo", "bar", "string_repr", "Some", "dbg"]), "("] + args + [")"]
    if k < 0.75:
        items = []
        for i in range(rng.randint(0, 3)):
            if i:
                items.append(",")
            items += gen_expr(rng, d - 1)
        return ["["] + items + ["]"]
    if k < 0.82:
        return ["("] + gen_expr(rng, d - 1) + [")"]
    if k < 0.88:
        return gen_expr(rng, d - 1) + [".", rng.choice(["len", "append", "x", "0"]), "("] + gen_expr(rng, d - 1) + [")"]
    if k < 0.93:
        return ["fun", "(", "x", ")", "{"] + gen_expr(rng, d - 1) + ["}"]
    if k < 0.97:
        return ["(", ] + gen_expr(rng, d - 1) + [","] + gen_expr(rng, d - 1) + [")"]
    return ["Foo", "{", "x", ":"] + gen_expr(rng, d - 1) + ["}"]


def gen_block(rng, d):
    out = ["{"]
    for _ in range(rng.randint(0, 2)):
        out += gen_stmt(rng, d - 1)
    return out + ["}"]


def gen_stmt(rng, d):
    k = rng.random()
    if k < 0.25:
        hint = [":", rng.choice(["Int", "String", "List", "Foo"])] if rng.random() < 0.3 else []
        return ["let", rng.choice(IDENTS)] + hint + ["="] + gen_expr(rng, d)
    if k < 0.40:
        return gen_expr(rng, d)
    if k < 0.50:
        return ["if"] + gen_expr(rng, d - 1) + gen_block(rng, d) + (["else"] + gen_block(rng, d) if rng.random() < 0.5 else [])
    if k < 0.57:
        return ["while"] + gen_expr(rng, d - 1) + gen_block(rng, d)
    if k < 0.67:
        ret = [":", "Int"] if rng.random() < 0.5 else []
        return ["fun", rng.choice(["f", "g", "main"]), "(", "x", ":", "Int", ")"] + ret + gen_block(rng, d)
    if k < 0.72:
        return ["return"] + gen_expr(rng, d - 1)
    if k < 0.80:
        return [rng.choice(IDENTS), rng.choice(["=", "+=", "-="])] + gen_expr(rng, d - 1)
    if k < 0.84:
        return ["test", "t", "{", "assert", "("] + gen_expr(rng, d - 1) + [")", "}"]
    if k < 0.88:
        return ["struct", "Foo", "{", "x", ":", "Int", ",", "}"]
    if k < 0.93:
        return ["match"] + gen_expr(rng, d - 1) + ["{", "Some", "(", "x", ")", "=>"] + gen_expr(rng, d - 1) + [
            ",", "None", "=>"] + gen_expr(rng, d - 1) + [",", "}"]
    if k < 0.97:
        return ["for", "x", "in"] + gen_expr(rng, d - 1) + gen_block(rng, d)
    return [rng.choice(["break", "continue", "import", "enum", "method", "external", "public"])]


def gen_program_tokens(rng):
    toks = []
    for _ in range(rng.randint(1, 4)):
        if rng.random() < 0.2:
            toks.append(gen_comment(rng))
        toks += gen_stmt(rng, rng.randint(1, 3))
    if rng.random() < 0.1:
        toks.append(gen_comment(rng).rstrip("\n") if rng.random() < 0.5 else gen_comment(rng))
    return toks


def join_tokens(rng, toks, loose=0.1):
    out = []
    if rng.random() < 0.05:
        out.append(rng.choice(["#!/usr/bin/env garden\n", "#!x", "#\n", "# é\n"]))
    for t in toks:
        out.append(t)
        k = rng.random()
        if t.endswith("\n"):
            out.append(rng.choice(["", "", "  "]))
        elif k < loose:
            out.append("")
        elif k < loose + 0.12:
            out.append("\n" + rng.choice(["", "  ", "\t"]))
        elif k < loose + 0.15:
            out.append(" " + gen_comment(rng))
        elif k < loose + 0.17:
            out.append(rng.choice(["  ", "\t", "\r\n", " \n\n"]))
        else:
            out.append(" ")
    return "".join(out)


def mutate_tokens(rng, toks):
    toks = list(toks)
    for _ in range(rng.randint(1, 3)):
        if not toks:
            toks = [rng.choice(IDENTS)]
        i = rng.randrange(len(toks))
        k = rng.random()
        if k < 0.2:
            del toks[i]
        elif k < 0.35:
            toks.insert(i, toks[i])
        elif k < 0.5:
            j = rng.randrange(len(toks))
            toks[i], toks[j] = toks[j], toks[i]
        elif k < 0.62:
            toks[i] = rng.choice(KEYWORDS)
        elif k < 0.74:
            toks[i] = rng.choice(OPS1 + OPS2)
        elif k < 0.82:
            toks.insert(i, rng.choice(["(", ")", "{", "}", "[", "]", ",", "\"", "=>"]))
        elif k < 0.9:
            toks[i] = rng.choice(INTS + FLOATS + [gen_string(rng)])
        else:
            toks = toks[:i]
    return toks


def mutate_chars(rng, src):
    s = list(src)
    for _ in range(rng.randint(1, 3)):
        i = rng.randrange(len(s) + 1)
        k = rng.random()
        c = rng.choice(SPECIAL_CHARS)
        if k < 0.45:
            s.insert(i, c)
        elif k < 0.7 and i < len(s):
            s[i] = c
        elif k < 0.85 and i < len(s):
            del s[i]
        elif k < 0.92:
            s = s[:i]
        else:
            s = list(c) + s
    return "".join(s)


POS_TEMPLATES = [
    "let s = \"a\nb\"\nlet t = s",
    "let x = \"é\n€\n😀\" x",
    "// é comment\nlet y = \"multi\n\nline\" + \"é\"\nfoo(y)",
    "fun f(x: Int): Int {\n  \"doc\nstring é\"\n  x + 1\n}\n",
    "[\"a\\\\\", \"b\"]",
    "\"a\nb\" \"c\nd\" e",
    "\"unclosed é\nnext line",
    "x + y　// tail é",
    "let é = 1",
    "\"\\\"\n\\\\\"",
]


def gen_sources(rng, n_prog, n_tokmut, n_charmut, small_len, n_trunc=0):
    """-> list of (kind, src)"""
    res = [("template", t) for t in POS_TEMPLATES]
    res += [("edge", s) for s in ["", " ", "\n", "#", "#!", "#!\n", "\"", "\\", "//", "/", "é", " ", "-", "-.", "1.", "1._",
                                   "-1", "- 1", "1-1", "1.5.2", "1__2", "_1", "a//b", "\"\\", "\"\\\"", "\"\\\\\"", "\"a\\\\\", \"b\"",
                                   "\"\n", "\"a\nb", "\"a\nb\"", "//\n//", "// c", "=>=", "::::", "&&&", "|||", "+.5", "**=", "#x\ny",
                                   "x #y", "let (a", "let (a,", "fun f() { let (x", "Foo{x: 1,", "Foo{ x: 1", "fun f<T,", "let x: List<Int,",
                                   "else{", "else{}", "(,", "(\"\",", "struct{(", "fun broken(", "match x {", "[1,", "foo(", "x.", "if", "﻿x", "\r", "a\rb", "\"\r\n\"", "😀", "a😀b", "\"😀\"", "//😀\n😀"]]
    progs = []
    for _ in range(n_prog):
        toks = gen_program_tokens(rng)
        progs.append(toks)
        res.append(("program", join_tokens(rng, toks, loose=0.03)))
    for _ in range(n_tokmut):
        toks = mutate_tokens(rng, rng.choice(progs))
        res.append(("token-mutation", join_tokens(rng, toks, loose=0.15)))
    # unterminated constructs: programs cut off at a token boundary (with and without a trailing space)
    for _ in range(n_trunc):
        toks = rng.choice(progs)
        k = rng.randint(1, len(toks))
        res.append(("truncation", join_tokens(rng, toks[:k], loose=0.3).rstrip(" ") + rng.choice(["", "", " ", "\n"])))
    base = [s for (_, s) in res if s]
    for _ in range(n_charmut):
        res.append(("char-mutation", mutate_chars(rng, rng.choice(base))))
    for n in range(1, small_len + 1):
        for tup in itertools.product(SMALL_ALPHABET, repeat=n):
            res.append(("small", "".join(tup)))
    # JSON / UTF-8 transport: drop anything that is not encodable
    out = []
    for k, s in res:
        try:
            s.encode("utf-8")
        except UnicodeEncodeError:
            continue
        out.append((k, s))
    return out


def budgets(ctx):
    if ctx.thorough:
        return dict(n_prog=6000, n_tokmut=12000, n_charmut=20000, small_len=4, n_trunc=15000)
    return dict(n_prog=500, n_tokmut=900, n_charmut=1600, small_len=3, n_trunc=1500)


# ---------------------------------------------------------------------------
# correspondence: extracted model of lex  vs  hook op lex

def lex_correspondence(ctx, exe, mdl, sources, label="lex"):
    """Runs both sides; records mismatches as a broken tie. Returns (impl canonical lines, model lines)."""
    srcs = [s for (_, s) in sources]
    ctx.log("lexing %d sources with the implementation hook" % len(srcs))
    resp = oracle.batch(exe, [{"op": "lex", "src": s} for s in srcs])
    impl = [canon_hook(r) for r in resp]
    model = None
    if mdl:
        ctx.log("lexing %d sources with the extracted model" % len(srcs))
        rc, model, err = common.run_lines(mdl, [], ["lex\t" + hx(s) for s in srcs], shards=common.NCPU)
    bad = []
    for i, (kind, s) in enumerate(sources):
        ctx.stat("%s src %s" % (label, kind))
        if model is not None and (i >= len(model) or model[i] != impl[i]):
            ctx.stat(label + " correspondence_mismatch")
            if len(bad) < 8:
                bad.append({"src": s, "impl": impl[i][:300], "model": (model[i] if i < len(model) else "<missing>")[:300]})
    if bad:
        ctx.cov.setdefault("corr", [])
        ctx.cov["corr"] += bad
        ctx.broken("correspondence:lex", "extracted lexer model and lex.rs differ on %d of %d sources, e.g. %s"
                   % (ctx.stats[label + " correspondence_mismatch"], len(srcs), json.dumps(bad[:2], ensure_ascii=False)))
    return impl, model


def nontrivial_source(s, canon):
    return bool(s) and (not s.isascii() or "|E=" not in canon or not canon.endswith("|E=") or "\n" in s or "\"" in s)


# ---------------------------------------------------------------------------
# crash search on the real front end

def no_answer(r):
    return bool(r.get("missing")) or "bad_response" in r


def batch_all(exe, reqs, timeout=600, single_timeout=20):
    """oracle.batch, but a request that kills the process (stack overflow, abort: not catchable by catch_unwind) or
    never returns only costs its own answer: unanswered requests are re-run one process each with a short timeout;
    the ones that still get no answer are returned as {"died": <stderr tail or "timeout">}."""
    res = oracle.batch(exe, reqs, timeout=timeout)
    pending = [i for i, r in enumerate(res) if no_answer(r)]
    if pending:
        import concurrent.futures

        def one(i):
            rc, out, err = common.run_lines(exe, ["verif-batch"], [json.dumps(reqs[i])], timeout=single_timeout, shards=1)
            if rc == 124:
                return {"died": "timeout: no answer within %d s (hang)" % single_timeout}
            try:
                return json.loads(out[0])
            except Exception:
                return {"died": (err[-300:].strip() or "exit status %s" % rc)}
        with concurrent.futures.ThreadPoolExecutor(common.NCPU) as ex:
            for i, r in zip(pending, ex.map(one, pending)):
                res[i] = r
    return res


def crashed(r):
    return "panic" in r or "died" in r or no_answer(r)


PANIC_RE = re.compile(r"panicked at ([^\n]*)")


def diagnostic_layouts(rng, n):
    """Inputs for the TEXT renderer of diagnostics (garden check / run / reftest-ast print the offending line, carets and
    neighbouring lines): an error or warning at a random column, with non-ASCII text of random width before it on the
    line, on the line before and on the line after (character count, byte length and display width all differ)."""
    wide = ["é", "я", "€", "語", "\U0001F600", "ß", "\u0301a"]
    errs = ["let x = nosuch%d + 1", "let y: Int = \"s%d\"", "let z%d = 1 +", "foo(%d, )(", "let unused%d = 1", "if %d { 1 } else { \"a\" }",
            "match Some(%d) { Some(v) => v }", "println(%d + \"a\")", "\"unterminated %d"]
    out = []
    for i in range(n):
        def pad(k):
            return "".join(rng.choice(wide) for _ in range(k))
        col = rng.randrange(0, 40)
        lead = rng.choice(["", "    ", "let p%d = \"%s\" " % (i, pad(rng.randrange(1, 12)))])
        line = " " * col + lead + (rng.choice(errs) % i)
        before = rng.choice(["", "// " + pad(rng.randrange(0, 30)), "let b%d = \"%s\"" % (i, pad(rng.randrange(0, 20)))])
        after = rng.choice(["", "// " + pad(rng.randrange(0, 40)), "let a%d = \"%s\"" % (i, pad(rng.randrange(0, 25))), pad(rng.randrange(1, 30))])
        out.append("\n".join((before, line, after)) + rng.choice(["", "\n"]))
    return out


def cli_crash(exe, src, cmds=("check", "format", "reftest-ast", "run"), timeout=20):
    """Run the CLI front-end commands on src (written to a temp file). -> (cmd, location) of the first crash or None."""
    d = tempfile.mkdtemp(dir=oracle.scratch_dir())
    try:
        p = os.path.join(d, "input.gdn")
        with open(p, "wb") as f:
            f.write(src.encode("utf-8"))
        for c in cmds:
            rc, out, err = oracle.garden_cli(exe, [c, p], timeout=timeout, cwd=d, stdin="")
            if rc == 124 and c != "run":
                # a slow machine is not a hang: confirm once with a much longer limit
                rc, out, err = oracle.garden_cli(exe, [c, p], timeout=3 * timeout, cwd=d, stdin="")
                if rc == 124:
                    return c, "timeout: `garden %s` did not finish within %d s (hang)" % (c, 3 * timeout)
            if rc == 101 or "panicked at" in err or rc < 0 or rc in (134, 139) or "has overflowed its stack" in err:
                m = PANIC_RE.search(err)
                return c, (m.group(1) if m else "stack overflow" if "overflowed its stack" in err else "exit status %d" % rc)
    finally:
        shutil.rmtree(d, ignore_errors=True)
    return None


def ddmin(src, still_fails, max_tests=400):
    """Delta debugging over characters."""
    s = list(src)
    n = 2
    tests = 0
    while len(s) >= 2 and tests < max_tests:
        chunk = max(1, len(s) // n)
        reduced = False
        for i in range(0, len(s), chunk):
            cand = s[:i] + s[i + chunk:]
            tests += 1
            if cand and still_fails("".join(cand)):
                s = cand
                n = max(n - 1, 2)
                reduced = True
                break
            if tests >= max_tests:
                break
        if not reduced:
            if chunk == 1:
                break
            n = min(len(s), n * 2)
    return "".join(s)


def crash_class(loc):
    """Stable name of a crash site: file:line without the column."""
    if loc.strip().startswith("timeout"):
        return "hang"
    m = re.match(r"([^:\s]+):(\d+)", loc.strip())
    return "%s:%s" % (m.group(1), m.group(2)) if m else re.sub(r"\s+", "_", loc.strip())[:60]


def report_crash(ctx, exe, src, how, loc):
    if "timeout" in loc and how == "hook:sexp":
        # a slow machine is not a hang: confirm with a much longer limit before anything is reported
        r = batch_all(exe, [{"op": "sexp", "src": src}], timeout=60, single_timeout=60)[0]
        if not crashed(r):
            ctx.stat("slow answer taken for a hang at first (machine load), not a finding")
            return
    def fails_hook(s):
        return crashed(batch_all(exe, [{"op": "sexp", "src": s}], timeout=10)[0])

    def fails_cli(s):
        return cli_crash(exe, s, cmds=(how,)) is not None
    if "timeout" in loc:
        # shrinking a hang costs one full timeout per test: only in the thorough tier, with short limits
        def hangs(s):
            return cli_crash(exe, s, cmds=("check",), timeout=3) is not None
        small = ddmin(src, hangs, max_tests=40) if ctx.thorough else src
    else:
        small = ddmin(src, fails_hook if how == "hook:sexp" else fails_cli, max_tests=250 if how == "hook:sexp" else 60)
    cli = cli_crash(exe, small)
    if cli:
        cmd, loc2 = cli
        ctx.violation("C01:%s:%s" % ("hang" if crash_class(loc2) == "hang" else "crash", cmd if crash_class(loc2) == "hang" else crash_class(loc2)),
                      "`garden %s` crashes or hangs (%s) on %r" % (cmd, loc2, small),
                      {"input": small, "shrunk_from": src, "observed": "panicked at " + loc2, "expected": "diagnostics, exit status != 101",
                       "cli_command": "garden %s <file containing input>" % cmd})
    else:
        ctx.violation("C01:%s-in-process:%s" % ("hang" if "timeout" in loc else "crash", crash_class(loc)),
                      "lex+parse panics / dies / hangs in-process (%s) on %r; the CLI commands did not reproduce it" % (loc, small),
                      {"input": small, "shrunk_from": src, "observed": "panic " + loc, "expected": "no panic",
                       "cli_command": "echo '{\"op\":\"sexp\",\"src\":...}' | garden verif-batch"})


def run(ctx):
    ctx.trusted = TRUSTED
    ctx.coq("Properties/C01.v")
    exe = ctx.impl()
    mdl = ctx.model()
    if not exe:
        return
    rng = ctx.rng
    sources = gen_sources(rng, **budgets(ctx))
    impl, model = lex_correspondence(ctx, exe, mdl, sources)
    for (kind, s), c in zip(sources, impl):
        ctx.case({"src": s, "lex": c[:120]}, nontrivial_source(s, c))
        ctx.stat("lex outcome " + c.split("|")[0].split(":")[0])

    # ---- crash search: lexer (hook op lex) -----------------------------------
    seen = set()
    for (kind, s), c in zip(sources, impl):
        if c == "panic" or c.startswith("bad:"):
            r = oracle.batch(exe, [{"op": "lex", "src": s}], shards=1)[0]
            loc = r.get("panic", str(r))[:200]
            key = crash_class(loc) if "lex.rs" in loc else loc[:40]
            if key in seen:
                continue
            seen.add(key)
            report_crash(ctx, exe, s, "hook:sexp", loc)

    # ---- crash search: lex + parse in-process ----------------------------------
    srcs = [s for (_, s) in sources]
    ctx.log("parsing %d sources in-process (hook op sexp)" % len(srcs))
    pr = batch_all(exe, [{"op": "sexp", "src": s} for s in srcs])
    for s, r in zip(srcs, pr):
        ctx.stat("parse " + ("panic" if "panic" in r else "process died" if crashed(r) else "ok"))
        if crashed(r):
            loc = str(r.get("panic", r.get("died", r)))[:200]
            key = "p:" + ("died" if "died" in r else loc[:60])
            if key in seen or len(seen) > 12:
                continue
            seen.add(key)
            report_crash(ctx, exe, s, "hook:sexp", loc)

    # ---- crash search: the plain CLI on a sample ------------------------------------
    by_kind = {}
    for k, s in sources:
        by_kind.setdefault(k, []).append(s)
    sample = []
    per = 400 if ctx.thorough else 30
    for k in sorted(by_kind):
        pool = by_kind[k]
        sample += pool if len(pool) <= per else rng.sample(pool, per)
    sample += diagnostic_layouts(rng, 400 if ctx.thorough else 90)
    ctx.log("running garden check/format/reftest-ast/run on %d sources" % len(sample))
    import concurrent.futures
    with concurrent.futures.ThreadPoolExecutor(common.NCPU) as ex:
        results = list(ex.map(lambda s: cli_crash(exe, s), sample))
    for s, r in zip(sample, results):
        ctx.stat("cli " + ("crash" if r else "ok"))
        ctx.case({"cli": s}, bool(s.strip()))
        if r:
            cmd, loc = r
            key = "c:" + crash_class(loc)
            if key in seen or len(seen) > 16:
                continue
            seen.add(key)
            report_crash(ctx, exe, s, cmd, loc)
    ctx.notes.append("parser / checker / formatter / main.rs: search only (no theorem); lexer: lex_total proved over the model")


def replay(ctx, rp):
    exe = ctx.impl()
    r = cli_crash(exe, rp["input"])
    print("input:", repr(rp["input"]))
    print("observed now:", ("crash in `garden %s` at %s" % r) if r else "no crash", "| recorded:", rp.get("observed"))
    return 1 if r else 0
