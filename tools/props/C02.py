"""C02 -- Evaluation ends in a value or a Garden error, never a crash (built-in argument part)."""
import concurrent.futures
import itertools
import json
import os
import re
import shutil
import subprocess
import sys
import tempfile

from vplib import common, oracle

LEVEL = "proof"
RULE = ("Coq: Properties/C02.v over gen/Builtins.v (arity literal and every arg_values[i]/arg_positions[i] of every arm "
        "of eval_built_in_call / eval_built_in_method_call, regenerated from eval.rs on every run). Dynamic: on the real "
        "binary (JSON session, one temp working directory per session, stdin closed) every built-in function and method "
        "x every arity 0..n+1 x arguments drawn from one representative per value kind (Int, Float, String, Bool, Unit, "
        "List, empty List, heterogeneous List (literal / appended), Tuple, Dict, closure, built-in function value, Option, Result, user struct, user enum value, "
        "Path, namespace) plus the i64 extremes -- the full product at the declared arity, a 3-kind sample per position "
        "at the other arities; methods on receivers of every kind, on several receivers of the right type, and on user "
        "structs / enums NAMED like the built-in type (which reach the built-in arm with a wrong receiver). A case fails "
        "when the interpreter panics, dies or hangs. Non-trivial = the call reaches the built-in's arm (right receiver "
        "type name for methods).")
META = {
    "technique": "Coq proof over a translator-generated table of every built-in arm (index < checked arity) + exhaustive "
                 "per-built-in argument exploration on the real binary",
    "level_text": ("PARTIAL (built-in argument part of C02). Coq theorems builtin_index_guard / "
                   "builtin_literal_index_in_bounds: in the CURRENT source every arm of eval_built_in_call and "
                   "eval_built_in_method_call (table exhaustive over both enums) calls check_arity(.., N, ..)? as a "
                   "top-level statement before any arg_values[i] / arg_positions[i], every such index is a literal "
                   "i < N, and the model of check_arity (body shape re-checked by the translator) never indexes out of "
                   "bounds and guarantees both vectors have length N afterwards; the checked arity equals the declared "
                   "parameter count. The arithmetic part of C02 is C04's int_binop_no_panic / assign_update_no_panic; "
                   "the machine-level part (value-stack discipline, break/continue in expression position, :skip) and "
                   "deeply nested values are NOT proved here: search only." " Machine-level part: theorems machine_step_never_crashes_partial / machine_run_never_crashes_partial (Discipline.v, on the evaluator model Machine.v, tied to eval.rs by differential execution): for well-formed programs of the fragment Session.wf = the modelled core language without for/break/continue/closure literals (match and return, also in operand position, are included since Session.wf was widened), from ANY state satisfying the discipline no step of the eval loop panics (value-stack and binding-block discipline). For the rest (for, break/continue as statements, closures) there is machine_run_never_crashes_when_ref_terminates_partial (from the C05 refinement): on every program of Refine.in_fragment on which the reference semantics terminates (value or runtime error) the run from the initial state never crashes whatever the fuel; not covered by proof: diverging runs of programs with for/break/continue/closures, and break/continue in operand position (known finding C05:break-continue-in-operand-position)."),
    "level_note": ("Trusted: Coq kernel; tools/gen_builtins.py (textual arm analysis, dominance = textual order of "
                   "top-level statements); the check_arity model in coq/Sandbox.v. Not covered by the theorem: panics "
                   "inside an arm that are not argument-vector indexing (unwrap/expect, arithmetic, slicing, "
                   "debug_assert in callees) -- these are what the dynamic exploration looks for; it found the "
                   "check_snippet relative-path assertion. Effectful built-ins are only exercised with harmless "
                   "arguments inside a temp directory (shell::run only with `true`)."),
    "design_ref": "DESIGN.md §5 C02",
}

MAX, MIN = 2 ** 63 - 1, -2 ** 63

SETUP = [
    'import "__fs.gdn" as fs', 'import "__shell.gdn" as shell', 'import "__reflect.gdn" as reflect',
    'import "__random.gdn" as random', 'import "__time.gdn" as time',
    "struct Pt { x: Int }", "enum Color { Red, Green(Int) }",
]

# one representative per value kind: (kind label, source text)
POOL = [
    ("Int", "1"), ("Float", "1.5"), ("String", '"abc"'), ("Bool", "True"), ("Unit", "Unit"),
    ("List", "[1, 2]"), ("EmptyList", "[]"), ("StringList", '["a", "b"]'), ("Tuple", '(1, "a")'),
    ("Dict", 'Dict["k" => 1]'), ("EmptyDict", "Dict[]"), ("Closure", "fun(x) { x }"), ("BuiltinFun", "println"),
    ("Some", "Some(1)"), ("None", "None"), ("Ok", "Ok(1)"), ("Struct", "Pt{ x: 1 }"),
    ("EnumValue", "Red"), ("EnumPayload", "Green(2)"), ("Path", 'Path{ p: "c02_scratch.txt" }'),
    ("Namespace", "reflect"),
    ("IntMax", str(MAX)), ("IntMin", str(MIN)), ("IntNeg", "-1"), ("IntZero", "0"), ("EmptyString", '""'),
    ("NonAscii", '"hé\U0001F600"'),
    # containers whose recorded element type is not an invariant of their contents (a list literal records the type of
    # its last element, append records the type of the appended value): built-ins that trust the recorded type
    ("MixedListStrLast", '[1, "a"]'), ("MixedListIntLast", '["a", 1]'), ("AppendedMixed", '[1, 2].append("x")'),
    ("MixedDict", 'Dict["k" => 1, "j" => "s"]'),
]
SAMPLE = [("Int", "1"), ("String", '"abc"'), ("Path", 'Path{ p: "c02_scratch.txt" }')]

NS_ALIAS = {"__fs.gdn": "fs", "__shell.gdn": "shell", "__reflect.gdn": "reflect", "__random.gdn": "random",
            "__time.gdn": "time", "__prelude.gdn": None}

RIGHT_RECEIVERS = {
    "Dict": ['Dict["k" => 1]', 'Dict["a" => "x", "b" => "y"]', "Dict[]"],
    "Float": ["1.5", "-0.5", "123456789012345678901234567890.0"],
    "Int": ["1", str(MAX), str(MIN)],
    "List": ["[1, 2]", "[]", '["a", "b"]'],
    "Path": ['Path{ p: "c02_scratch.txt" }', 'Path{ p: "" }'],
    "String": ['"abc"', '""', '"hé\U0001F600"'],
}


def load_table(ctx):
    d = tempfile.mkdtemp(dir=oracle.scratch_dir())
    try:
        jf = os.path.join(d, "table.json")
        rc, out, err = common.sh([sys.executable, os.path.join(common.VERIF, "tools", "gen_builtins.py"),
                                  "--repo", common.REPO, "--out", d, "--json", jf], timeout=120)
        if rc != 0:
            ctx.broken("translator:gen_builtins", (out + err)[-1500:])
            return None
        return json.load(open(jf))
    finally:
        shutil.rmtree(d, ignore_errors=True)


def safe_arg(variant, pos, kind, text):
    """Never start arbitrary processes: shell::run's command is always `true`."""
    if variant == "ShellRun" and pos == 0 and kind in ("String", "EmptyString", "NonAscii"):
        return '"true"'
    return text


def fun_calls(row):
    """[(src, arg kinds, at_declared_arity)] for one built-in function."""
    alias = NS_ALIAS.get(row["ns"])
    fn = row["name"] if alias is None else "%s::%s" % (alias, row["name"])
    n = row["arity"] if row["arity"] is not None else (row.get("decl_params") or 0)
    res = []
    for k in range(0, n + 2):
        pool = POOL if k == n else SAMPLE
        for combo in itertools.product(pool, repeat=k):
            args = [safe_arg(row["variant"], i, c[0], c[1]) for i, c in enumerate(combo)]
            res.append(("%s(%s)" % (fn, ", ".join(args)), [c[0] for c in combo], k == n))
    return res


def method_calls(row):
    """[(setup_extra, src, receiver kind, arg kinds, reaches_arm)]"""
    ty, name = row["type"], row["name"]
    n = row["arity"] if row["arity"] is not None else (row.get("decl_params") or 0)
    res = []

    def with_args(setup, recv, rlabel, reaches, full):
        for k in range(0, n + 2):
            pool = POOL if (k == n and full) else SAMPLE
            for combo in itertools.product(pool, repeat=k):
                res.append((setup, "(%s).%s(%s)" % (recv, name, ", ".join(c[1] for c in combo)), rlabel,
                            [c[0] for c in combo], reaches))
    for r in RIGHT_RECEIVERS.get(ty, []):
        with_args((), r, "right:" + ty, True, r == RIGHT_RECEIVERS[ty][0])
    # user types NAMED like the built-in type: the method table is keyed by type name
    with_args(("struct %s { zz: Int }" % ty,), "%s{ zz: 1 }" % ty, "struct-named-" + ty, True, True)
    with_args(("enum %s { Mk%s, Mk%sWith(Int) }" % (ty, ty, ty),), "Mk%s" % ty, "enum-named-" + ty, True, False)
    # receivers of every other kind (normally stopped by method lookup)
    for kind, text in POOL:
        with_args((), text, "other:" + kind, False, False)
    return res


def eval_in_tempdirs(exe, srcs, setup, timeout=300, chunk=250):
    """Like oracle.eval_stateless, but every session runs in its own temp working directory with
    stdin closed (so file-system built-ins stay inside it and read_line cannot block)."""
    idx = list(range(len(srcs)))
    chunks = [idx[i:i + chunk] for i in range(0, len(idx), chunk)]
    results = [None] * len(srcs)

    def session(reqs, cwd):
        with tempfile.NamedTemporaryFile("w", suffix=".jsonl", dir=cwd, delete=False) as f:
            for r in reqs:
                f.write(json.dumps(r) + "\n")
            path = f.name
        env = dict(os.environ)
        env["RUST_BACKTRACE"] = "0"
        try:
            p = subprocess.run([exe, "reftest-json-session", path], stdin=subprocess.DEVNULL, capture_output=True,
                               timeout=timeout, cwd=cwd, env=env)
            return p.returncode, p.stdout.decode("utf-8", "replace"), p.stderr.decode("utf-8", "replace")
        except subprocess.TimeoutExpired as e:
            return 124, (e.stdout or b"").decode("utf-8", "replace"), (e.stderr or b"").decode("utf-8", "replace")

    def work(ids):
        todo = list(ids)
        while todo:
            cwd = tempfile.mkdtemp(prefix="c02-", dir=oracle.scratch_dir())
            try:
                open(os.path.join(cwd, "c02_scratch.txt"), "w").write("scratch\n")
                reqs = [{"method": "run", "input": s} for s in setup] + [{"method": "run", "input": srcs[i]} for i in todo]
                rc, out, err = session(reqs, cwd)
            finally:
                shutil.rmtree(cwd, ignore_errors=True)
            g = oracle.group_responses(oracle.parse_json_stream(out))
            g = g[len(setup):] if len(g) >= len(setup) else []
            for j, (r, so, se) in enumerate(g[:len(todo)]):
                c = oracle.classify(r)
                results[todo[j]] = c
            done = min(len(g), len(todo))
            if done < len(todo):
                m = re.search(r"panicked at ([^\n]*)\n([^\n]*)", err)
                results[todo[done]] = {"kind": "timeout" if rc == 124 else "panic", "rc": rc,
                                       "stderr": (m.group(0) if m else err[-400:])}
                todo = todo[done + 1:]
            else:
                todo = []

    with concurrent.futures.ThreadPoolExecutor(common.NCPU) as ex:
        list(ex.map(work, chunks))
    return results


def panic_class(stderr):
    m = re.search(r"panicked at ([^\n:]*):\d+:\d+:\n([^\n]*)", stderr or "")
    if not m:
        return "died"
    msg = re.sub(r"\d+", "N", m.group(2))
    msg = re.sub(r"[^A-Za-z0-9 ]+", " ", msg).strip().replace(" ", "-")[:60]
    return "%s:%s" % (os.path.basename(m.group(1)), msg)


def run(ctx):
    ctx.trusted = [
        "Coq 8.16.1 kernel (coqc); vm_compute over the finite generated table",
        "tools/gen_builtins.py translator (arity literal, literal index uses and their textual order per arm; "
        "shape of check_arity and of the argument-vector loops of eval_call / eval_method_call)",
        "coq/Sandbox.v model of check_arity",
        "garden reftest-json-session as the oracle of the implementation (debug build)",
    ]
    ctx.coq("Properties/C02.v")
    exe = ctx.impl()
    if not exe:
        return
    table = load_table(ctx)
    if table is None:
        return

    # ---- the value pool must be made of values (a typo here would silently turn cases into parse errors)
    pool_srcs = ["(%s)" % t for _, t in POOL] + ["(%s)" % r for rs in RIGHT_RECEIVERS.values() for r in rs]
    pres = eval_in_tempdirs(exe, pool_srcs, SETUP)
    bad_pool = [s for s, r in zip(pool_srcs, pres) if r is None or r["kind"] != "ok"]
    if bad_pool:
        ctx.broken("search:value-pool", "these pool expressions do not evaluate to a value: %s" % bad_pool[:5])

    # ---- functions -------------------------------------------------------
    fcases = []
    for row in table["functions"]:
        for src, kinds, at_arity in fun_calls(row):
            fcases.append((row["variant"], src, kinds, at_arity))
    ctx.log("evaluating %d built-in function calls on the implementation" % len(fcases))
    fres = eval_in_tempdirs(exe, [c[1] for c in fcases], SETUP)
    for (variant, src, kinds, at_arity), r in zip(fcases, fres):
        ctx.case({"call": src}, nontrivial=True)
        ctx.stat("function arity-%s" % ("declared" if at_arity else "other"))
        judge(ctx, variant, src, SETUP, r)

    # ---- methods ---------------------------------------------------------
    groups = {}
    for row in table["methods"]:
        for setup_extra, src, rlabel, kinds, reaches in method_calls(row):
            groups.setdefault(setup_extra, []).append((row["variant"], src, rlabel, reaches))
    total = sum(len(v) for v in groups.values())
    ctx.log("evaluating %d built-in method calls (%d session setups)" % (total, len(groups)))
    for setup_extra, cs in sorted(groups.items()):
        setup = SETUP + list(setup_extra)
        res = eval_in_tempdirs(exe, [c[1] for c in cs], setup)
        for (variant, src, rlabel, reaches), r in zip(cs, res):
            ctx.case({"call": src, "setup": list(setup_extra)}, nontrivial=reaches)
            ctx.stat("method receiver " + rlabel.split(":")[0].split("-named-")[0])
            judge(ctx, variant, src, setup, r)
    # ---- names that are not locals in binding positions ----------------------------------------------------------
    # every way of writing to / rebinding a name, applied to every kind of name that is not a local variable: a user
    # function, a built-in, a prelude enum variant and constructor, a type, a namespace alias, an undefined name, and a
    # local that has gone out of scope while a same-named definition exists
    names = [("user-function", "helper"), ("builtin", "println"), ("prelude-function", "max"), ("variant", "None"),
             ("constructor", "Some"), ("bool", "True"), ("type", "Pt"), ("user-variant", "Red"), ("namespace", "fs"), ("undefined", "nosuch9")]
    forms = [("assign", "%s = 2"), ("assign-in-fun", "fun w1() { %s = 2 }\nw1()"), ("update", "%s += 1"), ("update-sub", "%s -= 1"),
             ("assign-self", "%s = %s"), ("assign-in-loop", "for i9 in [1, 2] { %s = i9 }"),
             ("assign-after-shadow", "if True { let %s = 1 %s = 3 }\n%s = 4"),
             ("assign-in-closure", "let c9 = fun() { %s = 5 }\nc9()"), ("assign-in-match", "match Some(1) { Some(q9) => { %s = q9 } None => {} }"),
             ("let", "let %s = 1\n%s"), ("let-destructure", "let (%s, z9) = (1, 2)\n%s"), ("for-binder", "for %s in [1] { %s }"),
             ("match-binder", "match Some(1) { Some(%s) => %s, None => 0 }"), ("param", "fun w2(%s) { %s }\nw2(1)"),
             ("closure-param", "(fun(%s) { %s })(1)"), ("call", "%s()"), ("call-args", "%s(1, 2, 3)"), ("field", "%s.x"),
             ("method", "%s.len()"), ("namespace-access", "%s::x")]
    edge = [(nk, fk, tpl.replace("%s", nm)) for nk, nm in names for fk, tpl in forms]
    esetup = SETUP + ["fun helper() { 1 }"]
    eres = eval_in_tempdirs(exe, [e[2] for e in edge], esetup)
    for (nk, fk, src), r in zip(edge, eres):
        ctx.case({"program": src, "name_kind": nk, "form": fk}, nontrivial=nk != "undefined")
        ctx.stat("name edge " + fk)
        judge(ctx, "name-edge:%s:%s" % (fk, nk), src, esetup, r)
    ctx.notes.append("the machine-level part of C02 (value stack discipline) and the arithmetic part (C04) are not "
                     "exercised by this driver; deep value nesting under the sandbox limits is exercised by C25")


def judge(ctx, variant, src, setup, r):
    if r is None:
        ctx.stat("result missing")
        ctx.violation("C02:builtin-no-answer:" + variant, "`%s` got no answer from the session" % src,
                      {"input": src, "setup": list(setup), "observed": "no response"})
        return
    k = r["kind"]
    ctx.stat("outcome " + (k if k != "error" else "error:" + r.get("err_kind", "?")))
    if k in ("panic", "timeout"):
        cls = panic_class(r.get("stderr", "")) if k == "panic" else "hang"
        ctx.violation("C02:builtin-%s:%s:%s" % (k, variant, cls),
                      "`%s` made the interpreter %s: %s" % (src, "panic" if k == "panic" else "hang",
                                                            (r.get("stderr") or "").strip().replace("\n", " | ")[:300]),
                      {"input": src, "setup": list(setup), "observed": r.get("stderr", "")[:600],
                       "expected": "a value or a Garden error",
                       "cli_command": "garden reftest-json-session <file with one {\"method\":\"run\",\"input\":..} line "
                                      "per setup input, then the call>"})


def replay(ctx, rp):
    exe = ctx.impl()
    if not rp.get("input"):
        print("replay has no input (theorem / tie failure): re-run ./check C02")
        print(json.dumps(rp.get("no_longer_checks", rp), indent=1)[:3000])
        return 1
    r = eval_in_tempdirs(exe, [rp["input"]], rp.get("setup", SETUP))[0]
    print("setup:", rp.get("setup", SETUP))
    print("input:", rp["input"])
    print("observed now:", r)
    print("recorded:", rp.get("observed"))
    return 1 if (r is None or r["kind"] in ("panic", "timeout")) else 0
