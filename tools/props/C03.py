"""C03 -- Operator chains are left-associative with uniform precedence."""
import itertools
import re

from vplib import common, oracle

LEVEL = "proof"
RULE = ("Coq: Properties/C03.v over gen/ParserShape.v (operator table and shape of the infix arm of the expression loop, "
        "regenerated from parser.rs). Dynamic: (a) correspondence: the implementation's parser (hook op sexp) vs the extracted "
        "parser model on ALL chains of 2..3 operators (quick; 2..4 thorough) over the 21 operator tokens with literal/variable "
        "operands, plus random chains up to 40 operands with parenthesised sub-chains; (b) property on the implementation "
        "itself: the chain's tree must equal the tree of its fully parenthesised left nest with the parentheses nodes removed, "
        "and running a chain must print what its fully parenthesised form prints (integer / boolean / string operand pools "
        "chosen so that grouping is observable). Non-trivial = at least 3 operands (grouping matters).")
META = {
    "technique": "Coq proof (round trip of a parser model for operator chains, all lengths) over translator-generated loop shape + exhaustive differential parsing",
    "level_text": ("Coq theorems chain_left_assoc / paren_overrides / chain_eval: for chains of ANY length over ANY mix of the 21 "
                   "operators and any operands (literals, variables, parenthesised expressions) the expression loop of "
                   "parser.rs -- whose infix arm's shape and operator table are regenerated from the source on every run -- "
                   "builds the left nest ((x1 op1 x2) op2 x3)...; parentheses override it; evaluation is the left fold. "
                   "The model parser is also run against the real parser on all short chains."),
    "level_note": ("Trusted: Coq kernel; tools/gen_parser.py (recognises the infix arm: guard, right-operand call, tree "
                   "construction); the hand-written loop model ParseExpr.v (operands are literals, variables and parenthesised "
                   "expressions: calls, method chains, blocks etc. as operands are covered by the differential/search part "
                   "only); the lexer (tokens are abstract here; Lex.v covers it); extraction + OCaml glue; sexp hook."),
    "design_ref": "DESIGN.md section 5 C03",
}

OPS = ["+", "+.", "-", "-.", "*", "*.", "/", "/.", "%", "**", "==", "!=", "<", "<=", ">", ">=", "&&", "||", "&", "|", "^"]


def strip_parens(s):
    """Remove `(paren X)` wrappers from a hook S-expression."""
    prev = None
    while prev != s:
        prev = s
        s = re.sub(r"\(paren (\((?:[^()]|\([^()]*\))*\))\)", r"\1", s)
    # general (nested) removal
    out, i = [], 0
    while True:
        j = s.find("(paren ", i)
        if j < 0:
            out.append(s[i:])
            break
        out.append(s[i:j])
        depth, k = 0, j + 7
        start = k
        while True:
            if s[k] == "(":
                depth += 1
            elif s[k] == ")":
                if depth == 0:
                    break
                depth -= 1
            elif s[k] == '"':
                k += 1
                while s[k] != '"':
                    if s[k] == "\\":
                        k += 1
                    k += 1
            k += 1
        out.append(strip_parens(s[start:k]))
        i = k + 1
    return "".join(out)


def left_paren(operands, ops):
    s = operands[0]
    for o, x in zip(ops, operands[1:]):
        s = "(%s %s %s)" % (s, o, x)
    return s


def run(ctx):
    ctx.trusted = ["Coq 8.16.1 kernel; vm_compute for the table facts and examples", "tools/gen_parser.py",
                   "coq/ParseExpr.v (hand-written model of the expression loop; operands abstracted to literal/variable/paren)",
                   "extraction + ocaml/ops_parseexpr.ml", "hook op sexp (the implementation's own parser)"]
    ctx.coq("Properties/C03.v")
    exe = ctx.impl()
    mdl = ctx.model("parseexpr")
    if not exe:
        return
    rng = ctx.rng
    # ---- (a) correspondence on all short chains
    atoms = ["1", "x", "2", "y"]
    chains = []
    maxn = 4 if ctx.thorough else 3
    for n in range(1, maxn + 1):
        if n <= 2 or ctx.thorough or n == 3:
            combos = itertools.product(OPS, repeat=n)
            if n == 3 and not ctx.thorough:
                combos = rng.sample(list(combos), 3000)
            if n == 4:
                combos = rng.sample(list(combos), 40000)
            for ops in combos:
                operands = [atoms[i % len(atoms)] for i in range(n + 1)]
                chains.append((operands, list(ops)))
    for _ in range(400 if ctx.thorough else 120):
        n = rng.randrange(3, 40)
        ops = [rng.choice(OPS) for _ in range(n)]
        operands = []
        for _ in range(n + 1):
            k = rng.random()
            if k < 0.25:
                m = rng.randrange(1, 4)
                operands.append("(" + " ".join(
                    [rng.choice(atoms)] + [rng.choice(OPS) + " " + rng.choice(atoms) for _ in range(m)]) + ")")
            else:
                operands.append(rng.choice(atoms + ["10", "-3"]))
        chains.append((operands, ops))
    srcs = []
    toks = []
    for operands, ops in chains:
        parts = [operands[0]]
        for o, x in zip(ops, operands[1:]):
            parts += [o, x]
        src = " ".join(parts)
        srcs.append(src)

        def tk(w):
            if w in ("(", ")"):
                return w
            if re.fullmatch(r"-?\d+", w):
                return "i" + w
            if w == "x":
                return "v1"
            if w == "y":
                return "v2"
            return w
        toks.append(" ".join(tk(w) for w in src.replace("(", " ( ").replace(")", " ) ").split()))
    ctx.log("parsing %d chains" % len(srcs))
    impl = oracle.batch(exe, [{"op": "sexp", "src": s} for s in srcs])
    paren = oracle.batch(exe, [{"op": "sexp", "src": left_paren(o, p)} for o, p in chains])
    model = None
    if mdl:
        rc, model, err = common.run_lines(mdl, [], ["parsechain\tcur\t" + t for t in toks], shards=common.NCPU)
    nbad = 0
    for i, (operands, ops) in enumerate(chains):
        r = impl[i]
        ctx.case({"src": srcs[i][:120]}, len(operands) >= 3)
        ctx.stat("chain length %d" % min(len(operands), 6))
        if "panic" in r or r.get("errors") or len(r.get("items", [])) != 1:
            ctx.violation("C03:chain-does-not-parse", "`%s` does not parse to one expression: %s" % (srcs[i], r), {"input": srcs[i], "observed": r})
            continue
        got = r["items"][0].replace("(var x)", "(var v1)").replace("(var y)", "(var v2)")
        if model is not None and model[i] != got:
            nbad += 1
            if nbad <= 5:
                ctx.cov.setdefault("corr_mismatches", []).append({"src": srcs[i], "impl": got, "model": model[i]})
        want = strip_parens(paren[i]["items"][0]) if paren[i].get("items") else None
        # the chain's own parenthesised operands keep their paren nodes: compare with those removed on both sides
        if want is None or strip_parens(r["items"][0]) != want:
            ctx.violation("C03:not-left-assoc:%d-operands" % min(len(operands), 6),
                          "`%s` does not parse as its left nest `%s`" % (srcs[i], left_paren(operands, ops)),
                          {"input": srcs[i], "expected": want, "observed": strip_parens(r["items"][0]),
                           "cli_command": "garden reftest-ast <file>"})
    if nbad:
        ctx.broken("correspondence:parse-chain", "%d chains parse differently in model and implementation, e.g. %s"
                   % (nbad, ctx.cov["corr_mismatches"][:2]))
    # ---- (b) evaluation: chain vs fully parenthesised
    pools = {"int": (["7", "2", "3", "10", "1", "5"], ["+", "-", "*", "/", "%", "**", "&", "|"]),
             "bool": (["True", "False"], ["&&", "||", "==", "!="]),
             "str": (['"a"', '"b"', '""'], ["^"]),
             "mixed": (["7", "2", "3"], ["+", "-", "*", "<", "<=", ">", ">=", "==", "!="])}
    ev = []
    for _ in range(1500 if ctx.thorough else 300):
        kind = rng.choice(list(pools))
        vals, ops = pools[kind]
        n = rng.randrange(2, 7)
        operands = [rng.choice(vals) for _ in range(n + 1)]
        chosen = [rng.choice(ops) for _ in range(n)]
        if kind == "mixed":
            # arithmetic then ONE comparison at the end keeps it well typed
            chosen = [rng.choice(["+", "-", "*"]) for _ in range(n - 1)] + [rng.choice(["<", "<=", ">", ">=", "==", "!="])]
        ev.append((operands, chosen))
    a = oracle.eval_stateless(exe, [" ".join(sum(([o, x] for o, x in zip(c, ops[1:])), [ops[0]])) for ops, c in ev])
    b = oracle.eval_stateless(exe, [left_paren(ops, c) for ops, c in ev])
    for (operands, chosen), x, y in zip(ev, a, b):
        src = " ".join(sum(([o, v] for o, v in zip(chosen, operands[1:])), [operands[0]]))
        ctx.case({"eval": src}, True)
        kx = (x or {}).get("kind"), (x or {}).get("value"), (x or {}).get("message", "")[:60]
        ky = (y or {}).get("kind"), (y or {}).get("value"), (y or {}).get("message", "")[:60]
        ctx.stat("eval " + str(kx[0]))
        if kx != ky:
            ctx.violation("C03:evaluates-differently", "`%s` gives %s but `%s` gives %s" % (src, kx, left_paren(operands, chosen), ky),
                          {"input": src, "reference_input": left_paren(operands, chosen), "observed": kx, "expected": ky,
                           "cli_command": "garden run -c 'println(string_repr(%s))'" % src})
    block_operand_stage(ctx, exe, rng, 600 if ctx.thorough else 150)


def block_operand_stage(ctx, exe, rng, n):
    """(c) chains whose operands are if / match expressions with SEVERAL statements in the taken branch (the value of the
    earlier statements is discarded): the chain's value is computed independently (left nest over the operand values)."""
    def render(v, kind):
        form = rng.randrange(5)
        junk = rng.choice(["99", '"junk"', "[1, 2]", "junk9()"])
        if form == 0:
            return v
        if form == 1:
            return "if True { %s %s } else { %s }" % (junk, v, "0" if kind == "int" else '""')
        if form == 2:
            return "if False { %s } else { %s\n %s }" % ("0" if kind == "int" else '""', junk, v)
        if form == 3:
            return "match Some(1) { Some(q9) => { %s\n %s } None => { %s } }" % (junk, v, "0" if kind == "int" else '""')
        return "(if True { %s %s } else { %s })" % (junk, v, "0" if kind == "int" else '""')
    cases = []
    for _ in range(n):
        kind = rng.choice(["int", "int", "str"])
        k = rng.randrange(2, 6)
        if kind == "int":
            vals = [rng.randrange(0, 9) for _ in range(k + 1)]
            ops = [rng.choice(["+", "-", "*"]) for _ in range(k)]
            acc = vals[0]
            for o, v in zip(ops, vals[1:]):
                acc = acc + v if o == "+" else acc - v if o == "-" else acc * v
            want = str(acc)
            txt = [str(v) for v in vals]
        else:
            vals = [rng.choice(["a", "b", "", "cd"]) for _ in range(k + 1)]
            ops = ["^"] * k
            want = '"%s"' % "".join(vals)
            txt = ['"%s"' % v for v in vals]
        rendered = [render(t, kind) for t in txt]
        if rendered[0].startswith(("if", "match")):
            rendered[0] = "(" + rendered[0] + ")"          # a statement-initial `if` would be a statement, not an operand
        src = " ".join(sum(([o, x] for o, x in zip(ops, rendered[1:])), [rendered[0]]))
        cases.append((src, want))
    got = oracle.eval_stateless(exe, ["fun junk9() { 5 }\nlet r9 = %s\nr9" % c[0] for c in cases])
    for (src, want), x in zip(cases, got):
        v = (x or {}).get("value")
        if v and "and the expression evaluated to " in v:
            x = dict(x, value=v.split("and the expression evaluated to ", 1)[1].rstrip("."))
        ctx.case({"eval_block_operands": src[:160]}, True)
        ctx.stat("block-operand chain " + str((x or {}).get("kind")))
        if (x or {}).get("kind") != "ok" or (x or {}).get("value") != want:
            ctx.violation("C03:chain-with-block-operands-evaluates-wrongly",
                          "`%s` gives %s, the left nest over the operand values gives %s" % (src, ((x or {}).get("kind"), (x or {}).get("value"), (x or {}).get("message", "")[:80]), want),
                          {"input": "fun junk9() { 5 }\nlet r9 = %s\nr9" % src, "expected": want, "observed": x,
                           "cli_command": "garden run <file with the input>"})
            break


def replay(ctx, rp):
    exe = ctx.impl()
    r = oracle.batch(exe, [{"op": "sexp", "src": rp["input"]}])[0]
    print(r)
    return 0
