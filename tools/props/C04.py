"""C04 -- Integer and float operators follow the documented arithmetic."""
import struct

from vplib import common, oracle

LEVEL = "proof"
RULE = ("Coq: Properties/C04.v over gen/Tables.v (regenerated from eval.rs). Dynamic: every ordered pair of the "
        "i64 boundary set x every integer operator (exhaustive) + PRNG pairs, `x += e`/`x -= e` on the same pairs, "
        "float operators on a boundary set; each case is run on the real binary (JSON session) and compared with "
        "(a) the extracted model of the code and (b) the extracted specification. A case is non-trivial when the "
        "exact result differs from the wrapped one, an operand is a boundary value, or the result is an exception.")
META = {
    "technique": "Coq proof over translator-generated operator tables + differential execution of extracted model vs binary",
    "level_text": ("Coq theorem int_binop_spec: for ALL i64 pairs and both overflow-check modes every integer "
                   "operator arm of eval_int_binop/eval_assign_update (shape regenerated from eval.rs by the "
                   "translator on every run) equals the specification function (wrap / truncating division / "
                   "Euclidean remainder / exact power / order); assign-update equals assign; no panic. "
                   "Float operators: correspondence only (IEEE semantics of Rust f64 are not re-proved)."),
    "level_note": ("Trusted: Coq kernel, tools/gen_tables.py (arm-shape recogniser), the meaning given to each Rust "
                   "i64 method in coq/Arith.v (std semantics modelled, not verified), extraction + OCaml glue, "
                   "JSON-session oracle. Operand type errors and value-stack handling are covered by C02/C07."),
    "design_ref": "DESIGN.md §5 C04",
}

MIN, MAX = -2 ** 63, 2 ** 63 - 1
BOUNDARY = sorted(set([MIN, MIN + 1, -2 ** 32 - 1, -2 ** 32, -2 ** 31 - 1, -2 ** 31, -2 ** 31 + 1, -3, -2, -1, 0, 1, 2, 3,
                       62, 63, 64, 65, 2 ** 31 - 1, 2 ** 31, 2 ** 32 - 1, 2 ** 32, 2 ** 32 + 1, 5000000000, 5000000001,
                       3037000499, 3037000500, MAX - 1, MAX]))
OPS = ["+", "-", "*", "/", "%", "**", "&", "|", "<", ">", "<=", ">="]


def lit(n):
    """Source text for an i64 (MIN has no literal: -9223372036854775808 lexes as one token)."""
    return str(n)


def wrap(z):
    return (z + 2 ** 63) % 2 ** 64 - 2 ** 63


def impl_show(c):
    """Normalise an implementation outcome to the model's vocabulary."""
    if c is None:
        return "missing"
    if c["kind"] == "ok":
        v = c["value"]
        if v in ("True", "False"):
            return "bool " + v
        return "val " + str(v)
    if c["kind"] == "error":
        return "exn" if c["err_kind"] == "exception" else "error:" + c["err_kind"]
    if c["kind"] == "panic":
        return "panic"
    return c["kind"]


def run(ctx):
    ctx.trusted = [
        "Coq 8.16.1 kernel (coqc); vm_compute used for table membership; no native_compute",
        "tools/gen_tables.py translator (eval_int_binop / eval_assign_update arm shapes)",
        "coq/Arith.v meanings of Rust i64 methods (wrapping_*, checked_*, /, %) -- modelled, not verified",
        "Extraction (ExtrOcamlBasic only) + ocaml/driver_core.ml, ops_arith.ml",
        "garden reftest-json-session as the oracle of the implementation (debug build, overflow checks on)",
    ]
    coq_ok = ctx.coq("Properties/C04.v")
    exe = ctx.impl()
    mdl = ctx.model()
    if not exe:
        return
    rng = ctx.rng
    pairs = [(a, b) for a in BOUNDARY for b in BOUNDARY]
    nrand = 3000 if ctx.thorough else 300
    for _ in range(nrand):
        k = rng.random()
        if k < 0.3:
            pairs.append((rng.randint(MIN, MAX), rng.randint(MIN, MAX)))
        elif k < 0.6:
            pairs.append((rng.randint(-2 ** 33, 2 ** 33), rng.randint(-70, 70)))
        elif k < 0.8:
            pairs.append((rng.choice(BOUNDARY), rng.randint(MIN, MAX)))
        else:
            pairs.append((rng.randint(-100, 100), rng.randint(-100, 100)))
    cases = [(op, a, b) for op in OPS for (a, b) in pairs]
    srcs = ["%s %s %s" % (lit(a), op, lit(b)) for (op, a, b) in cases]
    ctx.log("evaluating %d binary operator cases on the implementation" % len(srcs))
    impl = oracle.eval_stateless(exe, srcs, timeout=300)
    model = None
    if mdl:
        lines = ["int_binop\t1\t%s\t%d\t%d" % c for c in cases]
        rc, model, err = common.run_lines(mdl, [], lines, shards=common.NCPU)
    for i, (op, a, b) in enumerate(cases):
        got = impl_show(impl[i])
        exact = {"+": a + b, "-": a - b, "*": a * b}.get(op)
        nontrivial = (a in BOUNDARY or b in BOUNDARY or got == "exn" or (exact is not None and exact != wrap(exact)))
        ctx.case({"src": srcs[i], "impl": got}, nontrivial)
        ctx.stat("op " + op)
        ctx.stat("impl " + got.split()[0])
        if model:
            f = model[i].split("\t")
            m_code, m_spec = f[0], (f[1] if len(f) > 1 else "?")
            if got != m_code:
                ctx.stat("correspondence_mismatch")
                if "corr" not in ctx.cov:
                    ctx.cov["corr"] = []
                if len(ctx.cov["corr"]) < 10:
                    ctx.cov["corr"].append({"src": srcs[i], "impl": got, "model_of_code": m_code})
            if got != m_spec:
                key = "C04:binop:%s:%s" % (op, klass(op, a, b, got))
                ctx.violation(key, "`%s` gives %s, the documented arithmetic gives %s" % (srcs[i], got, m_spec),
                              {"input": srcs[i], "expected": m_spec, "observed": got,
                               "cli_command": "garden run -c 'println(%s)'" % srcs[i]})
    if ctx.stats.get("correspondence_mismatch"):
        ctx.broken("correspondence:int_binop", "model of the code and implementation differ on %d cases, e.g. %s"
                   % (ctx.stats["correspondence_mismatch"], ctx.cov["corr"][:3]))

    # ---- x += e / x -= e  ==  x = x + e / x = x - e --------------------------
    upd_pairs = pairs if ctx.thorough else pairs[:len(BOUNDARY) ** 2 + 100]
    ucases = [(u, a, b) for u in ("+=", "-=") for (a, b) in upd_pairs]
    usrc = ["{ let x = %s  x %s %s  x }" % (lit(a), u, lit(b)) for (u, a, b) in ucases]
    # a block is not an expression at top level; wrap in a function call
    usrc = ["(fun() { let x = %s  x %s %s  x })()" % (lit(a), u, lit(b)) for (u, a, b) in ucases]
    rsrc = ["(fun() { let x = %s  x = x %s %s  x })()" % (lit(a), u[0], lit(b)) for (u, a, b) in ucases]
    ctx.log("evaluating %d assign-update cases" % len(usrc))
    iu = oracle.eval_stateless(exe, usrc, timeout=300)
    ir = oracle.eval_stateless(exe, rsrc, timeout=300)
    for i, (u, a, b) in enumerate(ucases):
        g1, g2 = impl_show(iu[i]), impl_show(ir[i])
        ctx.case({"src": usrc[i], "impl": g1}, a in BOUNDARY or b in BOUNDARY)
        ctx.stat("upd " + g1.split()[0])
        if g1 != g2:
            exact = a + b if u == "+=" else a - b
            key = "C04:assign-update:%s:%s" % (u, "overflow" if exact != wrap(exact) else "other")
            ctx.violation(key, "`%s` gives %s but `%s` gives %s" % (usrc[i], g1, rsrc[i], g2),
                          {"input": usrc[i], "reference_input": rsrc[i], "expected": g2, "observed": g1,
                           "cli_command": "garden run -c 'println(%s)'" % usrc[i]})

    # ---- floats: correspondence only ----------------------------------------
    fl = [0.0, -0.0, 1.0, -1.0, 0.1, 0.2, 0.5, 1.5, 2.5, 1e300, -1e300, 1e-300, 5e-324, 3.141592653589793,
          1.7976931348623157e308, 123456789.125]
    for _ in range(60 if ctx.thorough else 20):
        fl.append(struct.unpack("<d", struct.pack("<Q", rng.getrandbits(64)))[0])
    fl = [x for x in fl if x == x and abs(x) != float("inf")]
    fcases = [(op, x, y) for op in ("+.", "-.", "*.", "/.") for x in fl for y in fl]
    if not ctx.thorough:
        fcases = rng.sample(fcases, min(len(fcases), 600))

    def flit(x):
        s = repr(x)
        if "e" in s or "inf" in s or "nan" in s:
            s = "%.330f" % x
            s = s.rstrip("0")
            if s.endswith("."):
                s += "0"
        if "." not in s:
            s += ".0"
        return s
    fsrc = ["%s %s %s" % (flit(x), op, flit(y)) for (op, x, y) in fcases]
    fr = oracle.eval_stateless(exe, fsrc, timeout=300)
    for i, (op, x, y) in enumerate(fcases):
        c = fr[i]
        ctx.case({"src": fsrc[i][:80]}, True)
        ctx.stat("float " + (c["kind"] if c else "missing"))
        if c is None or c["kind"] == "panic":
            ctx.violation("C04:float:panic:" + op, "`%s` crashed" % fsrc[i][:100], {"input": fsrc[i], "observed": str(c)})
            continue
        if op == "/." and y == 0.0:
            if not (c["kind"] == "error" and c["err_kind"] == "exception"):
                ctx.violation("C04:float:div-zero", "`%s` did not raise" % fsrc[i][:100], {"input": fsrc[i], "observed": str(c)})
            continue
        if c["kind"] != "ok":
            ctx.violation("C04:float:error:" + op, "`%s` gave %s" % (fsrc[i][:100], c), {"input": fsrc[i], "observed": str(c)})
            continue
        want = {"+.": x + y, "-.": x - y, "*.": x * y}.get(op)
        if op == "/.":
            want = x / y
        try:
            txt = c["value"]
            if txt.endswith(".0") and ("inf" in txt or "NaN" in txt):
                txt = txt[:-2]      # garden prints inf.0 / NaN.0; the value is what is compared
            got = float(txt)
        except ValueError:
            got = None
        if got is None or (got != want and not (got != got and want != want)):
            ctx.violation("C04:float:value:" + op, "`%s` = %s, IEEE-754 double gives %r" % (fsrc[i][:100], c["value"], want),
                          {"input": fsrc[i], "expected": repr(want), "observed": c["value"]})
    ctx.notes.append("float operators: compared with IEEE-754 binary64 arithmetic of the host (Python float); not proved")


def klass(op, a, b, got):
    if op in ("/", "%") and b == 0:
        return "by-zero:" + got.split()[0]
    if op in ("/", "%") and a == MIN and b == -1:
        return "min-by-minus-one:" + got.split()[0]
    if op == "**" and b > 2 ** 32 - 1:
        return "huge-exponent:" + got.split()[0]
    if op == "**" and b < 0:
        return "negative-exponent:" + got.split()[0]
    return "other:" + got.split()[0]


def replay(ctx, rp):
    exe = ctx.impl()
    r = oracle.eval_stateless(exe, [rp["input"]])
    print("input:", rp["input"])
    print("observed now:", impl_show(r[0]), "| recorded:", rp.get("observed"), "| expected:", rp.get("expected"))
    return 0 if impl_show(r[0]) == rp.get("expected") else 1
