"""C05 -- Core-language programs behave as the reference semantics says."""
import re

from vplib import common, oracle, machine, genprog

LEVEL = "proof"
CLAIMED = False
NOT_CLAIMED_REASON = ("the refinement theorem (evaluator model refines the reference semantics Ref.v) is not discharged yet; the "
                      "differential driver garden-vs-Ref exists (tools/props/C05.py) but random testing is not the claimed level")
RULE = ("Differential execution of `garden` (hook op run = eval_toplevel_items on the real interpreter) against the extracted "
        "independent reference interpreter coq/Ref.v on generated well-scoped core programs (typed generator, sizes up to "
        "~60 nodes, with and without injected runtime errors): same stdout, same outcome (value, or same kind of runtime "
        "error).")
META = {
    "technique": "differential execution against an independent definitional interpreter written in Coq (Ref.v); refinement proof pending",
    "level_text": ("NOT CLAIMED AS PROOF YET. The reference semantics Ref.v (big-step, environments, control signals) exists and "
                   "is run against the real interpreter; the theorem `machine_refines_ref` relating Machine.v to Ref.v is not "
                   "proved."),
    "level_note": "see NOT_CLAIMED_REASON",
    "design_ref": "DESIGN.md section 5 C05",
}

CLASSES = [
    (r"No such variable", "unbound"),
    (r"is not currently bound", "notbound"),
    (r"Tried to divide|remainder of dividing|Integer overflow|negative power|Exponent is too large", "arith"),
    (r"requires \d+ argument|expects \d+ argument", "arity"),
    (r"No cases in this `match`", "nomatch"),
    (r"^Expected ", "type"),
]


def impl_class(resp):
    if "panic" in resp:
        return "crashed", resp.get("stdout", "")
    o = (resp.get("outcomes") or [{}])[0]
    if o.get("kind") == "ok":
        return "ok:" + common.hexs(o.get("value") if o.get("value") is not None else "Unit"), resp.get("stdout", "")
    if o.get("kind") == "exception":
        m = o.get("message", "")
        for pat, c in CLASSES:
            if re.search(pat, m):
                return "error:" + c, resp.get("stdout", "")
        return "error:other:" + m[:40], resp.get("stdout", "")
    return str(o.get("kind")), resp.get("stdout", "")


def run(ctx):
    ctx.trusted = ["coq/Ref.v (reference semantics, hand-written from the language documentation)",
                   "extraction + ocaml/ops_machine.ml (S-expression reader on the implementation's parser output)", "hook ops run / sexp"]
    exe = ctx.impl()
    mdl = ctx.model("machine")
    if not exe or not mdl:
        return
    rng = ctx.rng
    n = 3000 if ctx.thorough else 500
    progs = genprog.programs(rng, n // 2, size=10, p_err=0.0) + genprog.programs(rng, n // 2, size=8, p_err=0.01)
    impl = oracle.batch(exe, [{"op": "run", "src": s, "tick_limit": 40000} for s in progs], timeout=900)
    sx = oracle.batch(exe, [{"op": "sexp", "src": s, "positions": True} for s in progs], timeout=900)
    lines = ["ref\t60000\t" + common.hexs("\n".join(x.get("items") or [])) for x in sx]
    rc, ref, err = common.run_lines(mdl, [], lines, timeout=900, shards=common.NCPU)
    for s, i, r in zip(progs, impl, ref):
        ic, iout = impl_class(i)
        f = r.split("\t")
        rcl, rout = f[0], (f[1] if len(f) > 1 else "-")
        ctx.stat("impl " + ic.split(":")[0] + (":" + ic.split(":")[1] if ic.startswith("error") else ""))
        if rcl.startswith("unsupported") or rcl == "outoffuel" or ic == "tick_limit":
            ctx.stat("outside reference fragment / budget")
            ctx.case({"src": s[:100]}, False)
            continue
        ctx.case({"src": s[:200], "impl": ic, "ref": rcl}, True)
        if ic != rcl or common.hexs(iout) != rout:
            ctx.violation("C05:differs-from-reference:%s-vs-%s" % (ic.split(":")[0] + (":" + ic.split(":")[1] if ic.startswith("error") else ""),
                                                                    rcl.split(":")[0] + (":" + rcl.split(":")[1] if rcl.startswith("error") else "")),
                          "garden gives %s / stdout %r, the reference semantics gives %s / %r" % (ic, iout, rcl, common.unhex(rout).decode("utf-8", "replace")),
                          {"input": s, "observed": ic, "expected": rcl, "cli_command": "garden run <file>"})


def replay(ctx, rp):
    exe = ctx.impl()
    print(oracle.batch(exe, [{"op": "run", "src": rp["input"], "tick_limit": 40000}])[0])
    return 0
