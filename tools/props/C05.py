"""C05 -- Core-language programs behave as the reference semantics says."""
import re

from vplib import common, oracle, machine, genprog

LEVEL = "proof"
CLAIMED = True
NOT_CLAIMED_REASON = ""
RULE = ("Machine-checked refinement (coq/RefineProps.v, pinned in coq/Properties/C05.v): the evaluator model Machine.v simulates "
        "the independent reference semantics Ref.v for every program of the stated fragment, all fuels and all contexts; plus "
        "differential execution of `garden` (hook op run = eval_toplevel_items on the real interpreter) against the extracted "
        "Ref.v on generated well-scoped core programs (typed generator, sizes up to ~60 nodes, with and without injected "
        "runtime errors): same stdout, same outcome (value, or same kind of runtime error).")
META = {
    "technique": ("refinement proof in Coq (explicit-stack machine model simulates a big-step definitional interpreter) + differential "
                  "execution of the real interpreter against the extracted reference interpreter"),
    "level_text": ("PROVED (theorems exec_refines_eval_partial, exec_refines_eval_error_partial, machine_refines_ref_partial): for all "
                   "programs of the fragment, if Ref.v evaluates to a value / a runtime error, the machine model reaches the same value "
                   "/ a Garden exception with the same printed output. FRAGMENT = the whole modelled core language (literals, variables, "
                   "parentheses, all binary operators, list/tuple literals, let, assignment, +=/-=, if/else, while, for, break, continue, "
                   "return, closures, calls of closures / named functions / println, print, string_repr / enum constructors, match) "
                   "EXCEPT break/continue in a non-statement position (inside an operand, condition, argument, list item, scrutinee: "
                   "there the interpreter leaks partial results on the value stack, a genuine defect that is reported and not fixed) "
                   "(the side condition is exactly: break/continue only as a statement of a block, not inside an operand; it is NECESSARY: "
                   "Example break_in_operand_position_refuted shows on the model that `[while True { [if True { break } else { 2 }, 1] }, 5]` "
                   "gives [Unit, 1] on the machine and [Unit, 5] in Ref.v, matching the known finding C05:break-continue-in-operand-position) "
                   "and 64-bit integer literals only; match, return (also in operand position), for, closures are all IN the fragment "
                   "(Example fragment_covers_match_return_for_break); programs must carry the parser's value_is_used annotation (well_annotated, with "
                   "the fixed rule for parentheses) and a well-formed initial environment (prog_good). Divergence (Ref.v OutOfFuel) and "
                   "constructs outside the model (Unsupp) are not related. Everything outside the fragment, and the tie between "
                   "Machine.v / Ref.v and the Rust code, is differential testing against the extracted Ref.v (this driver, and C06)."),
    "level_note": ("theorems are named _partial because of the statement-position restriction on break/continue and because only "
                   "terminating runs of the reference are related; the model-to-code tie is by differential execution"),
    "design_ref": "DESIGN.md section 5 C05",
}

CLASSES = [
    (r"No such variable", "unbound"),
    (r"is not currently bound", "notbound"),
    (r"Tried to divide|remainder of dividing|Integer overflow|negative power|Exponent is too large", "arith"),
    (r"requires \d+ argument|expects \d+ argument", "arity"),
    (r"No cases in this `match`", "nomatch"),
    (r"^Expected ", "type"),
]


def impl_class(resp):
    if "panic" in resp:
        return "crashed", resp.get("stdout", "")
    o = (resp.get("outcomes") or [{}])[0]
    if o.get("kind") == "ok":
        return "ok:" + common.hexs(o.get("value") if o.get("value") is not None else "Unit"), resp.get("stdout", "")
    if o.get("kind") == "exception":
        m = o.get("message", "")
        for pat, c in CLASSES:
            if re.search(pat, m):
                return "error:" + c, resp.get("stdout", "")
        return "error:other:" + m[:40], resp.get("stdout", "")
    return str(o.get("kind")), resp.get("stdout", "")


CAPTURE = [
    'let x = 1\nfor x in [10, 20] { let f = fun(a) { x + a } println(string_repr(f(0))) }\nprintln(string_repr(x))\n',
    'let x = 1\nmatch Some(5) { Some(x) => { let g = fun(a) { x + a } println(string_repr(g(1))) } None => { 0 } }\nprintln(string_repr(x))\n',
    'let x = 1\nif True { let x = 7 let h = fun(a) { x * a } println(string_repr(h(2))) }\nlet k = fun(a) { x + a }\nprintln(string_repr(k(1)))\n',
    'fun outer(x) { let r = 0 for x in [3, 4] { let f = fun(a) { x + a } r = r + f(1) } if True { let x = 100 let g = fun(a) { x + a } r = r + g(0) } r + x }\nprintln(string_repr(outer(1)))\n',
    'fun mk(x) { fun(a) { x + a } }\nlet x = 5\nlet add2 = mk(2)\nprintln(string_repr(add2(x)))\nlet x = 50\nprintln(string_repr(add2(x)))\n',
]


def run(ctx):
    ctx.coq("Properties/C05.v")
    ctx.trusted = ["coq/Ref.v (reference semantics, hand-written from the language documentation)",
                   "coq/Machine.v is the evaluator of src/eval.rs (tied by differential execution here and in C06, not by proof)",
                   "extraction + ocaml/ops_machine.ml (S-expression reader on the implementation's parser output)", "hook ops run / sexp"]
    exe = ctx.impl()
    mdl = ctx.model("machine")
    if not exe or not mdl:
        return
    rng = ctx.rng
    n = 3000 if ctx.thorough else 500
    progs = genprog.programs(rng, n // 2, size=10, p_err=0.0) + genprog.programs(rng, n // 2, size=8, p_err=0.01)
    # binders that shadow a visible variable of the same type (let / for / match / closure parameter), closures that
    # capture them
    shadow = {"fun", "closure", "match", "for", "while", "list", "tuple", "enum", "break", "return", "shadow"}
    progs += genprog.programs(rng, n // 3, size=10, p_err=0.0, features=shadow)
    progs += CAPTURE
    impl = oracle.batch(exe, [{"op": "run", "src": s, "tick_limit": 40000} for s in progs], timeout=900)
    sx = oracle.batch(exe, [{"op": "sexp", "src": s, "positions": True} for s in progs], timeout=900)
    lines = ["ref\t60000\t" + common.hexs("\n".join(x.get("items") or [])) for x in sx]
    rc, ref, err = common.run_lines(mdl, [], lines, timeout=900, shards=common.NCPU)
    # do the theorem's hypotheses (in_fragment / well_annotated / prog_good of Refine.v) describe the real parser's output?
    wl = ["wa\t" + common.hexs("\n".join(x.get("items") or [])) for x in sx]
    rc2, was, err2 = common.run_lines(mdl, [], wl, timeout=900, shards=common.NCPU)
    bad_wa = []
    for s, w in zip(progs, was):
        f = w.split("\t")
        if len(f) == 3:
            ctx.stat("in proved fragment" if f[0] == "t" else "outside proved fragment (differential only)")
            if f[0] == "t" and (f[1] == "f" or f[2] == "f"):
                bad_wa.append(s)
    if bad_wa:
        ctx.broken("correspondence:well_annotated", "%d programs of the fragment whose parser output violates Refine.well_annotated / prog_good, e.g. %s"
                   % (len(bad_wa), bad_wa[0][:300]))
    # known shapes outside the fragment: break / continue in operand position
    operand = ['let c = True\nlet x = [while True { [if c { break } else { 2 }, 1] }, 5]\nprintln(string_repr(x))\n',
               'let n = 0\nlet y = [while n < 2 { n += 1 [if n == 1 { continue } else { 2 }, 1] }, 7]\nprintln(string_repr(y))\n']
    progs = progs + operand
    impl = impl + oracle.batch(exe, [{"op": "run", "src": s, "tick_limit": 40000} for s in operand], timeout=300)
    sx2 = oracle.batch(exe, [{"op": "sexp", "src": s, "positions": True} for s in operand], timeout=300)
    rc3, ref2, err3 = common.run_lines(mdl, [], ["ref\t60000\t" + common.hexs("\n".join(x.get("items") or [])) for x in sx2], timeout=300)
    ref = ref + ref2
    for s in progs:
        for kw, nm in (("match ", "match"), ("for ", "for"), ("while ", "while"), ("break", "break"), ("continue", "continue"),
                       ("return", "return"), ("fun(", "closure literal")):
            if kw in s:
                ctx.stat("generated programs with " + nm)
    for s, i, r in zip(progs, impl, ref):
        ic, iout = impl_class(i)
        f = r.split("\t")
        rcl, rout = f[0], (f[1] if len(f) > 1 else "-")
        ctx.stat("impl " + ic.split(":")[0] + (":" + ic.split(":")[1] if ic.startswith("error") else ""))
        if rcl.startswith("unsupported") or rcl == "outoffuel" or ic == "tick_limit":
            ctx.stat("outside reference fragment / budget")
            ctx.case({"src": s[:100]}, False)
            continue
        ctx.case({"src": s[:200], "impl": ic, "ref": rcl}, True)
        if (ic != rcl or common.hexs(iout) != rout) and s in operand:
            ctx.violation("C05:break-continue-in-operand-position",
                          "garden gives %s / stdout %r, the reference semantics gives %s / %r" % (ic, iout, rcl, common.unhex(rout).decode("utf-8", "replace")),
                          {"input": s, "observed": [ic, iout], "expected": rcl})
        elif ic != rcl or common.hexs(iout) != rout:
            ctx.violation("C05:differs-from-reference:%s-vs-%s" % (ic.split(":")[0] + (":" + ic.split(":")[1] if ic.startswith("error") else ""),
                                                                    rcl.split(":")[0] + (":" + rcl.split(":")[1] if rcl.startswith("error") else "")),
                          "garden gives %s / stdout %r, the reference semantics gives %s / %r" % (ic, iout, rcl, common.unhex(rout).decode("utf-8", "replace")),
                          {"input": s, "observed": ic, "expected": rcl, "cli_command": "garden run <file>"})


def replay(ctx, rp):
    exe = ctx.impl()
    print(oracle.batch(exe, [{"op": "run", "src": rp["input"], "tick_limit": 40000}])[0])
    return 0
