"""C06 -- Block-local variables never outlive their block."""
from vplib import common, oracle, machine, genprog

LEVEL = "proof"
RULE = ("Coq: Properties/C06.v (block-depth invariant of the evaluator model for every step, break/continue/return "
        "unwinding, all reachable states). Dynamic: (a) differential execution of the extracted model against the binary on "
        "generated core programs (outcome, error position, stdout, ticks, binding-block count per frame); (b) directed "
        "search on the binary: every nesting of loop x if/match/for blocks x exit statement (normal, break, continue, "
        "return) at each depth, then a read of each block-local variable, which must be 'No such variable'. "
        "Non-trivial = the program leaves at least one block by break/continue/return.")
META = {
    "technique": "Coq invariant proof on a hand-written evaluator model + differential execution (extracted model vs binary) + directed search",
    "level_text": ("Coq theorems depth_invariant / block_exit_restores_scope / local_not_visible_after: in the evaluator model, "
                   "for every program and every reachable state, each frame holds exactly base + pending binding blocks, "
                   "whichever way blocks are left (normal exit, break, continue, return); so after a toplevel statement only "
                   "the toplevel scope is live. The model is tied to eval.rs by differential execution that also compares the "
                   "number of binding blocks per frame after each run."),
    "level_note": ("Trusted: Coq kernel; the hand-written model Machine.v (core language: literals, let/assign, operators, "
                   "if/while/for/break/continue/return, calls, closures, match, lists, tuples; no structs, dicts, methods, "
                   "try, type hints) tied by correspondence testing, not by proof; extraction and OCaml glue; the cfg-gated "
                   "run hook. The theorem is about block COUNT; that the surviving blocks' contents are unchanged is "
                   "checked dynamically (reads after the block) only."),
    "design_ref": "DESIGN.md section 5 C06",
}

EXITS = ["", "break", "continue", "return 0", "return\n"]       # a bare `return` needs a line end after it


def directed(rng, n):
    """Programs: fun f() { loop { wrappers... { let zK = K  EXIT } } ; probe } -- returns (src, probes)."""
    out = []
    loops = ["let i%d = 0 while i%d < 2 { i%d += 1 BODY }", "for x%d in [1, 2] { BODY }"]
    wraps = ["if True { BODY }", "if False { 0 } else { BODY }", "match Some(%d) { Some(m%d) => { BODY } None => { 0 } }",
             "for y%d in [7] { BODY }", "let j%d = 0 while j%d < 1 { j%d += 1 BODY }"]
    k = 0
    for _ in range(n):
        depth = rng.randrange(0, 4)
        ex = rng.choice(EXITS)
        k += 1
        names = []
        body = "let z%d = %d" % (k, k)
        names.append("z%d" % k)
        if ex:
            body += " if i_flag { %s }" % ex
        for d in range(depth):
            k += 1
            w = rng.choice(wraps)
            w = w.replace("%d", str(k))
            v = "w%d" % k
            names.append(v)
            body = w.replace("BODY", "let %s = %d %s" % (v, k, body))
        k += 1
        lp = rng.choice(loops).replace("%d", str(k))
        inner = lp.replace("BODY", body)
        in_fun = rng.random() < 0.5
        for probe in names:
            if in_fun:
                src = "fun f() { let i_flag = True %s %s }\nf()\n" % (inner, probe)
            else:
                # at toplevel a `return` ends the whole evaluation: the probe is never reached, but the toplevel
                # frame must be left with exactly one binding block (checked on the frame shapes below)
                src = "let i_flag = True\n%s\n%s\n" % (inner, probe)
            out.append((src, probe, ex, depth, in_fun))
    return out


def run(ctx):
    ctx.trusted = machine.TRUSTED
    ctx.coq("Properties/C06.v")
    if not ctx.impl():
        return
    rng = ctx.rng
    n = 1500 if ctx.thorough else 250
    progs = genprog.programs(rng, n, size=9, p_err=0.004)
    res = machine.correspondence(ctx, progs, "random", resume=1, tick_limit=20000, fuel=150000)
    for r in res:
        ctx.case({"src": r["src"][:200], "impl": r["impl"][:80]}, "break" in r["src"] or "continue" in r["src"] or "return" in r["src"])
    # directed search on the implementation
    dir_cases = directed(rng, 400 if ctx.thorough else 90)
    srcs = [c[0] for c in dir_cases]
    res = machine.correspondence(ctx, srcs, "directed", resume=0, tick_limit=20000, fuel=150000)
    for (src, probe, ex, depth, in_fun), r in zip(dir_cases, res):
        raw = r["impl_raw"]
        ctx.case({"src": src, "exit": ex or "normal", "depth": depth}, bool(ex))
        ctx.stat("exit " + (ex.split()[0] if ex else "normal"))
        o = (raw.get("outcomes") or [{}])[0]
        msg = o.get("message", "")
        ok = o.get("kind") == "exception" and msg.startswith("No such variable `%s`" % probe)
        if "return" in ex and o.get("kind") == "ok":
            ok = True       # the function returned before the probe: nothing to read
        if not ok:
            key = "C06:block-local-visible:%s:depth%d" % ((ex.split()[0] if ex else "normal"), min(depth, 3))
            ctx.violation(key, "block-local `%s` still readable (or wrong outcome %s) after leaving its block by %s"
                          % (probe, o, ex or "normal completion"),
                          {"input": src, "expected": "Exception: No such variable `%s`." % probe, "observed": o,
                           "cli_command": "garden run <file with the input>"})
        # one toplevel frame with exactly one binding block must remain
        fr = raw.get("frames", [[]])[-1]
        if fr and fr[0].get("blocks") != 1:
            ctx.violation("C06:block-leak:%s" % (ex.split()[0] if ex else "normal"),
                          "toplevel frame holds %d binding blocks after the statement" % fr[0].get("blocks"),
                          {"input": src, "observed": fr})
    # JSON-session probe: toplevel return / break inside blocks must not leak (the property's session form)
    hist = []
    i = 0
    for ex in ["return 1", "return\n", "break", "continue"]:
        for tpl in ["let q%d = 0 while q%d < 1 { q%d += 1 if True { let s%d = 5 EXIT } }",
                    "for q%d in [1] { let s%d = 5 if True { EXIT } }",
                    "for q%d in [1, 2] { match Some(q%d) { Some(m%d) => { let s%d = m%d EXIT } None => { 0 } } }",
                    "let q%d = 0 while q%d < 1 { q%d += 1 for r%d in [3] { let s%d = r%d if True { EXIT } } }"]:
            i += 1
            loop = tpl.replace("%d", str(i)).replace("EXIT", ex)
            hist.append([loop, "s%d" % i])
            if "for q" in tpl:
                hist.append([loop, "q%d" % i])
    exe = ctx.impl()
    for loop, probe in hist:
        rs, died, err, rc = oracle.run_history(exe, [{"method": "run", "input": loop}, {"method": "run", "input": probe}])
        ctx.case({"history": [loop, probe]}, True)
        last = rs[-1] if rs else {}
        if died or last.get("kind") != "error" or "No such variable" not in last.get("message", ""):
            ctx.violation("C06:session-leak:" + ("return" if "return" in loop else "break" if "break" in loop else "continue"), "after `%s` the session can still read `%s`: %s" % (loop, probe, last),
                          {"history": [loop, probe], "observed": last})


def replay(ctx, rp):
    exe = ctx.impl()
    r = oracle.batch(exe, [{"op": "run", "src": rp["input"], "tick_limit": 20000}])[0]
    print(r)
    return 0
