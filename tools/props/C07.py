"""C07 -- Resuming after a runtime error reproduces the same error."""
from vplib import common, oracle, machine, genprog

LEVEL = "proof"
RULE = ("Coq: Properties/C07.v (a failed step restores the frame; resume is idempotent). Dynamic: (a) differential "
        "execution model vs binary with 3 resumes after each error on generated programs with injected errors; (b) a "
        "catalogue of failing expressions (every operator with a wrong operand, built-in functions and methods with "
        "wrong arity / wrong types, user calls and closures with wrong arity or failing annotations, failing literals, "
        "lets, matches, loops, asserts) placed in several syntactic contexts; each is run on the binary and resumed 3 "
        "times: kind, message, position and the sizes of every frame's stacks must be identical each time; (c) the same "
        "through the real JSON session with `:resume`. Non-trivial = the first outcome is a runtime error.")
META = {
    "technique": "Coq proof on the evaluator model + differential execution with resumes + exhaustive error-catalogue search on the binary",
    "level_text": ("Coq theorems error_step_restores and resume_idempotent: in the evaluator model every failing step "
                   "(exception from any operator/call/built-in/match, limit, interrupt) leaves all stacks of all frames as "
                   "before the step, so resuming any number of times fails with the same error at the same position on the "
                   "same values. The model is tied to eval.rs (after the transactional-rollback fix in the eval loop) by "
                   "differential execution that resumes 3 times and compares outcomes and frame shapes."),
    "level_note": ("Trusted: Coq kernel; hand-written model Machine.v tied by correspondence testing; the model restores by "
                   "construction (it mirrors Env::rollback_step), so the proof is only as good as that correspondence. "
                   "Built-ins outside the model (fs, shell, reflect, most methods) are covered by the catalogue search only. "
                   "Side effects performed before a failure inside one step (none known) are not modelled."),
    "design_ref": "DESIGN.md section 5 C07",
}

EXPRS = [
    '1 + "a"', '"a" + 1', '1 / 0', '1 % 0', '2 ** -1', '1 < "a"', '"a" >= 1', '1.0 +. 1', '1 +. 1.0', '1.0 /. 0.0', '1.5 -. "a"',
    'True && 1', '1 || True', '"a" ^ 1', '1 ^ "a"', '9223372036854775807 ** 2', '(0 - 9223372036854775807 - 1) / -1',
    'nosuch', 'print(1)', 'println(1)', 'println()', 'println("a", "b")', 'string_repr()', 'string_repr(1, 2)',
    'throw("boom")', 'throw(1)', 'range(1)', 'range("a", 2)', 'not(1)', 'max(1)', 'max("a", 1)', 'min(1, "b")', 'dbg()', 'todo()',
    'eprintln(1)', 'eprint()', 'sort_nums(1)', 'sort_nums(["a"])',
    '[1].get("a")', '[1].get()', '"abc".substring(0, "x")', '"abc".substring("y", 1)', '"abc".substring(2, 1)', '"a".len(1)',
    '(1).len()', '[1].append()', '"a".join(1)', '"a".join([1])', '"a".starts_with(1)', '"a".ends_with()', '[1, 2].slice(0)',
    '[1, 2].slice("a", 1)', '"x".index_of(1)', 'Dict["a" => 1].get(1)', 'Dict["a" => 1].set(1, 2)', 'Dict["a" => 1].remove()',
    '(1).nosuch()', '"abc".lines(1)', '(1.5).floor(1)', '"5".as_int(1)', '(1).as_float(2)', '"abc".chars(1)', '[1].contains()',
    'Dict[].items(1)', '[1, 2].map(1)', '[1, 2].map(fun(a, b) { a })', '[1, 2].filter(fun(a) { 1 })', '"a b".split(1)', '"ab".replace(1, "b")',
    'Some(1).or_throw(2)', 'None.or_throw()', 'Err("bad").or_throw()', 'Some(1).or_value()', '[1].first(1)', '[1].enumerate(1)', '[3].index_of()',
    '(5)(1)', 'two(1)', 'two(1, 2, 3)', 'typed("a")', 'typed(1, 2)', 'badret()', '(fun(a) { a })(1, 2)', '(fun(a: Int) { a })("s")',
    '(fun(): Int { "s" })()', 'Some()', 'Some(1, 2)', 'Ok()', 'Col(1)',
    # generic functions and methods: failed parameter / return checks whose hints mention the type parameter
    'gwrap(2)', 'gpair(1)', 'gopt("s")', 'gparam(1, "s")', 'gnested([1])', 'Pt{ x: 1 }.gmeth(3)', 'gbad(1)',
    'Dict[1 => 2]', 'Nosuch{ x: 1 }', 'Pt{ y: 1 }', 'Pt{ x: 1, x: 2 }', 'Pt{ x: 1 }.y', '(1).x', '"a".nosuch', 'fs::nosuch', 'Pt{ x: "s" }',
    'match 5 { Some(x) => 1 }', 'match None { Some(x) => 1 }', 'match Red { Blue => 1 }', 'match Some(1) { Some((a, b)) => 1, None => 2 }',
    'match Some((1, 2, 3)) { Some((a, b)) => 1, None => 2 }', 'match 1 { nosuch => 2 }', 'match Some(1) { two => 2 }',
    'if 1 { 2 } else { 3 }', 'assert(False)', 'assert(1 == 2)', 'assert(1)', 'assert(1 + 1 == 3)',
]
STMTS = [
    'unbound = 1', 'unbound += 1', 'let s = "a" s += 1', 'let n = 1 n += "a"', 'let n = 1 n -= True',
    'let (a, b) = (1, 2, 3)', 'let (a, b) = 5', 'let x: String = 1', 'let x: Nosuch = 1', 'let x: List<Int> = ["a"]',
    'for (a, b) in [1] { a }', 'for (a, b) in [(1, 2, 3)] { a }', 'for x in 5 { x }', 'if 1 { 2 }', 'while 1 { 2 }', 'return nosuch',
    'let f = 5 f()', 'let t = (1, 2) t.nosuch',
]
SETUP = ('fun two(a, b) { a }\nfun typed(x: Int): Int { x }\nfun badret(): Int { "s" }\n'
         'struct Pt { x: Int }\nenum Col { Red, Blue }\n'
         'fun gwrap<T>(x: T): List<T> { 1 }\nfun gpair<T>(x: T): (T, T) { (x, "no", x) }\nfun gopt<T>(x: T): Option<T> { x }\n'
         'fun gparam<T>(x: T, y: List<T>): T { x }\nfun gnested<T>(xs: List<T>): List<List<T>> { xs }\n'
         'method gmeth<T>(this: Pt, v: T): List<T> { v }\nfun gbad<T>(x: T): Nosuch<T> { x }\n')
CONTEXTS = [
    ("top", "%s", True),
    ("list", "let v = [1, %s, 3]", False),
    ("arg", "fun h(a, b, c) { a }\nh(1, %s, 3)", False),
    ("loop-if", "let i = 0\nwhile i < 2 {\n  i += 1\n  if True { %s }\n}", True),
    ("fun-tuple", "fun k() {\n  let t = (%s, 2)\n  t\n}\nk()", False),
    ("print", "println(\"before\")\nprintln(string_repr(%s))", False),
    ("closure", "let g = fun(q) { %s }\ng(1)", True),
    ("binop", "let z = 10 + (%s)", False),
    ("method-arg", "[1, 2].get(%s)", False),
    ("for-body", "for e in [1, 2] { %s }", True),
]


def catalogue(rng, thorough):
    out = []
    for e in EXPRS:
        ctxs = CONTEXTS if thorough else rng.sample(CONTEXTS, 3)
        for name, tpl, _ in ctxs:
            out.append((name, e, SETUP + tpl % e + "\n"))
    for s in STMTS:
        for name, tpl, stmt_ok in CONTEXTS:
            if stmt_ok:
                out.append((name, s, SETUP + tpl % s + "\n"))
    return out


def sig(o):
    return (o.get("kind"), tuple(o.get("pos") or ()), o.get("message"))


def run(ctx):
    ctx.trusted = machine.TRUSTED
    ctx.coq("Properties/C07.v")
    exe = ctx.impl()
    if not exe:
        return
    rng = ctx.rng
    # (a) model correspondence with resumes
    n = 1200 if ctx.thorough else 200
    progs = genprog.programs(rng, n, size=8, p_err=0.02)
    res = machine.correspondence(ctx, progs, "random", resume=3, tick_limit=20000, fuel=150000)
    for r in res:
        ks = machine.outcome_kinds(r["impl"])
        ctx.case({"src": r["src"][:200], "outcomes": ks}, ks[0] not in ("ok",))
    # (b) catalogue on the implementation
    cat = catalogue(rng, ctx.thorough)
    srcs = [c[2] for c in cat]
    raw = oracle.batch(exe, [{"op": "run", "src": s, "resume": 3, "tick_limit": 50000} for s in srcs], timeout=900)
    raw0 = oracle.batch(exe, [{"op": "run", "src": s, "resume": 0, "tick_limit": 50000} for s in srcs], timeout=900)
    # the modelled part of the catalogue is also compared with the model
    machine.correspondence(ctx, srcs, "catalogue", resume=3, tick_limit=50000, fuel=150000)
    for (cname, e, src), r, r0 in zip(cat, raw, raw0):
        desc = {"context": cname, "failing": e}
        if "panic" in r:
            ctx.case(desc, True)
            ctx.violation("C07:panic:" + e[:40], "crash while evaluating/resuming `%s` in context %s: %s" % (e, cname, r["panic"]),
                          {"input": src, "observed": r})
            continue
        outs = r.get("outcomes") or []
        if not outs or outs[0].get("kind") == "ok" or "parse_errors" in r:
            ctx.case(desc, False)
            ctx.stat("catalogue no-error")
            continue
        ctx.case(desc, True)
        ctx.stat("catalogue error:" + outs[0]["kind"])
        first = sig(outs[0])
        bad = None
        if len(outs) != 4:
            bad = "expected the error 4 times (1 + 3 resumes), got %d outcomes: %s" % (len(outs), [o.get("kind") for o in outs])
        else:
            for k, o in enumerate(outs[1:], 1):
                if sig(o) != first:
                    bad = "resume %d gives %s, the first failure was %s" % (k, sig(o), first)
                    break
            if not bad and any(f != r["frames"][0] for f in r["frames"][1:]):
                bad = "frame shapes change across resumes: %s" % r["frames"]
            if not bad and r["stdout"] != r0.get("stdout"):
                bad = "resuming printed again: %r vs %r" % (r["stdout"], r0.get("stdout"))
        if bad:
            ctx.violation("C07:resume-differs:%s:%s" % (cname, e[:40]), "`%s` in context %s: %s" % (e, cname, bad),
                          {"input": src, "observed": outs, "frames": r.get("frames"),
                           "cli_command": "garden json: run the input, then :resume x3"})
    # (c) the real session path
    sample = rng.sample(cat, 60 if ctx.thorough else 20)
    for cname, e, src in sample:
        rs, died, err, rc = oracle.run_history(exe, [{"method": "run", "input": src}] + [{"method": "run", "input": ":resume"}] * 3)
        finals = [x for x in rs]
        ctx.case({"session": e, "context": cname}, True)
        if died:
            ctx.violation("C07:session-died:" + e[:40], "session died on `%s` + :resume: %s" % (e, err[-300:]), {"input": src})
            continue
        if len(finals) == 4 and finals[0].get("kind") == "error" and finals[0].get("err_kind") in ("exception", "assertion"):
            def norm(x):
                m = x.get("message", "")
                for pre in ("Exception: ", "Error: "):
                    if m.startswith(pre):
                        m = m[len(pre):]
                return (x.get("kind"), tuple(x.get("position") or ()), m.split("\n")[0])
            a = [norm(x) for x in finals]
            if not (a[1] == a[2] == a[3]) or a[0][:2] != a[1][:2]:
                ctx.violation("C07:session-resume-differs:%s:%s" % (cname, e[:40]),
                              "JSON session: `%s` then :resume x3 gives %s" % (e, a), {"history": [src, ":resume", ":resume", ":resume"], "observed": a})


def replay(ctx, rp):
    exe = ctx.impl()
    r = oracle.batch(exe, [{"op": "run", "src": rp["input"], "resume": 3, "tick_limit": 50000}])[0]
    print(r)
    outs = r.get("outcomes") or []
    return 0 if len({sig(o) for o in outs}) <= 1 else 1
