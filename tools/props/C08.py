"""C08 -- An evaluation interrupted anywhere resumes to the same outcome."""
from vplib import common, oracle, machine, genprog

LEVEL = "proof"
RULE = ("Coq: Properties/C08.v (interrupt_transparent; interrupted_run_equiv for every interrupt schedule). Dynamic: for "
        "each generated program the uninterrupted run gives N ticks; then the interrupt flag is raised (cfg-gated hook in the "
        "eval loop) at EVERY tick k in 1..N (exhaustive over k), and at random 2- and 3-point schedules, each run resumed "
        "until it finishes; final outcome, error position and complete stdout must equal the uninterrupted run's. A sample is "
        "also run through the extracted model. Non-trivial = the run was actually interrupted at least once.")
META = {
    "technique": "Coq proof by induction over interrupt schedules on the evaluator model + exhaustive per-tick interrupt injection on the binary",
    "level_text": ("Coq theorem interrupted_run_equiv: for ALL interrupt schedules (any number of Ctrl-C at any loop iterations, "
                   "each answered by :resume) the evaluator model ends with the same value/error/pending state and the same "
                   "output as an uninterrupted run; an interrupt consumes one iteration and puts the popped expression back. "
                   "Tied to eval.rs by injecting the interrupt at every tick of each generated program on the real binary."),
    "level_note": ("Trusted: Coq kernel; hand-written model Machine.v tied by correspondence testing; the injection hook sets "
                   "session.interrupted exactly where Ctrl-C would be observed (the flag check of the eval loop). Not covered: "
                   "interrupts during the tests of a request that also contains test blocks (the session drops the remaining "
                   "tests by design), and signal delivery itself (OS)."),
    "design_ref": "DESIGN.md section 5 C08",
}


def final(resp):
    """(last outcome signature, stdout) of a run response."""
    outs = resp.get("outcomes") or []
    if not outs:
        return ("none",), resp.get("stdout")
    o = outs[-1]
    return (o.get("kind"), tuple(o.get("pos") or ()), o.get("message"), o.get("value")), resp.get("stdout")


def run(ctx):
    ctx.trusted = machine.TRUSTED
    ctx.coq("Properties/C08.v")
    exe = ctx.impl()
    if not exe:
        return
    rng = ctx.rng
    nprog = 60 if ctx.thorough else 14
    progs = genprog.programs(rng, nprog, size=6, p_err=0.003)
    progs.append('fun fact(n) { if n <= 1 { return 1 } n * fact(n - 1) }\nlet t = 0\nfor x in [1, 2, 3] { if x == 2 { continue } t = t + fact(x) println(string_repr(t)) }\nt\n')
    progs.append('let i = 0\nwhile True { i += 1 if i > 3 { break } println(string_repr(i)) }\nmatch Some(i) { Some(v) => v + (1 / 0), None => 0 }\n')
    base = oracle.batch(exe, [{"op": "run", "src": s, "tick_limit": 100000} for s in progs], timeout=600)
    reqs, meta = [], []
    for s, b in zip(progs, base):
        if "outcomes" not in b:
            continue
        n = b["ticks"]
        if n > (400 if ctx.thorough else 220):
            ctx.stat("program too long, sampled")
            ks = sorted(rng.sample(range(1, n + 1), 150))
        else:
            ks = list(range(1, n + 1))
        scheds = [[k] for k in ks]
        for _ in range(40 if ctx.thorough else 10):
            m = rng.choice([2, 3])
            scheds.append(sorted(rng.sample(range(1, n + 4), min(m, n))))
        for sc in scheds:
            reqs.append({"op": "run", "src": s, "interrupt_at": sc, "resume": len(sc) + 2})
            meta.append((s, b, sc))
    ctx.log("running %d interrupted evaluations on the implementation" % len(reqs))
    got = oracle.batch(exe, reqs, timeout=1200)
    for (s, b, sc), r in zip(meta, got):
        ints = sum(1 for o in (r.get("outcomes") or []) if o.get("kind") == "interrupted")
        ctx.case({"src": s[:120], "interrupt_at": sc, "interrupted_times": ints}, ints > 0)
        ctx.stat("interrupted %d times" % ints)
        if "panic" in r or final(r) != final(b):
            key = "C08:interrupted-run-differs:%d-points" % len(sc)
            ctx.violation(key, "interrupting at ticks %s then resuming gives %s, the uninterrupted run gives %s"
                          % (sc, final(r) if "panic" not in r else r, final(b)),
                          {"input": s, "interrupt_at": sc, "expected": final(b), "observed": r})
    # model correspondence on a sample of interrupted runs
    idx = rng.sample(range(len(meta)), min(len(meta), 400 if ctx.thorough else 120))
    srcs = [meta[i][0] for i in idx]
    ints = [meta[i][2] for i in idx]
    # run_both takes one resume count: use the maximum needed
    res = machine.correspondence(ctx, srcs, "interrupted", resume=5, interrupts=ints, fuel=150000)
    # the real session path: interrupt request then :resume
    src = 'let i = 0\nwhile i < 20000 { i += 1 }\nprintln("done")\ni\n'
    rs, died, err, rc = oracle.run_history(exe, [{"method": "interrupt"}, {"method": "run", "input": src}, {"method": "run", "input": ":resume"}])
    ctx.case({"history": "interrupt before run, then :resume"}, True)
    kinds = [x.get("kind") for x in rs]
    ctx.notes.append("session path (interrupt; run; :resume) response kinds: %s" % kinds)
    if died:
        ctx.violation("C08:session-died", "session died: %s" % err[-300:], {"history": "interrupt; run; :resume"})
    else:
        last = rs[-1] if rs else {}
        if not (last.get("kind") == "ok" and last.get("value") == "20000"):
            ctx.violation("C08:session-resume", "interrupt; run; :resume did not finish with 20000: %s" % rs, {"observed": rs})


def replay(ctx, rp):
    exe = ctx.impl()
    a = oracle.batch(exe, [{"op": "run", "src": rp["input"]},
                           {"op": "run", "src": rp["input"], "interrupt_at": rp["interrupt_at"], "resume": len(rp["interrupt_at"]) + 2}])
    print(final(a[0]), final(a[1]))
    return 0 if final(a[0]) == final(a[1]) else 1
