"""C08 -- An evaluation interrupted anywhere resumes to the same outcome."""
from vplib import common, oracle, machine, genprog

LEVEL = "proof"
RULE = ("Coq: Properties/C08.v (interrupt_transparent; interrupted_run_equiv for every interrupt schedule; interrupted_run_finishes: liveness, a run that finishes in n iterations finishes with the same result under every schedule with n interrupt-free entries). Dynamic: for "
        "each generated program the uninterrupted run gives N ticks; then the interrupt flag is raised (cfg-gated hook in the "
        "eval loop) at EVERY tick k in 1..N (exhaustive over k), and at random 2- and 3-point schedules, each run resumed "
        "until it finishes; final outcome, error position and complete stdout must equal the uninterrupted run's. A sample is "
        "also run through the extracted model. The real session path (one `run` request through reftest-json-session with the "
        "interrupt injected at sampled ticks via GARDEN_VERIF_INTERRUPT_AT, then :resume) must answer with the same value "
        "and the same complete stdout as the uninterrupted request. Non-trivial = the run was actually interrupted at least once.")
META = {
    "technique": "Coq proof by induction over interrupt schedules on the evaluator model + exhaustive per-tick interrupt injection on the binary",
    "level_text": ("Coq theorem interrupted_run_equiv: for ALL interrupt schedules (any number of Ctrl-C at any loop iterations, "
                   "each answered by :resume) the evaluator model ends with the same value/error/pending state and the same "
                   "output as an uninterrupted run; an interrupt consumes one iteration and puts the popped expression back; theorem "
                   "interrupted_run_finishes adds liveness: if the uninterrupted run finishes within n iterations, every schedule with "
                   "at least n interrupt-free entries (+1 if a Ctrl-C was pending) finishes too, with the same result. "
                   "Tied to eval.rs by injecting the interrupt at every tick of each generated program on the real binary."),
    "level_note": ("Trusted: Coq kernel; hand-written model Machine.v tied by correspondence testing; the injection hook sets "
                   "session.interrupted exactly where Ctrl-C would be observed (the flag check of the eval loop). Not covered: "
                   "interrupts during the tests of a request that also contains test blocks (the session drops the remaining "
                   "tests by design), and signal delivery itself (OS)."),
    "design_ref": "DESIGN.md section 5 C08",
}


def final(resp):
    """(last outcome signature, stdout) of a run response."""
    outs = resp.get("outcomes") or []
    if not outs:
        return ("none",), resp.get("stdout")
    o = outs[-1]
    return (o.get("kind"), tuple(o.get("pos") or ()), o.get("message"), o.get("value")), resp.get("stdout")


def run(ctx):
    ctx.trusted = machine.TRUSTED
    ctx.coq("Properties/C08.v")
    exe = ctx.impl()
    if not exe:
        return
    rng = ctx.rng
    nprog = 60 if ctx.thorough else 14
    progs = genprog.programs(rng, nprog, size=6, p_err=0.003)
    progs.append('fun fact(n) { if n <= 1 { return 1 } n * fact(n - 1) }\nlet t = 0\nfor x in [1, 2, 3] { if x == 2 { continue } t = t + fact(x) println(string_repr(t)) }\nt\n')
    progs.append('let i = 0\nwhile True { i += 1 if i > 3 { break } println(string_repr(i)) }\nmatch Some(i) { Some(v) => v + (1 / 0), None => 0 }\n')
    base = oracle.batch(exe, [{"op": "run", "src": s, "tick_limit": 100000} for s in progs], timeout=600)
    reqs, meta = [], []
    for s, b in zip(progs, base):
        if "outcomes" not in b:
            continue
        n = b["ticks"]
        if n > (400 if ctx.thorough else 220):
            ctx.stat("program too long, sampled")
            ks = sorted(rng.sample(range(1, n + 1), 150))
        else:
            ks = list(range(1, n + 1))
        scheds = [[k] for k in ks]
        for _ in range(40 if ctx.thorough else 10):
            m = rng.choice([2, 3])
            scheds.append(sorted(rng.sample(range(1, n + 4), min(m, n))))
        for sc in scheds:
            reqs.append({"op": "run", "src": s, "interrupt_at": sc, "resume": len(sc) + 2})
            meta.append((s, b, sc))
    ctx.log("running %d interrupted evaluations on the implementation" % len(reqs))
    got = oracle.batch(exe, reqs, timeout=1200)
    for (s, b, sc), r in zip(meta, got):
        ints = sum(1 for o in (r.get("outcomes") or []) if o.get("kind") == "interrupted")
        ctx.case({"src": s[:120], "interrupt_at": sc, "interrupted_times": ints}, ints > 0)
        ctx.stat("interrupted %d times" % ints)
        if "panic" in r or final(r) != final(b):
            key = "C08:interrupted-run-differs:%d-points" % len(sc)
            ctx.violation(key, "interrupting at ticks %s then resuming gives %s, the uninterrupted run gives %s"
                          % (sc, final(r) if "panic" not in r else r, final(b)),
                          {"input": s, "interrupt_at": sc, "expected": final(b), "observed": r})
    # model correspondence on a sample of interrupted runs
    idx = rng.sample(range(len(meta)), min(len(meta), 400 if ctx.thorough else 120))
    srcs = [meta[i][0] for i in idx]
    ints = [meta[i][2] for i in idx]
    # run_both takes one resume count: use the maximum needed
    res = machine.correspondence(ctx, srcs, "interrupted", resume=5, interrupts=ints, fuel=150000)
    sprogs = progs[:len(progs) if ctx.thorough else 10] + SESSION_PROGS
    sbase = oracle.batch(exe, [{"op": "run", "src": s, "tick_limit": 100000} for s in sprogs], timeout=600)
    session_stage(ctx, exe, sprogs, sbase)
    # the real session path: interrupt request then :resume
    src = 'let i = 0\nwhile i < 20000 { i += 1 }\nprintln("done")\ni\n'
    rs, died, err, rc = oracle.run_history(exe, [{"method": "interrupt"}, {"method": "run", "input": src}, {"method": "run", "input": ":resume"}])
    ctx.case({"history": "interrupt before run, then :resume"}, True)
    kinds = [x.get("kind") for x in rs]
    ctx.notes.append("session path (interrupt; run; :resume) response kinds: %s" % kinds)
    if died:
        ctx.violation("C08:session-died", "session died: %s" % err[-300:], {"history": "interrupt; run; :resume"})
    else:
        last = rs[-1] if rs else {}
        if not (last.get("kind") == "ok" and last.get("value") == "20000"):
            ctx.violation("C08:session-resume", "interrupt; run; :resume did not finish with 20000: %s" % rs, {"observed": rs})


SESSION_PROGS = [
    'fun a(): Int { println("enter a") let r = 1 println("leave a") r }\nprintln(string_repr(a()))\nprintln("second")\nfun c(): Int { println("enter c") 101 }\nc()\n',
    'fun f(n) { let t = 0 for x in [1, 2, 3] { t = t + x * n } t }\nlet u = f(2)\nprintln(string_repr(u))\nlet w = f(u) + 1\n[u, w]\n',
    'fun g(n) { if n == 0 { return 0 } 1 + g(n - 1) }\nprintln("one")\nlet a = g(4)\nprintln("two")\nlet b = [g(1), g(2)]\n(a, b)\n',
    'let i = 0\nwhile i < 5 { i += 1 }\nprintln(string_repr(i))\nlet l = [1, 2].map(fun(x) { x + i })\nl\n',
]
MARK = "and the expression evaluated to "


def session_value(c):
    v = c.get("value")
    if c.get("kind") != "ok" or v is None:
        return (c.get("kind"), c.get("err_kind"), c.get("message"), tuple(c.get("position") or ()))
    if MARK in v:
        v = v.split(MARK, 1)[1]
        v = v[:-1] if v.endswith(".") else v
    elif v.startswith("Loaded "):
        v = "<definitions only>"
    return ("ok", v)


def session_stage(ctx, exe, progs, base):
    """The REAL session path (json_session::handle_request -> eval_toplevel_exprs_then_stop, which the hook op `run`
    does not use): one `run` request with the whole program, the interrupt injected at tick k through
    GARDEN_VERIF_INTERRUPT_AT (cfg-gated), then `:resume` until the request is answered; the complete stdout and the final
    answer must equal those of the same request in an uninterrupted session."""
    import concurrent.futures
    rng = ctx.rng
    jobs = []
    for s, b in zip(progs, base):
        n = (b or {}).get("ticks") or 40
        ks = sorted(set(rng.sample(range(1, n + 2), min(n, 40 if ctx.thorough else 8))))
        jobs.append((s, None))
        jobs += [(s, k) for k in ks]

    def one(job):
        s, k = job
        reqs = [{"method": "run", "input": s}] + ([{"method": "run", "input": ":resume"}] * 3 if k else [])
        return oracle.run_history(exe, reqs, env={"GARDEN_VERIF_INTERRUPT_AT": str(k)} if k else None)
    with concurrent.futures.ThreadPoolExecutor(common.NCPU) as ex:
        res = list(ex.map(one, jobs))
    ref = {}
    for (s, k), (rs, died, err, rc) in zip(jobs, res):
        if k is None:
            ref[s] = (session_value(rs[0]) if rs else ("none",), rs[0].get("stdout") if rs else None, died)
    for (s, k), (rs, died, err, rc) in zip(jobs, res):
        if k is None:
            continue
        want_v, want_out, ref_died = ref[s]
        if ref_died:
            continue
        ints = sum(1 for x in rs if x.get("kind") == "interrupted")
        ctx.case({"src": s[:120], "session_interrupt_at": k, "interrupted_times": ints}, ints > 0)
        ctx.stat("session: interrupted %d times" % ints)
        if ints == 0:
            continue
        rep = {"input": s, "session_interrupt_at": k, "expected": [want_v, want_out],
               "history": "GARDEN_VERIF_INTERRUPT_AT=%d garden reftest-json-session: run <input>; :resume; :resume; :resume" % k}
        if died:
            ctx.violation("C08:session-died-after-interrupt", "the session died after an interrupt at tick %d: %s" % (k, err[-300:]),
                          dict(rep, observed=err[-600:]))
            continue
        ans = [x for x in rs if x.get("kind") != "interrupted"]
        got_v = session_value(ans[0]) if ans else ("none",)
        upto = rs.index(ans[0]) + 1 if ans else len(rs)
        got_out = "".join(x.get("stdout", "") for x in rs[:upto])
        if got_v != want_v or got_out != want_out:
            ctx.violation("C08:session-interrupted-run-differs",
                          "session: interrupt at tick %d then :resume answers %s with stdout %r; the uninterrupted request answers "
                          "%s with stdout %r" % (k, got_v, got_out[-200:], want_v, (want_out or "")[-200:]),
                          dict(rep, observed=[got_v, got_out], responses=[(x.get("kind"), x.get("value"), x.get("stdout")) for x in rs]))


def replay(ctx, rp):
    exe = ctx.impl()
    if "session_interrupt_at" in rp:
        k = rp["session_interrupt_at"]
        reqs = [{"method": "run", "input": rp["input"]}] + [{"method": "run", "input": ":resume"}] * 3
        a = oracle.run_history(exe, reqs[:1])[0]
        b = oracle.run_history(exe, reqs, env={"GARDEN_VERIF_INTERRUPT_AT": str(k)})[0]
        print([session_value(x) for x in a], [(x.get("kind"), x.get("value"), x.get("stdout")) for x in b])
        ans = [x for x in b if x.get("kind") != "interrupted"]
        return 0 if ans and a and session_value(ans[0]) == session_value(a[0]) else 1
    a = oracle.batch(exe, [{"op": "run", "src": rp["input"]},
                           {"op": "run", "src": rp["input"], "interrupt_at": rp["interrupt_at"], "resume": len(rp["interrupt_at"]) + 2}])
    print(final(a[0]), final(a[1]))
    return 0 if final(a[0]) == final(a[1]) else 1
