"""C09 -- The JSON session answers every request and never dies."""
import concurrent.futures
import json
import os
import re
import tempfile

from vplib import common, oracle

LEVEL = "proof"
RULE = ("Coq: Properties/C09.v (handle_total, responses_in_order, handle_session_layer_no_panic, handle_keeps_discipline, "
        "handle_no_panic_partial, evaluator_discipline, machine_no_crash_partial, run_no_crash_partial, handle_no_panic [unconditional, "
        "structured fragment], before/after-fix examples). Dynamic: generated request histories over the whole vocabulary (definitions, lets, "
        "expressions that succeed / fail at toplevel / fail inside calls, loops, blocks; eval_up_to, load and interrupt "
        "requests; malformed JSON lines; every REPL command with and without arguments) with commands issued in every "
        "session state (idle, failed at toplevel, failed inside a call, after :abort, after :skip, after :replace, after "
        ":test ...), run through `garden reftest-json-session`: exactly one final response per request, in request order "
        "(request ids echoed back must match, response kind must fit the request), exit status 0, and a canary `1 + 1` "
        "appended to every history must answer 2. A dead session is shrunk by delta debugging over the request list. "
        "Correspondence: the modelled part of each history (Run of core-language expressions, :resume, :abort, :skip, "
        ":replace, :forget_local, inspection commands) is run on the extracted Session.handle and the responses (value / "
        "error position / command) are compared. Non-trivial = the history contains a command issued while an evaluation "
        "is pending or a state-changing command at idle.")
META = {
    "technique": "Coq proof on a session model over the evaluator model (invariant over every evaluator step and every session "
                 "command) + differential execution of request histories + state-aware history search with delta debugging "
                 "on the real JSON session",
    "level_text": ("Coq theorems over the session model (Session.v = evaluator model Machine.v + request handler with `eval`'s "
                   "stop_at_expr_id logic): every request yields exactly one response and, while nothing panicked, the i-th "
                   "response answers the i-th request (handle_total, responses_in_order); in ANY state the session commands "
                   "themselves never panic with the repaired :skip (handle_session_layer_no_panic); every session command "
                   "(run overwriting the pending expressions, :resume, :abort, repaired :skip, :replace, :forget_local, "
                   "inspection, stopping at a call) preserves the value-stack / binding-block discipline "
                   "(handle_keeps_discipline); every iteration of the evaluator loop preserves it and never reaches an "
                   "`expect`/`unreachable!` (Discipline.v: evaluator_discipline, machine_no_crash_partial, "
                   "run_no_crash_partial -- a case analysis over all of Machine.exec for the structured fragment). Hence "
                   "UNCONDITIONALLY (handle_no_panic): for every program whose function bodies are in the fragment and every "
                   "sequence of Run / :resume / :abort / :skip / :replace / :forget_local / inspection requests with "
                   "expressions in the fragment, no state reachable from a fresh session answers SessionPanic. Examples "
                   "replay the three session defects on the model before and after the repairs and show that the "
                   "well-formedness hypothesis is satisfiable and cannot be dropped."),
    "level_note": ("PARTIAL in the fragment only. The fragment (wf / wf_prog / wf_request): int and string literals, "
                   "variables, binary operators, let, assignment, += and -=, if/else, while, list and tuple literals, calls "
                   "of named functions / built-ins / enum constructors, parentheses, with the value_is_used flags the "
                   "parser sets; namespace values without closures and Ints. NOT covered by the theorems (history search and "
                   "differential execution only): for, break, continue, return, closure literals, match; definitions and "
                   "tests, eval_up_to, load, interrupt (asynchronous, answered by the main thread), malformed requests, "
                   ":type/:test/:load/:namespace/:forget/:doc/:source/:parse/..., the rest of the language. "
                   "handle_no_panic_partial (conditional on evaluator_keeps_discipline) is kept; its hypothesis is now "
                   "discharged by evaluator_discipline. Trusted: Coq kernel; hand-written models Machine.v and Session.v "
                   "tied to the code by differential execution (syntax ids are modelled by source positions; requests where "
                   "that is ambiguous are skipped; the OCaml glue reports for every compared history whether it satisfies the "
                   "well-formedness hypotheses on the real parser's output: stats `model wf-flags`); :quit (exits by design) "
                   "and :trace (writes non-JSON text to stdout by design) are outside the checked vocabulary; the "
                   "Content-Length framing of `garden json` is not exercised."),
    "design_ref": "DESIGN.md section 5 C09, section 8 items 10 and 11",
}

# ---------------------------------------------------------------------------------------------------------------------
# vocabulary
DEFS = [
    "fun f(a) { a + 1 }",
    "fun h(x) { let hl = x 10 / x }",
    "fun g(n) { let loc = n * 2 let r = h(n - n) r + loc }",
    "fun deep(n) { if n > 0 { deep(n - 1) } else { nosuch_in_deep } }",
    "fun looper(n) { let i = 0 let acc = [] while i < n { i += 1 if i == 2 { let inblk = [i, boom_var] } acc = acc.append(i) } acc }",
    "fun forl(xs) { let s = 0 for x in xs { s = s + (10 / x) } s }",
    "fun mt(o) { match o { Some(v) => v / 0, None => 0 } }",
    "enum Col { Red, Blue(Int) }",
    "struct Pt { x: Int }",
    "fun (this: Pt) getx(): Int { this.x }",
    "test t_ok { assert(1 == 1) }",
    "test t_bad { assert(1 == 2) }",
    "test t_err { g(1) }",
    "fun typed(x: Int): String { x }",
    "fun badret(): NoSuchType { 1 }",
    "fun badparam(x: NoSuchType) { x }",
]
LETS = ["let a = 1", "let b = [1, 2]", "let s = \"str\"", "let c = Some(3)", "let a2 = a"]
OK_EXPRS = ["1 + 2", "f(1)", "a", "b", "println(\"out\")", "[1, 2, 3]", "let i = 0 while i < 3 { i += 1 }", "for q in [1, 2] { println(string_repr(q)) }",
            "if True { 1 } else { 2 }", "match Some(1) { Some(v) => v, None => 0 }", "Pt{ x: 1 }.getx()", "(1, \"a\")", "Red", "Blue(2)",
            "fun(z) { z }", "5 6 7", "{ 1 2 }", "a = 5", "", "   ", "// just a comment", "(4)", "f(f(2))"]
FAIL_TOP = ["1 / 0", "nosuch", "let q = nosuch", "[1, nosuch, 3]", "1 + nosuch", "nosuch + 1", "let w = 1 / 0", "(1, 2 / 0)", "a = nosuch",
            "if nosuch { 1 }", "if True { let blk = 1 nosuch }", "while nosuch { 1 }", "let i = 0 while i < 3 { i += 1 if i == 2 { nosuch } }",
            "for e in [1, 0, 2] { 10 / e }", "for e in nosuch { 1 }", "match nosuch { Some(v) => 1 }", "match Some(0) { Some(v) => 1 / v, None => 0 }",
            "println(1)", "f(1, 2)", "(5)(1)", "Pt{ x: nosuch }", "Pt{ x: 1 }.nosuchm()", "assert(1 == 2)", "throw(\"boom\")", "typed(1)",
            "[1, 2].get(9).or_throw()", "return nosuch", "nosuch 5", "1 nosuch 3", "string_repr(nosuch)", "(nosuch)", "f(nosuch)", "let (x1, y1) = 5"]
FAIL_CALL = ["g(2)", "deep(3)", "looper(3)", "forl([1, 0, 2])", "mt(Some(1))", "f(g(1))", "[g(1), 2]", "let res = g(3)", "1 + h(0)", "typed(g(1))",
             "if True { g(1) }", "for e in [1, 2] { g(e) }", "let i = 0 while i < 2 { i += 1 h(0) }", "(fun(z) { z / 0 })(1)", "Pt{ x: h(0) }", "badret()", "badparam(1)",
             "1 + badret()"]
PARSE_ERRS = ["1 +", "fun (", "let = 3", "\"unterminated", "}", "let x = ", "((("]
COMMANDS = [":abort", ":doc", ":doc print", ":doc String::len", ":doc nosuch", ":doc f", ":doc Pt", ":doc Col", ":help", ":help :doc", ":help foo",
            ":help :nosuch", ":funs", ":load", ":load /nonexistent/file.gdn", ":locals", ":namespace", ":forget", ":forget f", ":forget nosuch",
            ":forget a", ":forget Red", ":forget_calls", ":forget_local", ":forget_local a", ":forget_local nosuch", ":forget_local loc",
            ":forget_local hl", ":forget_local x", ":fvalues", ":fstmts", ":globals", ":methods", ":methods Str", ":namespaces", ":parse",
            ":parse 1 +", ":parse fun f() {}", ":parse 1 + 2", ":replace", ":replace 5", ":replace nosuch", ":replace )", ":replace f(1)",
            ":replace g(1)", ":replace 1 / 0", ":replace [1, 2]", ":replace \"s\"", ":resume", ":skip", ":stack", ":search", ":search pr",
            ":source", ":source f", ":source String::len", ":source nosuch", ":source Pt", ":source Pt::getx", ":source Pt::nosuch",
            ":source Nosuch::m", ":test", ":test t_ok", ":test t_bad", ":test t_err", ":test nosuch", ":type", ":type 1 + 2", ":type nosuch",
            ":type 1 / 0", ":type f(1)", ":type g(1)", ":type )", ":type fun(z) { z }", ":types", ":uptime", ":version", ":nosuchcommand", ":",
            ": skip", ":SKIP", ":Resume", " :skip ", ":skip extra", ":resume now", ":abort abort", ":locals x", ":fvalues 1"]
STATEFUL = [":skip", ":skip", ":skip", ":replace 5", ":replace nosuch", ":replace 1 / 0", ":replace g(1)", ":replace [1, 2]", ":resume", ":resume",
            ":abort", ":forget_local a", ":forget_local loc", ":forget_local x", ":forget_local hl", ":type 1 / 0", ":type g(1)", ":type 1 + 2",
            ":test t_ok", ":test t_bad", ":test t_err", ":forget f", ":forget h", ":fvalues", ":fstmts", ":locals", ":stack"]
MALFORMED = ['{', '{"method": "nope"}', '[]', '"str"', '{"method": "run"}', '{"method": "run", "input": 5}', '{"input": "1"}', 'null', '12',
             '{"method": "load", "input": "1"}', '{"method": "eval_up_to"}', '{"method": "run", "input": "1", "id": -1}', 'not json at all',
             '{"method": "run", "input": "1", "id": "x"}', '{"method": "run", "input": "1", "offset": 99}',
             '{"method": "run", "input": "1 + 2", "offset": 0, "end_offset": 1}', '{"method": "run", "input": "abc", "end_offset": 99}',
             '{"method": "run", "input": "hé 1", "offset": 2}', '{"method": "run", "input": "12345", "offset": 4, "end_offset": 2}']
EVAL_UP_TO = [("let z = 1 + 2", 9), ("fun f2(a) { a + 1 }", 13), ("1 / 0", 2), ("for e in [1, 2] { e }", 18), ("", 0), ("1 +", 1),
              ("test tt { assert(1 == 2) }", 14), ("g(2)", 1), ("let z = nosuch", 9), ("{ 1 2 }", 2), ("a", 99), ("fun f(a) { a + 1 }", 12),
              ("fun (this: Pt) getx2(): Int { this.x }", 32), ("enum E2 { A2 }", 3), ("while True { break }", 14), ("h(0)", 0)]


def req_run(src, rng=None):
    return {"method": "run", "input": src}


def gen_history(rng, idx):
    """One history = list of request objects (dicts) or raw strings (malformed lines)."""
    h = []
    if rng.random() < 0.85:
        for d in rng.sample(DEFS, rng.randrange(3, len(DEFS) + 1)) if rng.random() < 0.5 else DEFS:
            h.append(req_run(d))
    for l in rng.sample(LETS[:4], rng.randrange(0, 4)):
        h.append(req_run(l))
    n_phases = rng.randrange(1, 5)
    for _ in range(n_phases):
        k = rng.randrange(10)
        # put the session into a state
        if k <= 2:
            h.append(req_run(rng.choice(FAIL_TOP)))
        elif k <= 5:
            h.append(req_run(rng.choice(FAIL_CALL)))
        elif k == 6:
            h.append(req_run(rng.choice(FAIL_CALL)))
            h.append(req_run(rng.choice(FAIL_CALL + FAIL_TOP)))     # a failure inside the context of a failure
        elif k == 7:
            h.append(req_run(rng.choice(OK_EXPRS)))
        elif k == 8:
            h.append(req_run(":test " + rng.choice(["t_bad", "t_err", "t_ok"])))
        # k == 9: stay idle
        # then poke it
        for _ in range(rng.randrange(1, 6)):
            r = rng.random()
            if r < 0.45:
                h.append(req_run(rng.choice(STATEFUL)))
            elif r < 0.65:
                h.append(req_run(rng.choice(COMMANDS)))
            elif r < 0.73:
                h.append(req_run(rng.choice(OK_EXPRS + LETS)))
            elif r < 0.79:
                h.append(req_run(rng.choice(FAIL_TOP + FAIL_CALL)))
            elif r < 0.83:
                h.append(req_run(rng.choice(PARSE_ERRS)))
            elif r < 0.87:
                src, off = rng.choice(EVAL_UP_TO)
                q = {"method": "eval_up_to", "src": src, "offset": off}
                if rng.random() < 0.3:
                    q["path"] = "/tmp/c09_%d.gdn" % rng.randrange(2)
                h.append(q)
            elif r < 0.90:
                src = rng.choice(DEFS + OK_EXPRS + FAIL_TOP)
                h.append({"method": "load", "input": src, "path": "/tmp/c09_%d.gdn" % rng.randrange(2), "offset": 0,
                          "end_offset": rng.choice([len(src), len(src), 0, 3, len(src) + 5])})
            elif r < 0.93:
                h.append({"method": "interrupt"})
            elif r < 0.97:
                h.append(rng.choice(MALFORMED))
            else:
                h.append(req_run(rng.choice(DEFS)))
    return h


def exhaustive_pairs():
    """Every state-changing command in every basic state, followed by every state-changing command again."""
    states = [[], ["1 / 0"], ["let q = nosuch"], ["g(2)"], ["g(2)", ":abort"], ["let q = nosuch", ":skip"], ["1 / 0", ":replace 5"],
              [":test t_bad"], ["g(2)", "nosuch"], ["typed(1)"], ["f(1, 2)"], ["typed(g(1))"], ["[1, nosuch, 3]"], ["forl([1, 0, 2])"], ["looper(3)"], ["if True { let blk = 1 nosuch }"]]
    cmds = [":skip", ":replace 5", ":replace nosuch", ":resume", ":abort", ":forget_local a", ":type 1 / 0", ":type g(1)", ":test t_err",
            "let w = nosuch", ":forget h", "g(1)", {"method": "eval_up_to", "src": "1 / 0", "offset": 2}]
    out = []
    for st in states:
        for c1 in cmds:
            for c2 in cmds:
                h = [req_run(d) for d in DEFS] + [req_run("let a = 1")] + [req_run(x) for x in st]
                for c in (c1, c2, c1):
                    h.append(req_run(c) if isinstance(c, str) else dict(c))
                out.append(h)
    return out


# ---------------------------------------------------------------------------------------------------------------------
# running
CANARY = {"method": "run", "input": "1 + 1"}


def with_ids(history):
    out = []
    for i, r in enumerate(history):
        if isinstance(r, dict) and r.get("method") in ("run", "load", "eval_up_to") and "id" not in r:
            r = dict(r)
            r["id"] = 1000 + i
        out.append(r)
    return out


def run_raw(exe, history, timeout=60):
    """history items: dict (serialised) or str (raw line). Returns (raw responses, stderr, rc)."""
    with tempfile.NamedTemporaryFile("w", suffix=".jsonl", dir=oracle.scratch_dir(), delete=False) as f:
        for r in history:
            f.write((r if isinstance(r, str) else json.dumps(r)) + "\n")
        path = f.name
    try:
        e = dict(os.environ)
        e["RUST_BACKTRACE"] = "0"
        rc, out, err = common.sh([exe, "reftest-json-session", path], timeout=timeout, cwd=oracle.scratch_dir(), env=e)
    finally:
        os.unlink(path)
    return oracle.parse_json_stream(out), err, rc


def is_request_line(r):
    """main.rs skips empty lines and lines starting with //."""
    if isinstance(r, str):
        return bool(r) and not r.startswith("//")
    return True


def expected_kinds(r):
    """Response kinds that can answer request r."""
    if isinstance(r, str):
        try:
            v = json.loads(r)
        except Exception:
            return {"malformed_request"}
        if isinstance(v, dict) and v.get("method") == "run" and isinstance(v.get("input"), str) and \
                all(isinstance(v.get(k, 0), int) and v.get(k, 0) >= 0 for k in ("offset", "end_offset", "id")):
            r = v
        else:
            return {"malformed_request"}
    m = r.get("method")
    if m == "interrupt":
        return {"interrupted"}
    if m in ("load", "eval_up_to"):
        return {"evaluate", "interrupted", "malformed_request"}      # malformed: offsets outside the input
    inp = r.get("input", "")
    name = inp.strip().split(" ")[0].lower()
    if inp.startswith(":") or name.startswith(":"):
        if name in (":resume", ":skip", ":replace", ":test"):
            return {"evaluate", "run_command", "malformed_request", "interrupted"}
        return {"run_command"}
    if "offset" in r or "end_offset" in r:
        return {"evaluate", "interrupted", "malformed_request"}
    return {"evaluate", "interrupted"}


def check_history(exe, history, timeout=60):
    """Returns (problem or None, info). problem = (key, what)."""
    hist = with_ids([r for r in history if is_request_line(r)]) + [dict(CANARY, id=999999)]
    resps, err, rc = run_raw(exe, hist, timeout)
    finals = [r for r in resps if oracle.is_final(r)]
    # the main thread answers Interrupt requests at once (asynchronously): take those answers out
    n_int = sum(1 for r in hist if isinstance(r, dict) and r.get("method") == "interrupt")
    main_int = [r for r in finals if "interrupted" in r.get("kind", {}) and r["kind"]["interrupted"].get("stack_frame_name") is None]
    worker = [r for r in finals if r not in main_int]
    wreqs = [r for r in hist if not (isinstance(r, dict) and r.get("method") == "interrupt")]
    info = {"rc": rc, "requests": len(hist), "responses": len(finals)}
    m = re.search(r"panicked at ([^\n]*)\n([^\n]*)", err)
    if rc != 0 or len(worker) < len(wreqs):
        where = (m.group(1).split(":")[0] if m else "rc=%d" % rc)
        msg = (m.group(2) if m else err[-200:]).strip()
        slug = re.sub(r"[^A-Za-z0-9]+", "-", msg)[:50].strip("-")
        kind = "timeout" if rc == 124 else "session-died"
        return ("C09:%s:%s:%s" % (kind, where, slug),
                "session %s (exit status %d, %d final responses for %d requests): %s %s" % (
                    "timed out" if rc == 124 else "died", rc, len(finals), len(hist), m.group(1) if m else "", msg)), info
    if len(worker) != len(wreqs) or len(main_int) != n_int:
        return ("C09:response-count", "%d worker responses for %d requests, %d interrupt answers for %d interrupts" % (
            len(worker), len(wreqs), len(main_int), n_int)), info
    for i, (q, a) in enumerate(zip(wreqs, worker)):
        kinds = set(a.get("kind", {}).keys())
        exp = expected_kinds(q)
        if not (kinds & exp):
            return ("C09:response-order", "response %d has kind %s, request %s expects one of %s" % (
                i, sorted(kinds), json.dumps(q)[:120], sorted(exp))), info
        if a.get("id") is not None and isinstance(q, dict) and a["id"] != q.get("id"):
            return ("C09:response-order", "response %d carries id %s, request %d has id %s" % (i, a["id"], i, q.get("id"))), info
    last = oracle.classify(worker[-1])
    if not (last.get("kind") == "ok" and last.get("value") == "2"):
        if not (n_int and last.get("kind") in ("interrupted", "error")):
            return ("C09:canary", "the canary `1 + 1` at the end answered %s" % json.dumps(last)[:200]), info
    return None, info


def ddmin(exe, history, key):
    """Delta debugging over the request list: keep the same failure key."""
    def fails(h):
        p, _ = check_history(exe, h)
        return p is not None and p[0] == key
    cur = list(history)
    n = 2
    while len(cur) >= 2:
        chunk = max(1, len(cur) // n)
        reduced = False
        for i in range(0, len(cur), chunk):
            cand = cur[:i] + cur[i + chunk:]
            if cand and fails(cand):
                cur = cand
                n = max(n - 1, 2)
                reduced = True
                break
        if not reduced:
            if chunk == 1:
                break
            n = min(len(cur), n * 2)
    return cur


def show(r):
    return r if isinstance(r, str) else (r["input"] if r.get("method") == "run" and set(r) <= {"method", "input", "id"} else json.dumps(r))


def nontrivial(history):
    pending = False
    for r in history:
        if isinstance(r, dict) and r.get("method") == "run":
            s = r["input"]
            if s.startswith(":") and s.split(" ")[0] in (":skip", ":replace", ":resume", ":abort", ":forget_local", ":type", ":test"):
                return True
    return pending


def search(ctx, exe, histories, label):
    found = {}
    with concurrent.futures.ThreadPoolExecutor(common.NCPU) as ex:
        results = list(ex.map(lambda h: check_history(exe, h), histories))
    for h, (prob, info) in zip(histories, results):
        ctx.case({"history": [show(r) for r in h][-8:]}, nontrivial(h))
        ctx.stat(label + " histories")
        ctx.stat(label + " requests", info["requests"])
        if prob is None:
            continue
        key, what = prob
        ctx.stat(label + " failing")
        if key not in found or len(h) < len(found[key][0]):
            found[key] = (h, what)
    for key, (h, what) in sorted(found.items()):
        small = ddmin(exe, h, key)
        ctx.violation(key, what + " -- shrunk history: " + json.dumps([show(r) for r in small]),
                      {"history": small + [CANARY], "observed": what,
                       "expected": "one final response per request, in order, exit status 0, canary answers 2",
                       "cli": "garden reftest-json-session <file with one request per line>"})
    return found


# ---------------------------------------------------------------------------------------------------------------------
def run(ctx):
    ctx.trusted = [
        "Coq 8.16.1 kernel (coqc); vm_compute only in Examples",
        "coq/Machine.v and coq/Session.v are HAND-WRITTEN models of eval.rs / json_session.rs / commands.rs, tied to the code by "
        "differential execution of request histories (extracted `handle` vs `garden reftest-json-session`)",
        "Extraction (ExtrOcamlBasic) + ocaml/ops_session.ml (S-expression reader over the implementation's own parser output)",
        "cfg-gated hook `garden verif-batch` op sexp (used only to obtain syntax trees for the model)",
        "tools/vplib/oracle.py JSON stream parser; `garden reftest-json-session` as the stand-in for `garden json` (same "
        "handle_request / eval thread / channel, no Content-Length framing)",
    ]
    ctx.coq("Properties/C09.v")
    exe = ctx.impl()
    if not exe:
        return
    rng = ctx.rng
    # (a) fixed regression histories (the defects this property found)
    fixed = [
        [req_run(":skip")],
        [req_run(":skip"), req_run(":skip"), req_run(":resume"), req_run(":skip")],
        [req_run("let x = nosuch"), req_run(":skip"), req_run("let z = nosuch"), req_run(":skip")],
        [req_run(":replace 5"), req_run(":replace 5"), req_run("let x = nosuch"), req_run(":skip")],
        [req_run("fun f() { for x in [1, 2] { (\"a\") } }"), req_run("f()")],
        [req_run("1 / 0"), req_run(":skip"), req_run(":skip")],
        [req_run("g(2)")] + [req_run(":skip")] * 12,
    ]
    fixed = [[req_run(d) for d in DEFS] + h if i >= 5 else h for i, h in enumerate(fixed)]
    search(ctx, exe, fixed, "regression")
    # (b) exhaustive command pairs in the basic states
    pairs = exhaustive_pairs()
    if not ctx.thorough:
        pairs = rng.sample(pairs, 160)
    search(ctx, exe, pairs, "pairs")
    # (b') every kind of stop (each failing request of the vocabulary: operand, call, arity, parameter and return
    # annotation, method, assertion, throw, nested frames ...) followed by every two-step continuation
    sweep = []
    for fail in FAIL_TOP + FAIL_CALL:
        for c1 in (":resume", ":skip"):
            for c2 in (":resume", ":skip"):
                sweep.append([req_run(d) for d in DEFS] + [req_run("let a = 1"), req_run(fail), req_run(c1), req_run(c2),
                                                           req_run(":resume"), req_run(":abort"), req_run("f(20)")])
    search(ctx, exe, sweep, "stop-sweep")
    # (b'') a command that only LOOKS at the stopped evaluation (or evaluates something unrelated) between the stop and the
    # continuation must leave the stopped frames as they were
    observers = [":type 1 + 2", ":type g(1)", ":type 1 / 0", ":type nosuch", ":locals", ":stack", ":fvalues", ":fstmts", ":test t_ok",
                 ":test t_bad", ":doc f", ":source f", ":globals", "1 + 1", "let zz = 5", "f(3)", ":parse 1 +", ":search pr"]
    fails = FAIL_CALL if ctx.thorough else rng.sample(FAIL_CALL, 8) + ["looper(3)", "deep(3)"]
    obs_sweep = []
    for fail in fails:
        for ob in observers:
            for cont in (":resume", ":skip"):
                obs_sweep.append([req_run(d) for d in DEFS] + [req_run("let a = 1"), req_run(fail), req_run(ob), req_run(cont),
                                                               req_run(cont), req_run(":abort"), req_run("f(20)")])
    search(ctx, exe, obs_sweep, "observer-sweep")
    # (c) random state-aware histories
    n = 6000 if ctx.thorough else 260
    hs = [gen_history(rng, i) for i in range(n)]
    search(ctx, exe, hs, "random")
    # (d) correspondence with the model on the modelled part
    model_correspondence(ctx, exe, rng)


# ---------------------------------------------------------------------------------------------------------------------
# correspondence with Session.handle
M_DEFS = ("fun f(a) { a + 1 }\nfun h(x) { let hl = x 10 / x }\nfun g(n) { let loc = n * 2 let r = h(n - n) r + loc }\n"
          "fun w(n) { let i = 0 while i < n { i += 1 if i == 2 { let inblk = [i, boomvar] } } i }\nenum Col { Red, Blue(Int) }\n")
M_OK = ["1 + 2", "f(1)", "a", "[1, 2, 3]", "let i = 0 while i < 3 { i += 1 }", "if True { 1 } else { 2 }", "5 6 7", "(4)", "f(f(2))",
        "match Some(1) { Some(v) => v, None => 0 }", "a = a + 1", "let b = a * 2", "println(\"out\")", "(1, \"s\")", "Blue(2)", "Red",
        "string_repr([1, 2])", "if a > 0 { println(\"pos\") }"]
M_FAIL = ["1 / 0", "nosuch", "let q = nosuch", "[1, nosuch, 3]", "1 + nosuch", "nosuch + 1", "let w1 = 1 / 0", "(1, 2 / 0)", "a = nosuch",
          "if nosuch { 1 }", "if True { let blk = 1 nosuch }", "while nosuch { 1 }", "let i = 0 while i < 3 { i += 1 if i == 2 { nosuch } }",
          "match nosuch { Some(v) => 1 }", "match Some(0) { Some(v) => 1 / v, None => 0 }", "println(1)", "f(1, 2)", "(5)(1)", "nosuch 5",
          "1 nosuch 3", "(nosuch)", "f(nosuch)", "g(2)", "w(3)", "f(g(1))", "[g(1), 2]", "let res = g(3)", "1 + h(0)", "if True { g(1) }"]
M_CMDS = [":skip", ":skip", ":resume", ":abort", ":replace 5", ":replace nosuch", ":replace 1 / 0", ":replace g(1)", ":replace [1, 2]",
          ":forget_local a", ":forget_local loc", ":forget_local hl", ":forget_local nosuch", ":fvalues", ":locals", ":stack", ":version"]


def gen_model_history(rng):
    h = ["let a = 1"]
    for _ in range(rng.randrange(1, 4)):
        k = rng.randrange(4)
        if k <= 1:
            h.append(rng.choice(M_FAIL))
        elif k == 2:
            h.append(rng.choice(M_OK))
        for _ in range(rng.randrange(1, 5)):
            r = rng.random()
            if r < 0.6:
                h.append(rng.choice(M_CMDS))
            elif r < 0.8:
                h.append(rng.choice(M_OK))
            else:
                h.append(rng.choice(M_FAIL))
    return h


def impl_line(c):
    """Canonical response line, same format as the OCaml op `session`."""
    k = c.get("kind")
    if k == "ok":
        return "ok:" + common.hexs(c.get("value") if c.get("value") is not None else "")
    if k == "error":
        p = c.get("position")
        if c.get("err_kind") == "exception" and p:
            return "exception:%d:%d" % (p[0], p[1])
        return "error:" + str(c.get("err_kind"))
    if k == "command":
        return "command"
    return str(k)


def model_lines(line):
    return line.split("|") if line else []


def model_correspondence(ctx, exe, rng):
    mdl = ctx.model("session")
    if not mdl:
        return
    n = 1500 if ctx.thorough else 120
    hists = [gen_model_history(rng) for _ in range(n)]
    # the :skip-with-nothing-pending history and friends first
    hists = [[":skip", "1 + 1"], ["let x = nosuch", ":skip", "let z = nosuch", ":skip", "z"], ["1 / 0", ":replace 5", ":replace 5", ":skip"],
             ["g(2)", ":skip", ":skip", ":skip", ":skip", ":skip"], ["g(2)", "loc", ":resume"], ["g(2)", ":abort", ":resume", "loc"]] + hists
    # syntax trees from the implementation's own parser
    srcs = [M_DEFS]
    index = []
    for h in hists:
        for s in h:
            if s.startswith(":replace "):
                index.append(len(srcs))
                srcs.append(s[len(":replace "):])
            elif not s.startswith(":"):
                index.append(len(srcs))
                srcs.append(s)
    sx = oracle.batch(exe, [{"op": "sexp", "src": s, "positions": True} for s in srcs], timeout=900)

    def items(i):
        r = sx[i]
        if r.get("items") is None or r.get("errors"):
            return None
        return "\n".join(r["items"])
    defs = items(0)
    lines = []
    k = 1
    usable = []
    for h in hists:
        fields = ["session", "200000", "11", common.hexs(defs)]
        ok = True
        for s in h:
            if s.startswith(":replace "):
                it = items(k)
                k += 1
                if it is None:
                    ok = False
                fields.append("replace:" + common.hexs(it or ""))
            elif s.startswith(":forget_local "):
                fields.append("forget_local:" + common.hexs(s.split(" ", 1)[1]))
            elif s.startswith(":"):
                fields.append({":skip": "skip", ":resume": "resume", ":abort": "abort"}.get(s, "inspect"))
            else:
                it = items(k)
                k += 1
                if it is None:
                    ok = False
                fields.append("run:" + common.hexs(it or ""))
        usable.append(ok)
        lines.append("\t".join(fields))
    rc, model, err = common.run_lines(mdl, [], lines, timeout=900, shards=common.NCPU)

    def run_impl(h):
        rs, died, err, rc = oracle.run_history(exe, [req_run(M_DEFS)] + [req_run(s) for s in h])
        return rs[1:], died
    with concurrent.futures.ThreadPoolExecutor(common.NCPU) as ex:
        impl = list(ex.map(run_impl, hists))
    bad = []
    for i, h in enumerate(hists):
        ml = model[i] if i < len(model) else "<missing>"
        rs, died = impl[i]
        il = "|".join(impl_line(c) for c in rs)
        if died:
            il += "|DIED"
        if not usable[i] or ml.startswith("unsupported") or "unsupported" in ml:
            ctx.stat("model outside-model")
            continue
        if "outoffuel" in ml:
            ctx.stat("model out-of-fuel")
            continue
        parts = ml.split("\t")
        ml_resp, wf = parts[0], (parts[1] if len(parts) > 1 else "?")
        ctx.stat("model compared")
        ctx.stat("model wf-flags:" + wf)
        ctx.case({"model_history": h}, True)
        if ml_resp != il:
            bad.append({"history": h, "impl": il, "model": ml_resp})
    if bad:
        ctx.broken("correspondence:session", "%d of %d histories differ, e.g. %s" % (len(bad), len(hists), json.dumps(bad[:2])[:1500]))
        ctx.cov.setdefault("corr_mismatches", []).extend(bad[:5])


def replay(ctx, rp):
    exe = ctx.impl()
    if "history" in rp:
        hist = [r for r in rp["history"]]
        resps, err, rc = run_raw(exe, hist)
        for r in resps:
            if oracle.is_final(r):
                print(json.dumps(oracle.classify(r))[:300])
        print("exit status", rc, "final responses", len([r for r in resps if oracle.is_final(r)]), "requests", len(hist))
        m = re.search(r"panicked at ([^\n]*)\n([^\n]*)", err)
        if m:
            print(m.group(0))
        return 1 if rc != 0 else 0
    return 0
