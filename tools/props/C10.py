"""C10 -- `:abort` returns the session to a clean top level."""
from vplib import common, oracle, machine, genprog

LEVEL = "proof"
RULE = ("Coq: Properties/C10.v (abort_clean, abort_then_resume, abort_keeps_toplevel_scope, abort_forgets_evaluation). "
        "Dynamic: generated histories = definitions + successful toplevel lets + an evaluation that stops (runtime error, or "
        "an interrupt at a random tick) inside nested calls, loops and blocks; then `:abort`; then probes (`:resume`, every "
        "local of the aborted computation, every toplevel variable, calls of the definitions). The answers must equal those "
        "of a FRESH session that only received the definitions and the successful lets. Also differential: hook run+abort vs "
        "the extracted model (frame shapes after abort, outcome of the following resume). Non-trivial = the evaluation "
        "stopped with at least 2 frames or 2 binding blocks or pending values.")
META = {
    "technique": "Coq proof on the evaluator/session model + differential execution + history search against a fresh session on the binary",
    "level_text": ("Coq theorems over ANY machine state: after :abort exactly one frame is left with no pending expression, no "
                   "pending bindings, only the first value and only the toplevel binding block (toplevel variables kept "
                   "unchanged); :resume then returns at once; two states with the same toplevel scope are indistinguishable "
                   "after :abort. Tied to Stack::pop_to_toplevel by differential execution and by comparing real JSON "
                   "sessions after :abort with fresh sessions."),
    "level_note": ("Trusted: Coq kernel; hand-written model (Machine.v, MachineSession.v) tied by correspondence testing; "
                   "definitions/namespaces/types of the session (env.types, namespaces, prev_call_args) are not part of the "
                   "model: their being untouched by :abort is checked by the fresh-session comparison only."),
    "design_ref": "DESIGN.md section 5 C10",
}

DEFS = ('fun inner(n) {\n  let loc_inner = n * 2\n  let k = 0\n  while k < 3 {\n    k += 1\n    if k == 2 {\n      let loc_deep = [k, STOP]\n    }\n  }\n  loc_inner\n}\n'
        'fun outer(a) {\n  let loc_outer = a + 1\n  for e in [1, 2] {\n    let loc_for = match Some(e) { Some(v) => inner(v + loc_outer), None => 0 }\n  }\n  loc_outer\n}\n')
STOPS = ["1 / 0", "nosuchvar", '1 + "a"', "println(1)", "(5)(1)", "[1].get(\"x\")"]
LOCALS = ["loc_inner", "loc_deep", "loc_outer", "loc_for", "k", "e", "v", "n", "a"]


def history(rng):
    stop = rng.choice(STOPS)
    lets = []
    nl = rng.randrange(1, 4)
    for i in range(nl):
        lets.append("let top%d = %s" % (i, rng.choice(["%d" % rng.randrange(100), '"s%d"' % i, "[%d, 2]" % i, "Some(%d)" % i])))
    shape = rng.randrange(7)
    if shape == 4:
        # the evaluation stops with NO call frame in flight: nested blocks written directly at the toplevel
        failing = "if True { let secret = 20 for nn in [1, 2] { let top0 = 99 let inblk = %s } }" % stop
    elif shape == 5:
        failing = "for cnt in [1, 2, 3] { match Some(cnt) { Some(mm) => { let deep = [mm, %s] } None => { 0 } } }" % stop
    elif shape == 6:
        failing = "let whole = [1, (2, %s)]" % stop
    elif shape == 0:
        failing = "outer(%d)" % rng.randrange(5)
    elif shape == 1:
        failing = "let res = [outer(1), 2]"
    elif shape == 2:
        failing = "if True { let blk = 1 while True { let inloop = outer(blk) } }"
    else:
        failing = "let t2 = (1, match Some(3) { Some(w) => outer(w), None => 0 })"
    return DEFS.replace("STOP", stop), lets, failing


def responses(exe, reqs):
    rs, died, err, rc = oracle.run_history(exe, [{"method": "run", "input": r} for r in reqs])
    return rs, died, err


def norm(x):
    m = x.get("message", "")
    return (x.get("kind"), x.get("err_kind"), x.get("value"), m.split("\n")[0], x.get("stdout"))


def run(ctx):
    ctx.trusted = machine.TRUSTED
    ctx.coq("Properties/C10.v")
    exe = ctx.impl()
    if not exe:
        return
    rng = ctx.rng
    n = 120 if ctx.thorough else 30
    hist = [history(rng) for _ in range(n)]
    # (a) model correspondence: run until the error, abort, resume
    srcs = []
    for defs, lets, failing in hist:
        # the model has no list methods: keep only histories in the modelled fragment for the differential part
        srcs.append(defs + "\n".join(lets) + "\n" + failing + "\n")
    res = machine.correspondence(ctx, srcs, "abort", resume=0, abort=True, tick_limit=50000, fuel=150000)
    for r in res:
        raw = r["impl_raw"]
        fr = raw.get("frames") or []
        nontrivial = bool(fr) and (len(fr[0]) > 1 or any(f["blocks"] > 1 or f["todo"] > 0 for f in fr[0]))
        ctx.case({"src": r["src"][-160:], "frames_at_stop": fr[0] if fr else None, "frames_after_abort": fr[1] if len(fr) > 1 else None}, nontrivial)
        if len(fr) >= 2:
            a = fr[1]
            if len(a) != 1 or a[0]["todo"] != 0 or a[0]["values"] != 1 or a[0]["blocks"] != 1 or a[0]["next"] != 0:
                ctx.violation("C10:abort-leaves-state", "after pop_to_toplevel the stack is %s (expected one frame, 1 value, 1 block, nothing pending)" % a,
                              {"input": r["src"], "observed": a})
            outs = raw.get("outcomes") or []
            if outs and not (outs[-1].get("kind") == "ok" and outs[-1].get("value") in ("Unit", None)):
                ctx.violation("C10:resume-after-abort", ":resume after :abort gives %s instead of finishing at once" % outs[-1],
                              {"input": r["src"], "observed": outs[-1]})
    # (b) real sessions vs fresh sessions
    for defs, lets, failing in (hist if ctx.thorough else hist[:18]):
        probes = [":resume"] + LOCALS + ["blk", "inloop", "res", "t2", "w", "secret", "nn", "inblk", "mm", "deep", "whole", "cnt"] + ["top%d" % i for i in range(len(lets))] + \
                 ["inner", "1 + 1", ":locals", ":stack", ":fstmts", ":fvalues"]
        a_reqs = [defs] + lets + [failing, ":abort"] + probes
        b_reqs = [defs.replace("STOP", "0")] + lets + probes
        ra, da, ea = responses(exe, a_reqs)
        rb, db, eb = responses(exe, b_reqs)
        ctx.case({"history": a_reqs[1:len(lets) + 3]}, True)
        if da or db:
            ctx.violation("C10:session-died", "session died: %s" % (ea or eb)[-300:], {"history": a_reqs})
            continue
        pa = ra[len(lets) + 3:]
        pb = rb[len(lets) + 1:]
        if len(pa) != len(probes) or len(pb) != len(probes):
            ctx.violation("C10:response-count", "expected %d probe answers, got %d / %d" % (len(probes), len(pa), len(pb)), {"history": a_reqs})
            continue
        for pr, x, y in zip(probes, pa, pb):
            if pr == "inner":
                continue            # prints a source position that differs between the two definitions texts
            if norm(x) != norm(y):
                ctx.violation("C10:probe-differs:" + (pr if pr.startswith(":") else ("local" if pr in LOCALS else "expr")),
                              "after :abort `%s` answers %s, a fresh session answers %s" % (pr, norm(x), norm(y)),
                              {"history": a_reqs, "fresh_history": b_reqs, "probe": pr, "observed": norm(x), "expected": norm(y)})
    two_namespace_stage(ctx, exe, hist if ctx.thorough else hist[:10])


def two_namespace_stage(ctx, exe, hist):
    """Definitions in two files (`path` of the run request); the evaluation starts in main.gdn and stops inside a function
    of lib.gdn; things are evaluated in the stopped context; `:abort`; the probes must answer as in a fresh session that
    has the same definitions and toplevel variables (they are evaluated in main.gdn's namespace again)."""
    LIB, MAIN = "/c10-two/lib.gdn", "/c10-two/main.gdn"
    for defs, lets, failing in hist:
        def req(src, path=None):
            r = {"method": "run", "input": src}
            if path:
                r["path"] = path
            return r
        incontext = ["loc_outer", "1 + 1", "let tmp_ctx = 3"]
        probes = ["main_only() + 1", ":resume", "main_only()", "lib_entry", "tmp_ctx", "loc_outer", "1 + 1"] + \
                 ["top%d" % i for i in range(len(lets))]
        common_defs = lambda d: [req(d, LIB), req("let lib_entry = outer", LIB), req("fun main_only() { 42 }", MAIN)] + \
            [req(l, MAIN) for l in lets]
        a = common_defs(defs) + [req("main_only() + lib_entry(1)", MAIN)] + [req(x) for x in incontext] + [req(":abort")] + \
            [req(x) for x in probes]
        b = common_defs(defs.replace("STOP", "0")) + [req(x) for x in probes]
        ra, da, ea, _ = oracle.run_history(exe, a)
        rb, db, eb, _ = oracle.run_history(exe, b)
        ctx.case({"history": "two namespaces: stop in lib.gdn from main.gdn, in-context evals, :abort, probes"}, True)
        ctx.stat("two-namespace histories")
        if da or db:
            ctx.violation("C10:session-died", "session died: %s" % (ea or eb)[-300:], {"requests": a})
            continue
        pa, pb = ra[len(a) - len(probes):], rb[len(b) - len(probes):]
        if len(pa) != len(probes) or len(pb) != len(probes):
            ctx.violation("C10:response-count", "expected %d probe answers, got %d / %d" % (len(probes), len(pa), len(pb)), {"requests": a})
            continue
        for pr, x, y in zip(probes, pa, pb):
            if pr in ("tmp_ctx", "lib_entry"):
                continue        # tmp_ctx was defined in the aborted context only; lib_entry prints a source position
            if norm(x) != norm(y):
                ctx.violation("C10:probe-differs:two-namespaces",
                              "after :abort `%s` answers %s, a fresh session answers %s" % (pr, norm(x), norm(y)),
                              {"requests": a, "fresh_requests": b, "probe": pr, "observed": norm(x), "expected": norm(y)})
                break


def replay(ctx, rp):
    exe = ctx.impl()
    if "requests" in rp:
        for name in ("requests", "fresh_requests"):
            rs, died, err, rc = oracle.run_history(exe, rp.get(name) or [])
            print(name, [norm(r) for r in rs][-10:], died)
        return 0
    if "history" in rp:
        rs, died, err = responses(exe, rp["history"])
        for r in rs:
            print(norm(r))
    return 0
