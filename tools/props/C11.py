"""C11 -- Incremental session input equals running it as one program."""
import concurrent.futures
import json
import re

from vplib import common, oracle, genprog

LEVEL = "proof"
RULE = ("Coq: Properties/C11.v (run_keeps_scope, toplevel_lets_persist; incremental_eq_batch_partial is the general theorem for "
        "run-request histories of the C05 fragment, incremental_eq_batch_partial_instance/_all_splits are checked instances). Dynamic: generated error-free histories of 1..8 inputs mixing "
        "function / enum / struct / method definitions, toplevel lets, assignments and updates of toplevel variables, loops "
        "(while, for), blocks, calls and expressions (genprog pieces), each name defined at most once; each history is run "
        "through the real JSON session incrementally (one request per input) and as one request (inputs joined by newlines): "
        "the value reported for the last input and the concatenated stdout must be equal; a final `:locals`-free probe of "
        "every toplevel variable is compared too. Histories whose runs are not error-free are discarded (counted), except when the batch run is "
        "error-free and the first failing incremental request fails on an unknown name that an earlier, successfully "
        "answered request defined (methods are also sent before their receiver type): that is the property's "
        "'definitions persist' sentence failing (violation kind definition-lost). "
        "Correspondence with the model (Session.handle) for histories in the modelled fragment. Non-trivial = at least 2 "
        "inputs and at least one toplevel variable or definition used by a later input.")
META = {
    "technique": "Coq proof on the session model (persistence lemmas + checked instances) + differential execution of "
                 "incremental vs batch histories on the real JSON session",
    "level_text": ("Coq theorems over the session model: a `run` request only replaces the pending expressions of the current "
                   "frame, so bindings, values and output are exactly what the previous request left (run_keeps_scope); a "
                   "toplevel `let` leaves its binding in the toplevel block where every later request reads it "
                   "(toplevel_lets_persist). The equality incremental = batch itself is machine-checked only on instances "
                   "(one four-input history and all its splits) and otherwise established by differential execution on the "
                   "binary over generated error-free histories. "
                   "UPDATE: the GENERAL theorem now exists: incremental_eq_batch_partial (coq/RefineSession.v, pinned in "
                   "Properties/C11.v), derived from the C05 refinement of the reference semantics Ref.v. It covers every "
                   "history of `run` requests whose inputs are non-empty lists of toplevel expressions of Refine.in_fragment "
                   "(the whole modelled core language except break/continue outside statement position) with the parser's "
                   "value_is_used annotation, static well-formed definitions, no limits/interrupts, that Ref.v evaluates "
                   "without error and that the session answers with values leaving nothing pending: then the values reported "
                   "request by request are Ref.v's, the single request with all inputs reports the last of them, and both runs "
                   "print the same output (ref_incremental_eq_batch_partial: Ref.v threads its state through a concatenation). "
                   "Histories with definitions between requests, errors or other commands remain differential testing."),
    "level_note": ("PARTIAL. Theorems: persistence of the toplevel scope across requests on the model, and the general incremental = "
                   "batch statement for run-request histories of the C05 fragment with static definitions (partial correctness: "
                   "the reference must evaluate the inputs and the session must answer values and be idle after each request). "
                   "Definitions are static in the model (loading definitions, namespaces, tests are outside it and "
                   "covered by the differential runs only). Trusted: Coq kernel; Machine.v / Session.v tied to the code by "
                   "differential execution."),
    "design_ref": "DESIGN.md section 5 C11",
}

HINT = {"Int": "Int", "Bool": "Bool", "Str": "String", "ListInt": "List<Int>", "OptInt": "Option<Int>"}


def gen_history(rng, idx):
    """Returns (inputs, vars) -- error-free by construction (validated by running)."""
    g = genprog.Gen(rng, size=4, p_err=0.0, features={"fun", "match", "for", "while", "list", "tuple", "enum", "break", "return"})
    n = rng.randrange(1, 9)
    inputs = []
    n_struct = 0
    n_enum = 0
    for i in range(n):
        k = rng.randrange(12)
        if k <= 1:
            inputs.append(g.fun())
        elif k == 2:
            n_enum += 1
            inputs.append("enum En%d_%d { Aa%d_%d, Bb%d_%d(Int) }" % (idx, n_enum, idx, n_enum, idx, n_enum))
        elif k == 3:
            n_struct += 1
            sd = "struct St%d_%d { fld: Int }" % (idx, n_struct)
            md = "method twice%d(this: St%d_%d): Int { this.fld * 2 }" % (n_struct, idx, n_struct)
            order = rng.randrange(3)       # one request / type first / method first (forward-declared receiver type)
            if order == 0:
                inputs.append(sd + "\n" + md)
            elif order == 1:
                inputs += [sd, md]
            else:
                inputs += [md, sd]
            v = g.fresh()
            g.scopes[0][v] = "Int"
            inputs.append("let %s = St%d_%d{ fld: %s }.twice%d()" % (v, idx, n_struct, g.expr("Int", 2), n_struct))
        elif k <= 6:
            ty = g.pick(genprog.TYPES)
            v = g.fresh()
            e = g.expr(ty, 1)
            g.scopes[0][v] = ty
            inputs.append("let %s = %s" % (v, e))
        elif k == 7:
            vs = g.vars_of("Int")
            if vs:
                inputs.append("%s = %s" % (g.pick(vs), g.expr("Int", 1)))
            else:
                inputs.append(g.expr("Int", 1))
        elif k == 8:
            vs = g.vars_of("Int")
            if vs:
                inputs.append("%s %s %s" % (g.pick(vs), g.pick(["+=", "-="]), g.expr("Int", 2)))
            else:
                inputs.append(g.expr("Bool", 1))
        elif k == 9:
            # statements (loops, ifs, matches, prints) that may update toplevel variables
            st = g.stmt(0, False, False, None)
            inputs.append(st)
        elif k == 10:
            vs = g.vars_of("Int")
            acc = g.pick(vs) if vs else None
            if acc:
                inputs.append("for it%d in %s { %s = %s + it%d }" % (i, g.expr("ListInt", 1), acc, acc, i))
            else:
                inputs.append("for it%d in [1, 2] { println(string_repr(it%d)) }" % (i, i))
        else:
            inputs.append(g.expr(g.pick(genprog.TYPES), 1))
    # the last input is an expression that reads the toplevel state
    vs = [v for sc in g.scopes for v in sc]
    if vs and rng.random() < 0.8:
        inputs.append("(%s)" % ", ".join(rng.sample(vs, min(len(vs), 4))) if rng.random() < 0.5 else "[%s]" % ", ".join(
            "string_repr(%s)" % v for v in rng.sample(vs, min(len(vs), 4))))
    else:
        inputs.append(g.expr(g.pick(genprog.TYPES), 1))
    return inputs, vs


def run_inputs(exe, reqs):
    rs, died, err, rc = oracle.run_history(exe, [{"method": "run", "input": r} for r in reqs])
    return rs, died, err


OBSERVERS = [{"method": "eval_up_to", "src": "struct Zq9 { x: Int }", "offset": 3},
             {"method": "eval_up_to", "src": "enum Eq9 { Aq9 }", "offset": 2},
             {"method": "eval_up_to", "src": "1 + 2", "offset": 2},
             {"method": "eval_up_to", "src": "for oq9 in [1, 2] { oq9 }", "offset": 18},
             {"method": "run", "input": ":type 1 + 2"}, {"method": "run", "input": ":locals"}, {"method": "run", "input": ":doc print"},
             {"method": "run", "input": ":parse 1 +"}, {"method": "run", "input": ":namespace"}]


def run_inputs_observed(exe, reqs, salt):
    """Like run_inputs, but requests that only LOOK at the session (eval-up-to on text that is not part of the program,
    read-only commands) are interleaved; their answers are dropped. `Nothing else changes between requests.`"""
    import random
    r = random.Random(salt)
    full, keep = [], []
    for q in reqs:
        while r.random() < 0.3:
            full.append(dict(r.choice(OBSERVERS)))
        keep.append(len(full))
        full.append({"method": "run", "input": q})
    rs, died, err, rc = oracle.run_history(exe, full)
    return [rs[i] for i in keep if i < len(rs)], died, err


def compare(exe, inputs, vs):
    probe = "[%s]" % ", ".join("string_repr(%s)" % v for v in vs) if vs else "0"
    inc, d1, e1 = run_inputs_observed(exe, inputs + [probe], __import__('zlib').crc32("\n".join(inputs).encode()) & 0xffff)
    bat, d2, e2 = run_inputs(exe, ["\n".join(inputs), probe])
    return inc, d1, e1, bat, d2, e2


def value_of(c):
    """The value of the last expression as reported (strip the definition summary)."""
    v = c.get("value")
    if v is None:
        return None
    marker = "and the expression evaluated to "
    if marker in v:
        v = v.split(marker, 1)[1]
        if v.endswith("."):
            v = v[:-1]
    return v


def has_exprs(src):
    return True


_NO_SUCH = re.compile(r"(?:No such (?:variable|function|type|method)|no method named|Unbound \w+) `([A-Za-z_][A-Za-z0-9_]*)`")


def definition_lost(inputs, inc):
    """The property's second sentence: definitions and toplevel variables persist from one request to the next. If the
    FIRST failing request of the incremental run fails because a name is unknown although an EARLIER request that
    defined it was answered without error, the definition did not persist: returns a description, else None."""
    for j, c in enumerate(inc[:len(inputs)]):
        if c.get("kind") == "ok":
            continue
        m = _NO_SUCH.search(c.get("message") or "")
        if not m:
            return None
        name = m.group(1)
        d = re.compile(r"\b(?:fun|method|struct|enum|let)\s+%s\b" % re.escape(name))
        for i in range(j):
            if d.search(inputs[i]):
                return ("request %d `%s` fails with %r although request %d `%s` defined `%s` and was answered %r"
                        % (j, inputs[j][:80], c.get("message"), i, inputs[i][:80], name, inc[i].get("value")))
        return None
    return None


def check_one(exe, item):
    inputs, vs = item
    inc, d1, e1, bat, d2, e2 = compare(exe, inputs, vs)
    if d1 or d2 or len(inc) != len(inputs) + 1 or len(bat) != 2:
        return ("died", "session died or lost responses: %s" % (e1 or e2)[-300:])
    if any(c.get("kind") != "ok" for c in inc) or any(c.get("kind") != "ok" for c in bat):
        lost = definition_lost(inputs, inc)
        if lost and all(c.get("kind") == "ok" for c in bat):
            return ("definition-lost", lost)
        return ("not-error-free", None)
    vi, vb = value_of(inc[-2]), value_of(bat[0])
    if vb is not None and vb.startswith("Loaded ") and "evaluated to" not in (bat[0].get("value") or ""):
        vb = None
    if vi is not None and vi.startswith("Loaded ") and "evaluated to" not in (inc[-2].get("value") or ""):
        vi = None
    so_i = "".join(c.get("stdout", "") for c in inc[:-1])
    so_b = bat[0].get("stdout", "")
    if vi != vb:
        return ("value", "last input `%s`: incremental value %r, batch value %r" % (inputs[-1][:80], vi, vb))
    if so_i != so_b:
        return ("stdout", "stdout differs: incremental %r, batch %r" % (so_i[-200:], so_b[-200:]))
    if inc[-1].get("value") != bat[1].get("value"):
        return ("state", "toplevel variables afterwards differ: incremental %r, batch %r" % (inc[-1].get("value"), bat[1].get("value")))
    return ("ok", None)


def shrink(exe, inputs, vs, kind):
    cur = list(inputs)
    changed = True
    while changed and len(cur) > 1:
        changed = False
        for i in range(len(cur)):
            cand = cur[:i] + cur[i + 1:]
            if cand and check_one(exe, (cand, vs))[0] == kind:
                cur = cand
                changed = True
                break
    return cur


FIXED = [
    (["let t = 0", "for x in [1, 2] { t = t + x }", "t"], ["t"]),
    (["let t = 0", "for x in [1, 2] { t = t + x }"], ["t"]),
    (["fun f(a) { a * 2 }", "let a = f(2)", "a = a + 1", "f(a)"], ["a"]),
    (["let a = 1", "f2(a)\nfun f2(z) { z + 1 }"], ["a"]),
    (["let i = 0 while i < 3 { i += 1 }", "i"], ["i"]),
    (["enum E { A, B(Int) }", "let e = B(2)", "match e { B(n) => n, A => 0 }"], ["e"]),
    (["struct P { x: Int }", "let p = P{ x: 1 }", "p.x"], ["p"]),
    (["let a = 1", "{ let inner = 5 a = inner }", "a"], ["a"]),
    (["let a = 1", "(a)", "a + 1"], ["a"]),
    (["struct Q { n: Int }", "method inc(this: Q): Int { this.n + 1 }", "let q = Q{ n: 41 }", "q.inc()"], []),
    (["method inc2(this: Q2): Int { this.n + 1 }", "struct Q2 { n: Int }", "let q2 = Q2{ n: 41 }", "q2.inc2()"], []),
    (["method idx(this: Sh): Int { match this { Ci(r) => r, Sq => 0 } }", "enum Sh { Ci(Int), Sq }", "Ci(7).idx()"], []),
]


def run(ctx):
    ctx.trusted = [
        "Coq 8.16.1 kernel (coqc); vm_compute only in Examples",
        "coq/Machine.v and coq/Session.v are HAND-WRITTEN models tied to the code by differential execution (see C09)",
        "tools/vplib/oracle.py (JSON session driver, response classification); tools/vplib/genprog.py (program generator)",
        "`garden reftest-json-session` as the stand-in for `garden json`",
    ]
    ctx.coq("Properties/C11.v")
    exe = ctx.impl()
    if not exe:
        return
    rng = ctx.rng
    n = 2500 if ctx.thorough else 160
    items = list(FIXED) + [gen_history(rng, i) for i in range(n)]
    with concurrent.futures.ThreadPoolExecutor(common.NCPU) as ex:
        results = list(ex.map(lambda it: check_one(exe, it), items))
    seen = set()
    for (inputs, vs), (kind, what) in zip(items, results):
        ctx.stat("history " + kind)
        ctx.stat("inputs %d" % len(inputs))
        if kind == "not-error-free":
            continue
        ctx.case({"inputs": inputs}, len(inputs) >= 2 and bool(vs))
        if kind == "ok":
            continue
        if kind in seen:
            continue
        seen.add(kind)
        small = shrink(exe, inputs, vs, kind)
        k2, w2 = check_one(exe, (small, vs))
        ctx.violation("C11:incremental-vs-batch:" + kind, (w2 or what) + " -- history: " + json.dumps(small),
                      {"history": small, "vars": vs, "observed": w2 or what,
                       "expected": "the value reported for the last input, the stdout and the toplevel variables are the same "
                                   "whether the inputs are sent one request at a time or joined by newlines in one request"})
    model_correspondence(ctx, exe, rng)


# ---------------------------------------------------------------------------------------------------------------------
M_DEFS = "fun f(a) { a * 2 }\nfun g(n) { let loc = n + 1 f(loc) }\nenum Col { Red, Blue(Int) }\n"
M_INPUTS = ["let a = 1", "let b = a + 2", "a = a + 1", "a += 3", "f(a)", "g(a) + 1", "[a, 2]", "let c = f(a)", "if a > 2 { a = 0 }",
            "let i = 0 while i < 3 { i += 1 a += i }", "(a, \"s\")", "Blue(a)", "match Blue(a) { Blue(n) => n, Red => 0 }", "a 5",
            "println(string_repr(a))", "let d = [f(1), g(2)]", "string_repr(a)"]


def model_correspondence(ctx, exe, rng):
    """Incremental and batch on the extracted model; both must equal the binary's answers."""
    mdl = ctx.model("session")
    if not mdl:
        return
    n = 400 if ctx.thorough else 60
    hists = []
    for _ in range(n):
        k = rng.randrange(1, 6)
        h = ["let a = 1"] + [rng.choice(M_INPUTS[1:]) for _ in range(k)] + [rng.choice(["a", "f(a)", "a + 1", "[a, a]"])]
        # each name defined at most once
        seen, ok = set(), True
        for s in h:
            if s.startswith("let "):
                nm = s.split(" ")[1]
                if nm in seen:
                    ok = False
                seen.add(nm)
        if not ok:
            continue
        # variables must be defined before use
        if any(("b" in s.replace("Blue", "") and "let b" not in "\n".join(h[:i + 1])) for i, s in enumerate(h) if "let b" not in s and " b" in s):
            continue
        hists.append(h)
    srcs = [M_DEFS]
    for h in hists:
        srcs.extend(h)
        srcs.append("\n".join(h))
    sx = oracle.batch(exe, [{"op": "sexp", "src": s, "positions": True} for s in srcs], timeout=900)

    def items(i):
        r = sx[i]
        if r.get("items") is None or r.get("errors"):
            return None
        return "\n".join(r["items"])
    defs = items(0)
    lines, k = [], 1
    for h in hists:
        inc = ["session", "300000", "11", common.hexs(defs)]
        for s in h:
            inc.append("run:" + common.hexs(items(k) or ""))
            k += 1
        bat = ["session", "300000", "11", common.hexs(defs), "run:" + common.hexs(items(k) or "")]
        k += 1
        lines.append("\t".join(inc))
        lines.append("\t".join(bat))
    rc, model, err = common.run_lines(mdl, [], lines, timeout=900, shards=common.NCPU)

    def run_impl(h):
        a, d1, _ = run_inputs(exe, [M_DEFS] + h)
        b, d2, _ = run_inputs(exe, [M_DEFS, "\n".join(h)])
        return a[1:], b[1:]
    with concurrent.futures.ThreadPoolExecutor(common.NCPU) as ex:
        impl = list(ex.map(run_impl, hists))

    def line(c):
        if c.get("kind") == "ok":
            return "ok:" + common.hexs(c.get("value") if c.get("value") is not None else "")
        p = c.get("position")
        return "exception:%d:%d" % (p[0], p[1]) if p else "error"
    bad = []
    for i, h in enumerate(hists):
        mi = (model[2 * i] if 2 * i < len(model) else "<missing>").split("\t")[0]
        mb = (model[2 * i + 1] if 2 * i + 1 < len(model) else "<missing>").split("\t")[0]
        if "unsupported" in mi or "unsupported" in mb or "outoffuel" in mi or "outoffuel" in mb:
            ctx.stat("model outside-model")
            continue
        ii = "|".join(line(c) for c in impl[i][0])
        ib = "|".join(line(c) for c in impl[i][1])
        ctx.stat("model compared")
        ctx.case({"model_history": h}, True)
        if mi != ii or mb != ib:
            bad.append({"history": h, "impl_incremental": ii, "model_incremental": mi, "impl_batch": ib, "model_batch": mb})
        elif mi.split("|")[-1] != mb.split("|")[-1]:
            ctx.stat("model incremental!=batch")
            ctx.broken("model:incremental-vs-batch", json.dumps({"history": h, "incremental": mi, "batch": mb})[:800])
    if bad:
        ctx.broken("correspondence:session", "%d of %d histories differ, e.g. %s" % (len(bad), len(hists), json.dumps(bad[:2])[:1500]))
        ctx.cov.setdefault("corr_mismatches", []).extend(bad[:5])


def replay(ctx, rp):
    exe = ctx.impl()
    if "history" in rp:
        kind, what = check_one(exe, (rp["history"], rp.get("vars") or []))
        print(kind, what)
        return 0 if kind in ("ok", "not-error-free") else 1
    return 0
