"""C12 -- Printed values read back as equal values (string part: proof; other literal values: search)."""
import decimal
import json
import struct

from vplib import common, oracle
from props import C01 as L

LEVEL = "proof"
RULE = ("Coq: Properties/C12.v (string_token_roundtrip for ALL strings and ALL following text, printed_string_is_one_token, "
        "printed_string_lexes over coq/Lex.v; literal_roundtrip_partial for ALL values of the literal fragment over "
        "coq/ReadLit.v). Dynamic: (0) the literal reader model vs the real parser: on the text garden prints for generated "
        "values of the fragment, on edge cases and on mutated texts, whenever the model reads a value the hook op `sexp` "
        "must give exactly that tree with no errors, the model must read every printed value of the fragment as the value "
        "that was printed, and the model's `show` must equal what garden printed; (1) model `escape` vs what the implementation prints for a string "
        "value, model `unescape` vs what the implementation reads from a string token, and the real lexer on "
        "`printed string ++ rest` (the token must be exactly the printed string); (2) generated literal values V "
        "(strings over an alphabet with quote, backslash, newline, tab, 2/3/4-byte chars; nested lists / tuples / "
        "1-tuples / Option / Result / Bool / Unit / dicts / structs; ints incl. i64::MIN; finite floats incl. -0.0, "
        "1e300, 5e-324): T1 = println(string_repr(V)), then T1 is evaluated as source and printed again (T2): T1 must "
        "be valid source, T2 must equal T1, T1 must equal the literal form of V computed independently in Python "
        "(values without dicts), and for strings `print(T1)` must give back the raw characters. A case is non-trivial "
        "when V contains a character that needs escaping, a non-ASCII character, a boundary number or nesting.")
META = {
    "technique": ("Coq proof over executable models of escape_string_literal / STRING_RE / unescape_string + differential "
                  "execution of the extracted models vs the binary + print/read/print fixed-point search on the binary"),
    "level_text": ("LITERAL FRAGMENT (proved): Coq theorem literal_roundtrip_partial: for ALL values built from i64 integers "
                   "(incl. i64::MIN), strings over all scalar values, True/False/Unit/None, Some/Ok/Err, lists and tuples "
                   "(incl. 1-tuples and the empty tuple), nested to any depth: the printed text lexes with no errors into "
                   "tokens that the literal reader (model of the parser's success paths: parse_integer with `_` and the "
                   "i64 range, unescape_string, tuple / list / call parsing) turns back into exactly that value. "
                   "STRING PART (proved): Coq theorem string_token_roundtrip: for ALL strings s (any scalar values) and ALL "
                   "following text, the STRING scanner applied to `escape s ++ rest` consumes exactly `escape s`, and "
                   "unescape (escape s) = s with no diagnostics; in any context the lexer iteration at a printed string "
                   "yields exactly that token; the whole lexer on a printed string yields one token. NOT proved: floats, dicts, structs (outside the "
                   "fragment; search only), and the evaluator (the reader interprets True .. Err(x) as the prelude's "
                   "constructors; evaluation of literals is covered by the print/read/print search). Floats: Rust's shortest round-trip "
                   "printing/parsing is std, modelled-not-verified, search only."),
    "level_note": ("Trusted: Coq kernel; coq/Lex.v meanings of escape_string_literal, STRING_RE (as a scanner), "
                   "unescape_string; coq/ReadLit.v `show` (Value::display on the fragment) and `read_literal` (parser success paths) "
                   "-- own small value tree, not Value.v's (modelled, tied by differential runs against string_repr and hook op sexp); extraction + ocaml/ops_lex.ml; JSON session "
                   "as oracle. Equality of the re-read value is judged on PRINTED FORMS (print, read, print again: fixed "
                   "point) and, for strings, on the raw characters, NOT with Garden's `==`, because `==` on floats and "
                   "dicts is itself the subject of C13."),
    "design_ref": "DESIGN.md §5 C12, §8 item 13",
}

MIN, MAX = -2 ** 63, 2 ** 63 - 1
STR_ALPHABET = ["\"", "\\", "\n", "\t", "é", "€", "😀", "a", "b", " ", "n", "t", "\\n", "\\\\", "\\\"", "'", "{", "}", "/", "//",
                "\r", "0", "$", "`", "z"]
KEYS = ["k", "a\"", "b\\", "é", "", "x\ny"]


def py_escape(s):
    """Literal for the string s, written independently of the model (only quote, backslash, newline are escaped)."""
    return "\"" + s.replace("\\", "\\\\").replace("\"", "\\\"").replace("\n", "\\n") + "\""


def float_text(x):
    """Positional decimal notation of the shortest round-trip digits (what Rust `{}` prints), with `.0` added."""
    s = format(decimal.Decimal(repr(x)), "f")
    if "." not in s:
        s += ".0"
    return s


# values: ("str", s) ("int", n) ("float", x) ("bool", b) ("unit",) ("list", [..]) ("tuple", [..]) ("some", v) ("none",)
#         ("ok", v) ("err", v) ("dict", [(key, v)..]) ("struct", n, s)
def lit(v):
    k = v[0]
    if k == "str":
        return py_escape(v[1])
    if k == "int":
        return str(v[1])
    if k == "float":
        return float_text(v[1])
    if k == "bool":
        return "True" if v[1] else "False"
    if k == "unit":
        return "Unit"
    if k == "list":
        return "[" + ", ".join(lit(x) for x in v[1]) + "]"
    if k == "tuple":
        return "(" + ", ".join(lit(x) for x in v[1]) + ("," if len(v[1]) == 1 else "") + ")"
    if k == "some":
        return "Some(" + lit(v[1]) + ")"
    if k == "none":
        return "None"
    if k == "ok":
        return "Ok(" + lit(v[1]) + ")"
    if k == "err":
        return "Err(" + lit(v[1]) + ")"
    if k == "dict":
        return "Dict[" + ", ".join(py_escape(a) + " => " + lit(b) for a, b in v[1]) + "]"
    if k == "struct":
        return "Pt{ x: %d, s: %s }" % (v[1], py_escape(v[2]))
    raise ValueError(k)


def has(v, kind):
    if v[0] == kind:
        return True
    if v[0] in ("list", "tuple"):
        return any(has(x, kind) for x in v[1])
    if v[0] in ("some", "ok", "err"):
        return has(v[1], kind)
    if v[0] == "dict":
        return any(has(b, kind) for _, b in v[1])
    return False


def gen_str(rng):
    return "".join(rng.choice(STR_ALPHABET) for _ in range(rng.choice([0, 1, 1, 2, 3, 4, 6])))


FLOATS = [0.0, -0.0, 1.0, -1.5, 0.1, 1e300, -1e300, 5e-324, 1e-7, 123456789.125, 1.7976931348623157e308, 2.2250738585072014e-308,
          1e21, 1e22, 0.3, 2.5e-5, 4.35, 9007199254740993.0]
INTS = [0, 1, -1, 42, MIN, MIN + 1, MAX, MAX - 1, 2 ** 31, -2 ** 31, 2 ** 32, 10 ** 18]


def gen_value(rng, d):
    k = rng.random()
    if d <= 0 or k < 0.35:
        k2 = rng.random()
        if k2 < 0.5:
            return ("str", gen_str(rng))
        if k2 < 0.7:
            return ("int", rng.choice(INTS) if rng.random() < 0.7 else rng.randint(MIN, MAX))
        if k2 < 0.85:
            if rng.random() < 0.7:
                return ("float", rng.choice(FLOATS))
            while True:
                x = struct.unpack("<d", struct.pack("<Q", rng.getrandbits(64)))[0]
                if x == x and abs(x) != float("inf"):
                    return ("float", x)
        if k2 < 0.92:
            return ("bool", rng.random() < 0.5)
        if k2 < 0.96:
            return ("none",)
        return ("unit",)
    if k < 0.55:
        return ("list", [gen_value(rng, d - 1) for _ in range(rng.randint(0, 3))])
    if k < 0.70:
        return ("tuple", [gen_value(rng, d - 1) for _ in range(rng.choice([1, 2, 2, 3]))])
    if k < 0.78:
        return ("some", gen_value(rng, d - 1))
    if k < 0.84:
        return ("ok", gen_value(rng, d - 1))
    if k < 0.90:
        return ("err", gen_value(rng, d - 1))
    if k < 0.96:
        keys = rng.sample(KEYS, rng.randint(0, 3))
        return ("dict", [(a, gen_value(rng, d - 1)) for a in keys])
    return ("struct", rng.choice(INTS), gen_str(rng))


def in_fragment(v):
    """values the Coq theorem literal_roundtrip_partial is about"""
    return not (has(v, "float") or has(v, "dict") or has(v, "struct"))


def tree(v):
    """the parser's tree of the literal, as hook op `sexp` writes it"""
    k = v[0]
    if k == "str":
        return "(str %s)" % py_escape(v[1])
    if k == "int":
        return "(int %d)" % v[1]
    if k == "bool":
        return "(var True)" if v[1] else "(var False)"
    if k == "unit":
        return "(var Unit)"
    if k == "none":
        return "(var None)"
    if k in ("some", "ok", "err"):
        return "(call (var %s) (args %s))" % ({"some": "Some", "ok": "Ok", "err": "Err"}[k], tree(v[1]))
    if k in ("list", "tuple"):
        return "(" + " ".join([k] + [tree(x) for x in v[1]]) + ")"
    raise ValueError(k)


def mutate_literal(rng, text):
    """small edits of a printed literal: the reader model must never accept what the parser reads differently"""
    s = text
    for _ in range(rng.randint(1, 2)):
        k = rng.random()
        i = rng.randrange(len(s) + 1)
        if k < 0.25 and s:
            j = min(len(s) - 1, i)
            s = s[:j] + s[j + 1:]
        elif k < 0.55:
            s = s[:i] + rng.choice([",", " ", "(", ")", "[", "]", "_", "-", "1", "9", "\"", "Some", "None", "\n", ".", "+", "=", "{"]) + s[i:]
        elif k < 0.7:
            s = s.replace(", ", rng.choice([",", " ,  ", ",\n", " "]), 1)
        elif k < 0.8:
            s = s.replace("(", " (", 1)
        elif k < 0.9:
            s = s.replace(")", ",)", 1) if rng.random() < 0.5 else s.replace("]", ",]", 1)
        else:
            s = s + rng.choice(["", " ", "(1)", "[0]", " + 1", ".len()", "\n2"])
    return s


def vclass(v):
    for k in ("str", "float", "dict", "struct", "tuple", "int"):
        if has(v, k):
            return k
    return v[0]


def strclass(s):
    if s.endswith("\\"):
        return "ends-with-backslash"
    if "\\" in s:
        return "backslash"
    if "\"" in s:
        return "quote"
    if "\n" in s:
        return "newline"
    return "non-ascii" if not s.isascii() else "plain"


def out_text(c):
    """stdout of a `println(...)` evaluation without the final newline, or None."""
    if c is None or c.get("kind") != "ok":
        return None
    o = c.get("stdout", "")
    return o[:-1] if o.endswith("\n") else o


def run(ctx):
    ctx.trusted = L.TRUSTED[:4] + ["garden reftest-json-session as the oracle (stdout of println / print)",
                                   "tools/props/C12.py py_escape / float_text / lit (independent literal writer)"]
    ctx.coq("Properties/C12.v")
    exe = ctx.impl()
    mdl = ctx.model()
    if not exe:
        return
    rng = ctx.rng
    setup = ["struct Pt { x: Int, s: String }"]

    # ---- strings: model vs implementation, and the string-level round trip ---------------
    strs = ["", "a", "\"", "\\", "a\\", "\\\\", "\n", "\t", "a\\\"", "\\n", "é€😀", "\"\\\n\t", "a\\\\", "//", "\r\n", "'"]
    import itertools
    small = ["\"", "\\", "\n", "a", "n", "é"]
    for n in (1, 2, 3) + ((4,) if ctx.thorough else ()):
        strs += ["".join(t) for t in itertools.product(small, repeat=n)]
    strs += [gen_str(rng) for _ in range(3000 if ctx.thorough else 400)]
    strs = list(dict.fromkeys(strs))
    ctx.log("printing %d strings on the implementation" % len(strs))
    printed = oracle.eval_stateless(exe, ["println(string_repr(%s))" % py_escape(s) for s in strs], timeout=300)
    t1 = [out_text(c) for c in printed]
    m_esc = None
    if mdl:
        rc, m_esc, err = common.run_lines(mdl, [], ["escape\t" + L.hx(s) for s in strs], shards=common.NCPU)
    mism = []
    for i, s in enumerate(strs):
        ctx.case({"string": s}, strclass(s) != "plain")
        ctx.stat("string " + strclass(s))
        if t1[i] is None:
            ctx.violation("C12:string:print-failed:" + strclass(s), "string_repr of the string %r failed: %s" % (s, printed[i]),
                          {"input": "println(string_repr(%s))" % py_escape(s), "observed": str(printed[i]), "expected": "printed literal"})
            continue
        if m_esc is not None and m_esc[i] != L.hx(t1[i]):
            mism.append({"string": s, "impl": t1[i], "model": m_esc[i]})
    if mism:
        ctx.cov["corr_escape"] = mism[:8]
        ctx.broken("correspondence:escape", "model escape and string_repr differ on %d strings, e.g. %s" % (len(mism), mism[:2]))
    # read the printed text back: raw characters via print, printed form via string_repr
    ok_idx = [i for i in range(len(strs)) if t1[i] is not None]
    raw = oracle.eval_stateless(exe, ["print(%s)" % t1[i] for i in ok_idx], timeout=300)
    again = oracle.eval_stateless(exe, ["println(string_repr(%s))" % t1[i] for i in ok_idx], timeout=300)
    m_un = None
    if mdl:
        rc, m_un, err = common.run_lines(mdl, [], ["unescape\t" + L.hx(t1[i]) for i in ok_idx], shards=common.NCPU)
    mism = []
    for j, i in enumerate(ok_idx):
        s = strs[i]
        got = raw[j].get("stdout") if raw[j] and raw[j].get("kind") == "ok" else None
        if got != s:
            ctx.violation("C12:string:read-back:" + strclass(s),
                          "the string %r prints as %s, which reads back as %r" % (s, t1[i], got if got is not None else raw[j]),
                          {"input": "println(string_repr(%s))" % py_escape(s), "printed": t1[i],
                           "observed": got if got is not None else str(raw[j]), "expected": s,
                           "cli_command": "garden run -c 'print(%s)'" % t1[i]})
        elif out_text(again[j]) != t1[i]:
            ctx.violation("C12:string:reprint:" + strclass(s), "printed form %s of %r reprints as %r" % (t1[i], s, out_text(again[j])),
                          {"input": t1[i], "observed": str(out_text(again[j])), "expected": t1[i]})
        if m_un is not None and got is not None:
            want = L.hx(got) + ",0"
            if m_un[j] != want:
                mism.append({"token": t1[i], "impl": got, "model": m_un[j]})
    if mism:
        ctx.cov["corr_unescape"] = mism[:8]
        ctx.broken("correspondence:unescape", "model unescape and the parser differ on %d tokens, e.g. %s" % (len(mism), mism[:2]))

    # ---- model unescape vs implementation on arbitrary (also invalid) escapes ---------------
    toks = []
    for _ in range(1500 if ctx.thorough else 300):
        body = "".join(rng.choice(["\\n", "\\t", "\\\\", "\\\"", "\\z", "\\", "a", "é", "\t", "\n", "😀", "\\ "]) for _ in range(rng.randint(0, 5)))
        if body.endswith("\\") and not body.endswith("\\\\"):
            body += "n"
        toks.append("\"" + body + "\"")
    tl = oracle.batch(exe, [{"op": "lex", "src": t} for t in toks])
    toks = [t for t, r in zip(toks, tl) if len(r.get("tokens", [])) == 1 and r["tokens"][0]["text"] == t and not r["errors"]]
    if mdl and toks:
        rawt = oracle.eval_stateless(exe, ["print(%s)" % t for t in toks], timeout=300)
        rc, mu, err = common.run_lines(mdl, [], ["unescape\t" + L.hx(t) for t in toks], shards=common.NCPU)
        bad = []
        for t, c, m in zip(toks, rawt, mu):
            ctx.stat("unescape cases")
            if c is None or c.get("kind") not in ("ok", "error"):
                continue
            if c["kind"] == "ok":
                if m.split(",")[0] != L.hx(c.get("stdout", "")) or m.split(",")[1] != "0":
                    bad.append({"token": t, "impl": c.get("stdout"), "model": m})
            elif m.endswith(",0"):     # the implementation reported a parse error, the model no invalid escape
                bad.append({"token": t, "impl": c.get("message"), "model": m})
        if bad:
            ctx.cov["corr_unescape2"] = bad[:8]
            ctx.broken("correspondence:unescape", "model unescape and the parser differ on %d tokens, e.g. %s" % (len(bad), bad[:2]))

    # ---- the real lexer on `printed string ++ rest` ------------------------------------------
    rests = ["", ", \"b\"]", "\"", "\"x\"", " // c", "\n\"", ")", "\\", "\\\"", "a", "é", " \"a\nb\""]
    reqs, meta = [], []
    for i in (ok_idx if ctx.thorough else ok_idx[:250]):
        for r in (rests if ctx.thorough else rng.sample(rests, 4)):
            reqs.append({"op": "lex", "src": t1[i] + r})
            meta.append((strs[i], t1[i], r))
    lr = oracle.batch(exe, reqs)
    for (s, t, r), resp in zip(meta, lr):
        ctx.stat("lex printed+rest")
        first = resp.get("tokens", [{}])[0].get("text") if resp.get("tokens") else None
        if first != t:
            ctx.violation("C12:lex-printed-string:" + strclass(s),
                          "the printed string %s followed by %r lexes as first token %r" % (t, r, first),
                          {"input": t + r, "observed": str(first), "expected": t,
                           "cli_command": "garden run -c 'print(%s)'" % (t + r)})

    # ---- literal values: print, read, print again ------------------------------------------------
    vals = [("list", [("str", "a\\"), ("str", "b")]), ("tuple", [("int", MIN)]), ("float", -0.0), ("float", 1e300), ("float", 5e-324),
            ("dict", [("a\"", ("str", "\\")), ("b\\", ("list", []))]), ("some", ("ok", ("err", ("str", "\n")))),
            ("struct", MIN, "a\\"), ("list", [("tuple", [("str", "\""), ("unit",)]), ("tuple", [("str", "\t"), ("none",)])])]
    vals += [gen_value(rng, rng.randint(0, 3)) for _ in range(6000 if ctx.thorough else 700)]
    lits = [lit(v) for v in vals]
    ctx.log("printing %d literal values" % len(vals))
    p1 = oracle.eval_stateless(exe, ["println(string_repr(%s))" % x for x in lits], setup=setup, timeout=600)
    T1 = [out_text(c) for c in p1]
    idx = [i for i in range(len(vals)) if T1[i] is not None]
    p2 = oracle.eval_stateless(exe, ["println(string_repr(%s))" % T1[i] for i in idx], setup=setup, timeout=600)
    T2 = {i: (out_text(c), c) for i, c in zip(idx, p2)}
    for i, v in enumerate(vals):
        nontriv = has(v, "float") or has(v, "dict") or any(ch in lits[i] for ch in "\\é€😀") or lits[i].count("(") + lits[i].count("[") > 1
        ctx.case({"value": lits[i][:120]}, nontriv)
        ctx.stat("value " + vclass(v))
        cli = "garden run -c 'println(string_repr(%s))'" % lits[i][:300]
        if T1[i] is None:
            if p1[i] and p1[i].get("kind") == "panic":
                ctx.stat("value print crashed")     # C02's business
            else:
                ctx.violation("C12:value:print-failed:" + vclass(v), "string_repr(%s) failed: %s" % (lits[i][:200], p1[i]),
                              {"input": lits[i], "observed": str(p1[i]), "expected": "printed literal", "cli_command": cli})
            continue
        t2, c2 = T2[i]
        if t2 is None:
            ctx.violation("C12:value:printed-text-unreadable:" + vclass(v),
                          "%s prints as %s, which does not evaluate: %s" % (lits[i][:200], T1[i][:200], (c2 or {}).get("message", c2)),
                          {"input": lits[i], "printed": T1[i], "observed": str(c2), "expected": "a value", "cli_command": cli})
        elif t2 != T1[i]:
            ctx.violation("C12:value:reprint-differs:" + vclass(v),
                          "%s prints as %s; that text evaluates to a value printing as %s" % (lits[i][:200], T1[i][:200], t2[:200]),
                          {"input": lits[i], "printed": T1[i], "observed": t2, "expected": T1[i], "cli_command": cli})
        elif not has(v, "dict") and T1[i] != lits[i]:
            ctx.violation("C12:value:unexpected-print:" + vclass(v),
                          "%s prints as %s (expected the literal itself)" % (lits[i][:200], T1[i][:200]),
                          {"input": lits[i], "observed": T1[i], "expected": lits[i], "cli_command": cli})
    # ---- literal reader model (coq/ReadLit.v) vs the real parser ---------------------------------
    if mdl:
        frag = [i for i in range(len(vals)) if in_fragment(vals[i]) and T1[i] is not None]
        texts = [T1[i] for i in frag]
        extra = ["9223372036854775807", "-9223372036854775808", "9223372036854775808", "-9223372036854775809", "1_000", "1_", "007",
                 "-0", "(1)", "(1,)", "(1, 2,)", "[1, 2,]", "[1 2]", "Some (1)", "Some(1, 2)", "Some()", "Some(1,)", "None(1)", "True{}",
                 "[1, -2]", "[1 -2]", "(-1)", "1.5", "[1.5]", "\"a\\z\"", "()", "( )", "[]", "[ ]", "(,)", "[,]", "((),)", "[[[]]]",
                 "Ok(Err(Some(())))", "Unit", "[True,False]", "[ True , False ]", "(1\n,2)", "99999999999999999999", "-_1", "1__0"]
        muts = [mutate_literal(rng, rng.choice(texts)) for _ in range(6000 if ctx.thorough else 900)] if texts else []
        allt = texts + extra + muts
        ctx.log("reading %d literal texts with the model and the parser" % len(allt))
        rc, mo, err = common.run_lines(mdl, [], ["readlit\t" + L.hx(t) for t in allt], shards=common.NCPU)
        pr = L.batch_all(exe, [{"op": "sexp", "src": t} for t in allt])
        bad = []
        for j, (t, m, r) in enumerate(zip(allt, mo, pr)):
            kind = "printed" if j < len(texts) else "edge" if j < len(texts) + len(extra) else "mutated"
            f = m.split("\t")
            ctx.case({"readlit": t[:160]}, len(t) > 2)
            parser_items = r.get("items")
            parser_clean = parser_items is not None and not r.get("errors")
            if f[0] == "none" or len(f) != 2:
                ctx.stat("readlit %s: model refuses" % kind)
                if kind == "printed":
                    bad.append({"text": t, "model": m, "parser": str(r)[:200], "why": "model refuses a printed value of the fragment"})
                continue
            ctx.stat("readlit %s: model reads" % kind)
            mtree = common.unhex(f[0]).decode("utf-8")
            if not (parser_clean and parser_items == [mtree]):
                bad.append({"text": t, "model": mtree, "parser": str(r)[:300], "why": "the parser's tree differs or it reports errors"})
            if kind == "printed":
                i = frag[j]
                if mtree != tree(vals[i]):
                    bad.append({"text": t, "model": mtree, "expected": tree(vals[i]), "why": "the tree read is not the value that was printed"})
                if common.unhex(f[1]).decode("utf-8") != t:
                    bad.append({"text": t, "model_show": common.unhex(f[1]).decode("utf-8"), "why": "model show differs from what garden printed"})
        if bad:
            ctx.cov["corr_readlit"] = bad[:8]
            ctx.broken("correspondence:readlit", "literal reader model and the parser differ on %d texts, e.g. %s"
                       % (len(bad), json.dumps(bad[:2], ensure_ascii=False)))

    ctx.notes.append("equality of the re-read value is judged on printed forms (print/read/print fixed point, plus the "
                     "independently written literal) and raw characters for strings; Garden `==` is not used (C13)")
    ctx.notes.append("floats: correspondence/search only (Rust shortest round-trip formatting is std, not modelled)")


def replay(ctx, rp):
    exe = ctx.impl()
    src = rp["input"]
    r = oracle.eval_stateless(exe, ["println(string_repr(%s))" % src], setup=["struct Pt { x: Int, s: String }"])
    t1 = out_text(r[0])
    r2 = oracle.eval_stateless(exe, ["println(string_repr(%s))" % t1], setup=["struct Pt { x: Int, s: String }"]) if t1 is not None else [None]
    t2 = out_text(r2[0])
    print("input:", src, "| prints:", t1, "| reads back and prints:", t2)
    return 0 if t1 is not None and t1 == t2 else 1
