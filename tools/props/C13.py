"""C13 -- `==` is structural equality on values."""
import os
import re
import struct

from vplib import common, oracle

LEVEL = "proof"
RULE = ("Coq: Properties/C13.v over Value.v (mirror of `impl PartialEq for Value_`, the Rc pointer shortcut and the "
        "literal evaluators). Dynamic: pairs of literal-syntax values (ints incl. extremes, finite floats incl. "
        "0.0/-0.0/0.1+.0.2/subnormal/huge, strings with quotes, backslashes, newlines, tabs and 2/3/4-byte characters, "
        "nested lists/tuples/dicts, Bool/Unit/Option/Result, user enums and structs incl. generic ones); the second "
        "value of a pair is an independent rebuild, a rebuild with dict pairs / struct fields written in another "
        "order, a one-leaf mutation, or unrelated. Every pair is evaluated on the real binary built independently "
        "(`[A == B, A != B, B == A, A == A]`) and through shared variables (`let x = A let y = B ...`), compared with "
        "the extracted model `veq` and with an independent structural comparison in the driver, and checked directly: "
        "reflexive, symmetric, `!=` is the negation, shared = independent, equal printed forms <-> `==` True, "
        "transitivity on sampled triples. The printed form is compared with the model's `display`. A case is "
        "non-trivial when the values are structurally equal but textually different, or contain a float, dict, "
        "enum or struct.")
META = {
    "technique": "Coq proof over an executable model of value equality + differential execution of the extracted model vs the binary",
    "level_text": ("Coq theorems (coq/Properties/C13.v), for ALL values of the literal-syntax fragment of any size: "
                   "veq_structural: the model of `==` (impl PartialEq for Value_, arm by arm, with the Rc::ptr_eq "
                   "shortcut at every depth) is True exactly when the two values are structurally equal (syntactic "
                   "equality modulo runtime-type annotations and dict order; floats by bit pattern); hence veq_refl, "
                   "veq_sym, veq_trans; neq_is_negb; veq_independent_of_sharing (pointer-shared and separately built "
                   "values compare alike). The model of the code before the fixes is refuted (orig_float_never_equal, "
                   "orig_dict_never_equal, fix2_needed_example, struct_literal_order_example). The model is tied to "
                   "the binary by differential execution on generated pairs."),
    "level_note": ("Trusted: Coq kernel; that coq/Value.v transcribes values.rs / the literal arms of eval.rs (checked "
                   "only by the correspondence runs); Rust std (Rc's PartialEq specialisation, f64::to_bits, Display "
                   "for f64 being injective on finite floats -- checked dynamically, not proved), rpds map/vector "
                   "equality; extraction + OCaml glue; the JSON-session oracle. Values without literal syntax "
                   "(functions, closures, namespaces, NaN/inf) are outside the property."),
    "design_ref": "DESIGN.md §5 C13",
}

SETUP = [
    "enum Color { Red, Green, Custom(Int) }",
    "enum Wrap<T> { W(T), Empty }",
    "struct Pt { x: Int, y: Int }",
    "struct Box<T> { v: T }",
    "struct Pair<T> { a: T, b: T }",
    "struct Rec { name: String, tags: List<String>, extra: Dict<Int> }",
]
# enum name -> (nparams, [(variant, has_payload, hint index or None)])
ENUMS = {
    "Bool": (0, [("True", False, None), ("False", False, None)]),
    "Unit": (0, [("Unit", False, None)]),
    "Option": (1, [("Some", True, 0), ("None", False, None)]),
    "Result": (2, [("Ok", True, 0), ("Err", True, 1)]),
    "Color": (0, [("Red", False, None), ("Green", False, None), ("Custom", True, None)]),
    "Wrap": (1, [("W", True, 0), ("Empty", False, None)]),
}
# struct name -> (nparams, [(field, type parameter index or None, generator kind)])
STRUCTS = {
    "Pt": (0, [("x", None, "int"), ("y", None, "int")]),
    "Box": (1, [("v", 0, "any")]),
    "Pair": (1, [("a", 0, "any"), ("b", 0, "any")]),
    "Rec": (0, [("name", None, "str"), ("tags", None, "strlist"), ("extra", None, "intdict")]),
}

MIN, MAX = -2 ** 63, 2 ** 63 - 1
INTS = [MIN, MIN + 1, -2 ** 32, -1, 0, 1, 2, 7, 2 ** 31, 2 ** 53, 2 ** 53 + 1, MAX - 1, MAX]
FLOATS = [0.0, -0.0, 0.1, 0.2, 0.1 + 0.2, 0.3, 1.0, -1.0, 1.5, -1.5, 2.5, 1e22, 1e300, -1e300, 5e-324, 2.2250738585072014e-308,
          1.7976931348623157e308, 3.141592653589793, 123456789.125, 9007199254740993.0, 0.1 + 0.7, 0.8]
CHARS = ["a", "b", "z", " ", '"', "\\", "\n", "\t", "é", "€", "\U0001F600", "'", "{", "$"]
KEYS = ["a", "b", "c", "k\"", "é", ""]


def fbits(x):
    return struct.unpack("<Q", struct.pack("<d", x))[0]


def flit(x):
    """Garden float literal (no exponent syntax) for a finite float."""
    s = repr(x)
    if "e" in s:
        s = ("%.340f" % x).rstrip("0")
        if s.endswith("."):
            s += "0"
    if "." not in s:
        s += ".0"
    return s


def slit(s):
    out = ['"']
    for c in s:
        out.append({'"': '\\"', "\\": "\\\\", "\n": "\\n", "\t": "\\t"}.get(c, c))
    out.append('"')
    return "".join(out)


# ---- values: tuples ("int", n) ("float", bits, text) ("str", s) ("list", [v]) ("tuple", [v])
#      ("dict", [(k, v)])  ("enum", type, idx, payload|None)  ("struct", type, [(field, v)])
def src(v):
    k = v[0]
    if k == "int":
        return str(v[1])
    if k == "float":
        return v[2]
    if k == "str":
        return slit(v[1])
    if k == "list":
        return "[" + ", ".join(src(x) for x in v[1]) + "]"
    if k == "tuple":
        return "(" + ", ".join(src(x) for x in v[1]) + ("," if len(v[1]) == 1 else "") + ")"
    if k == "dict":
        return "Dict[" + ", ".join("%s => %s" % (slit(a), src(b)) for a, b in v[1]) + "]"
    if k == "enum":
        name = ENUMS[v[1]][1][v[2]][0]
        return name if v[3] is None else "%s(%s)" % (name, src(v[3]))
    if k == "struct":
        return "%s{ %s }" % (v[1], ", ".join("%s: %s" % (f, src(x)) for f, x in v[2]))
    raise ValueError(k)


def enc(v):
    k = v[0]
    hx = common.hexs
    if k == "int":
        return "i%d" % v[1]
    if k == "float":
        return "f%d" % v[1]
    if k == "str":
        return "s" + hx(v[1])
    if k in ("list", "tuple"):
        return " ".join(["%s%d" % ("L" if k == "list" else "T", len(v[1]))] + [enc(x) for x in v[1]])
    if k == "dict":
        return " ".join(["D%d" % len(v[1])] + ["s%s %s" % (hx(a), enc(b)) for a, b in v[1]])
    if k == "enum":
        np, variants = ENUMS[v[1]]
        name, has, hint = variants[v[2]]
        head = "E%s,%d,%s,%d,%s,%d" % (hx(v[1]), np, "-" if hint is None else str(hint), v[2], hx(name), 1 if v[3] is not None else 0)
        return head if v[3] is None else head + " " + enc(v[3])
    if k == "struct":
        np, fields = STRUCTS[v[1]]
        head = "S%s,%d,%d,%d" % (hx(v[1]), np, len(fields), len(v[2]))
        d = ["%s,%s" % (hx(f), "-" if tp is None else str(tp)) for f, tp, _ in fields]
        return " ".join([head] + d + ["s%s %s" % (hx(f), enc(x)) for f, x in v[2]])
    raise ValueError(k)


def norm(v):
    """Independent structural normal form (hashable): what the property calls 'structurally the same value'."""
    k = v[0]
    if k == "int":
        return ("int", v[1])
    if k == "float":
        return ("float", v[1])
    if k == "str":
        return ("str", v[1])
    if k in ("list", "tuple"):
        return (k, tuple(norm(x) for x in v[1]))
    if k == "dict":
        m = {}
        for a, b in v[1]:
            m[a] = norm(b)
        return ("dict", tuple(sorted(m.items(), key=lambda kv: kv[0].encode("utf-8"))))
    if k == "enum":
        return ("enum", v[1], v[2], None if v[3] is None else norm(v[3]))
    if k == "struct":
        order = [f for f, _, _ in STRUCTS[v[1]][1]]
        m = dict((f, norm(x)) for f, x in v[2])
        return ("struct", v[1], tuple((f, m[f]) for f in order))
    raise ValueError(k)


def kinds(v, acc=None):
    acc = set() if acc is None else acc
    acc.add(v[0])
    if v[0] in ("list", "tuple"):
        for x in v[1]:
            kinds(x, acc)
    elif v[0] == "dict":
        for _, x in v[1]:
            kinds(x, acc)
    elif v[0] == "enum" and v[3] is not None:
        kinds(v[3], acc)
    elif v[0] == "struct":
        for _, x in v[2]:
            kinds(x, acc)
    return acc


def feature(a, b):
    ks = (kinds(a) | kinds(b)) & {"float", "dict", "enum", "struct"}
    return "+".join(sorted(ks)) or "plain"


class Gen:
    def __init__(self, rng):
        self.rng = rng

    def g_int(self):
        r = self.rng
        return ("int", r.choice(INTS) if r.random() < 0.5 else r.randint(-20, 20))

    def g_float(self):
        r = self.rng
        if r.random() < 0.75:
            x = r.choice(FLOATS)
        else:
            x = struct.unpack("<d", struct.pack("<Q", r.getrandbits(64)))[0]
            if x != x or abs(x) == float("inf"):
                x = 1.25
            if abs(x) > 1e25 or (x != 0 and abs(x) < 1e-25):
                x = float(repr(x).split("e")[0]) if "e" in repr(x) else x      # keep literals short
        return ("float", fbits(x), flit(x))

    def g_str(self):
        r = self.rng
        n = r.choice([0, 1, 1, 2, 3, 5])
        s = "".join(r.choice(CHARS) for _ in range(n))
        if s.endswith("\\"):
            s += "a"       # a string literal ending in an escaped backslash is C12's lexer finding, not ours
        return ("str", s)

    def g_leaf(self):
        r = self.rng.random()
        if r < 0.3:
            return self.g_int()
        if r < 0.55:
            return self.g_float()
        if r < 0.8:
            return self.g_str()
        t, i = self.rng.choice([("Bool", 0), ("Bool", 1), ("Unit", 0), ("Option", 1), ("Color", 0), ("Color", 1), ("Wrap", 1)])
        return ("enum", t, i, None)

    def g_key(self):
        return self.rng.choice(KEYS)

    def g_value(self, depth):
        r = self.rng
        if depth <= 0 or r.random() < 0.25:
            return self.g_leaf()
        k = r.random()
        n = r.choice([0, 1, 2, 2, 3])
        if k < 0.2:
            return ("list", [self.g_value(depth - 1) for _ in range(n)])
        if k < 0.35:
            return ("tuple", [self.g_value(depth - 1) for _ in range(n)])
        if k < 0.6:
            return ("dict", [(self.g_key(), self.g_value(depth - 1)) for _ in range(n)])
        if k < 0.8:
            t = r.choice(["Option", "Result", "Result", "Wrap", "Color"])
            if t == "Option":
                return ("enum", t, 0, self.g_value(depth - 1))
            if t == "Result":
                return ("enum", t, r.randint(0, 1), self.g_value(depth - 1))
            if t == "Wrap":
                return ("enum", t, 0, self.g_value(depth - 1))
            return ("enum", t, 2, self.g_int())
        t = r.choice(sorted(STRUCTS))
        fields = []
        for f, _, gk in STRUCTS[t][1]:
            if gk == "int":
                x = self.g_int()
            elif gk == "str":
                x = self.g_str()
            elif gk == "strlist":
                x = ("list", [self.g_str() for _ in range(r.randint(0, 2))])
            elif gk == "intdict":
                x = ("dict", [(self.g_key(), self.g_int()) for _ in range(r.randint(0, 3))])
            else:
                x = self.g_value(depth - 1)
            fields.append((f, x))
        r.shuffle(fields)
        return ("struct", t, fields)

    # ---- second value of a pair ------------------------------------------
    def reorder(self, v):
        """Structurally the same value, written differently (dict pairs / struct fields in another order)."""
        r = self.rng
        k = v[0]
        if k in ("list", "tuple"):
            return (k, [self.reorder(x) for x in v[1]])
        if k == "dict":
            m = {}
            for a, b in v[1]:
                m[a] = b
            items = [(a, self.reorder(b)) for a, b in m.items()]
            r.shuffle(items)
            return ("dict", items)
        if k == "enum":
            return ("enum", v[1], v[2], None if v[3] is None else self.reorder(v[3]))
        if k == "struct":
            fs = [(f, self.reorder(x)) for f, x in v[2]]
            r.shuffle(fs)
            return ("struct", v[1], fs)
        return v

    def mutate(self, v):
        """Change one leaf (or one size) somewhere."""
        r = self.rng
        k = v[0]
        if k == "int":
            return ("int", v[1] + 1 if v[1] < MAX else v[1] - 1)
        if k == "float":
            x = struct.unpack("<d", struct.pack("<Q", v[1]))[0]
            if x == 0.0:
                y = -x if r.random() < 0.7 else 1.0
            else:
                y = struct.unpack("<d", struct.pack("<Q", v[1] ^ 1))[0]      # neighbouring float
                if y != y or abs(y) == float("inf"):
                    y = 1.0
            return ("float", fbits(y), flit(y))
        if k == "str":
            t = v[1] + r.choice(["a", " ", "é"]) if r.random() < 0.6 or not v[1] else (v[1][:-1] or "b")
            if t.endswith("\\"):
                t = t[:-1] + "/" if t[:-1] + "/" != v[1] else t + "/"
            return ("str", t)
        if k in ("list", "tuple"):
            if not v[1] or r.random() < 0.25:
                return (k, v[1] + [self.g_leaf()])
            i = r.randrange(len(v[1]))
            return (k, v[1][:i] + [self.mutate(v[1][i])] + v[1][i + 1:])
        if k == "dict":
            if not v[1] or r.random() < 0.25:
                return ("dict", v[1] + [("new", self.g_leaf())])
            i = r.randrange(len(v[1]))
            a, b = v[1][i]
            if r.random() < 0.3:
                return ("dict", v[1][:i] + [(a + "x", b)] + v[1][i + 1:])
            # mutate the binding that survives (the last one written for this key)
            last = max(j for j, (a2, _) in enumerate(v[1]) if a2 == a)
            return ("dict", v[1][:last] + [(a, self.mutate(v[1][last][1]))] + v[1][last + 1:])
        if k == "enum":
            if v[3] is not None and v[1] != "Color":
                if v[1] == "Result" and r.random() < 0.3:
                    return ("enum", v[1], 1 - v[2], v[3])
                return ("enum", v[1], v[2], self.mutate(v[3]))
            if v[1] == "Color" and v[2] == 2:
                return ("enum", v[1], 2, self.mutate(v[3]))
            if v[1] == "Bool":
                return ("enum", "Bool", 1 - v[2], None)
            if v[1] == "Color":
                return ("enum", "Color", 1 - v[2], None)
            return ("enum", "Option", 1, None) if v[1] != "Option" else ("enum", "Wrap", 1, None)
        if k == "struct":
            cands = [i for i, (f, x) in enumerate(v[2])]
            i = r.choice(cands)
            f, x = v[2][i]
            gk = [g for ff, _, g in STRUCTS[v[1]][1] if ff == f][0]
            if gk == "strlist":
                y = ("list", x[1] + [("str", "more")])
            elif gk == "intdict":
                y = ("dict", x[1] + [("more", ("int", 1))])
            else:
                y = self.mutate(x)
                if gk == "int" and y[0] != "int":
                    y = ("int", 99)
                if gk == "str" and y[0] != "str":
                    y = ("str", "zz")
            return ("struct", v[1], v[2][:i] + [(f, y)] + v[2][i + 1:])
        raise ValueError(k)


FIXED_PAIRS = [
    # the property's own examples and the findings
    (("float", fbits(1.5), "1.5"), ("float", fbits(1.5), "1.5")),
    (("float", fbits(0.0), "0.0"), ("float", fbits(-0.0), "-0.0")),
    (("float", fbits(0.1 + 0.2), flit(0.1 + 0.2)), ("float", fbits(0.3), "0.3")),
    (("int", 1), ("float", fbits(1.0), "1.0")),
    (("dict", []), ("dict", [])),
    (("dict", [("a", ("int", 1))]), ("dict", [("a", ("int", 1))])),
    (("dict", [("a", ("int", 1)), ("b", ("int", 2))]), ("dict", [("b", ("int", 2)), ("a", ("int", 1))])),
    (("dict", [("a", ("int", 1)), ("a", ("int", 2))]), ("dict", [("a", ("int", 2))])),
    (("dict", [("a", ("int", 1))]), ("dict", [("a", ("int", 1)), ("b", ("int", 1))])),
    (("enum", "Option", 0, ("dict", [("a", ("list", [])), ("b", ("list", [("int", 1)]))])),
     ("enum", "Option", 0, ("dict", [("b", ("list", [("int", 1)])), ("a", ("list", []))]))),
    (("enum", "Wrap", 0, ("dict", [("a", ("list", [])), ("b", ("list", [("int", 1)]))])),
     ("enum", "Wrap", 0, ("dict", [("b", ("list", [("int", 1)])), ("a", ("list", []))]))),
    (("struct", "Box", [("v", ("dict", [("a", ("list", [])), ("b", ("list", [("int", 1)]))]))]),
     ("struct", "Box", [("v", ("dict", [("b", ("list", [("int", 1)])), ("a", ("list", []))]))])),
    (("struct", "Pt", [("x", ("int", 1)), ("y", ("int", 2))]), ("struct", "Pt", [("y", ("int", 2)), ("x", ("int", 1))])),
    (("struct", "Pair", [("a", ("int", 1)), ("b", ("str", "x"))]), ("struct", "Pair", [("b", ("str", "x")), ("a", ("int", 1))])),
    (("struct", "Pt", [("x", ("int", 1)), ("y", ("int", 2))]), ("struct", "Pt", [("x", ("int", 2)), ("y", ("int", 1))])),
    (("enum", "Option", 1, None), ("enum", "Wrap", 1, None)),
    (("enum", "Bool", 0, None), ("enum", "Color", 0, None)),
    (("enum", "Result", 0, ("int", 1)), ("enum", "Result", 1, ("int", 1))),
    (("enum", "Option", 0, ("list", [])), ("enum", "Option", 0, ("list", []))),
    (("list", []), ("tuple", [])),
    (("tuple", [("int", 1)]), ("list", [("int", 1)])),
    (("list", [("list", []), ("list", [("int", 1)])]), ("list", [("list", []), ("list", [("int", 1)])])),
    (("str", "a\"\\\n\té€\U0001F600b"), ("str", "a\"\\\n\té€\U0001F600b")),
    (("str", "é"), ("str", "é")),
    (("int", MIN), ("int", MIN)),
    (("int", MAX), ("int", MIN)),
]


def model_driver(ctx):
    """The extracted-model driver. Each model family is extracted into its own OCaml module; this property needs only
    the `value` family, so a failed extraction of ANOTHER family is not a broken tie of C13."""
    ctx.log("building extracted model driver")
    ok, log, exe = common.build_model()
    if ok:
        return exe
    m = re.search(r"EXTRACTION FAILED for families: \[(.*?)\]", log)
    if m and "'value'" not in m.group(1) and os.path.exists(exe):
        rc, res, err = common.run_lines(exe, [], ["veq\ti1\ti1"])
        if res and res[0].startswith("T\tF"):
            ctx.notes.append("model driver: extraction of other families failed (%s); the value family is present" % m.group(1))
            return exe
    ctx.broken("model-driver-build", log[-3000:])
    return ""


def bools(c, n):
    """Parse `[True, False, ...]` of length n from an oracle result; None when it is anything else."""
    if c is None or c.get("kind") != "ok":
        return None
    t = c["value"].strip()
    if not (t.startswith("[") and t.endswith("]")):
        return None
    parts = [p.strip() for p in t[1:-1].split(",")]
    if len(parts) != n or any(p not in ("True", "False") for p in parts):
        return None
    return [p == "True" for p in parts]


def run(ctx):
    ctx.trusted = [
        "Coq 8.16.1 kernel (coqc); vm_compute only for the concrete examples; no native_compute",
        "coq/Value.v as a transcription of impl PartialEq for Value_ (values.rs), eval_equality_binop and the literal "
        "arms of eval.rs -- tied to the binary by the correspondence runs only (no translator for this code)",
        "Rust std / rpds: Rc<T: Eq>::eq = ptr_eq || inner eq; f64::to_bits; Display for f64 injective on finite floats "
        "(checked dynamically); HashTrieMap / Vector equality",
        "Extraction (ExtrOcamlBasic only) + ocaml/driver_core.ml, ops_value.ml (incl. the float formatter used by `display`)",
        "garden reftest-json-session as the oracle of the implementation",
    ]
    ctx.coq("Properties/C13.v")
    exe = ctx.impl()
    mdl = model_driver(ctx)
    if not exe:
        return
    g = Gen(ctx.rng)
    npairs = 4000 if ctx.thorough else 700
    pairs = [(a, b, "fixed") for a, b in FIXED_PAIRS]
    while len(pairs) < npairs:
        depth = ctx.rng.choice([0, 1, 1, 2, 2, 3])
        a = g.g_value(depth)
        k = ctx.rng.random()
        if k < 0.2:
            pairs.append((a, a, "rebuild"))
        elif k < 0.5:
            pairs.append((a, g.reorder(a), "reorder"))
        elif k < 0.85:
            b = g.mutate(a)
            if ctx.rng.random() < 0.5:
                b = g.reorder(b)
            pairs.append((a, b, "mutate"))
        else:
            pairs.append((a, g.g_value(ctx.rng.choice([0, 1, 2])), "unrelated"))
    A = [src(a) for a, _, _ in pairs]
    B = [src(b) for _, b, _ in pairs]

    ind_src = ["[%s == %s, %s != %s, %s == %s, %s == %s]" % (x, y, x, y, y, x, x, x) for x, y in zip(A, B)]
    sh_src = ["(fun() { let x = %s  let y = %s  [x == y, x != y, y == x, x == x, [x, y] == [x, y], (y, x) != (y, x), "
              "Some(x) == Some(x), [x] == [y]] })()" % (x, y) for x, y in zip(A, B)]
    ctx.log("evaluating %d pairs (independent, shared, printed forms)" % len(pairs))
    r_ind = oracle.eval_stateless(exe, ind_src, setup=SETUP, timeout=300)
    r_sh = oracle.eval_stateless(exe, sh_src, setup=SETUP, timeout=300)
    r_pa = oracle.eval_stateless(exe, A, setup=SETUP, timeout=300)
    r_pb = oracle.eval_stateless(exe, B, setup=SETUP, timeout=300)

    model = disp_a = None
    if mdl:
        rc, model, err = common.run_lines(mdl, [], ["veq\t%s\t%s" % (enc(a), enc(b)) for a, b, _ in pairs], shards=common.NCPU)
        rc2, disp_a, err2 = common.run_lines(mdl, [], ["display\t%s" % enc(a) for a, _, _ in pairs], shards=common.NCPU)
    corr_bad, disp_bad, orig_agree, orig_n = [], [], 0, 0

    def viol(check, i, what, observed, expected, expr):
        a, b, how = pairs[i]
        ctx.violation("C13:%s:%s" % (check, feature(a, b)), what,
                      {"input": expr, "setup": SETUP, "a": A[i], "b": B[i], "pair_kind": how,
                       "expected": expected, "observed": observed,
                       "cli_command": "garden run -c '<setup lines> println(%s)'" % expr})

    for i, (a, b, how) in enumerate(pairs):
        same = norm(a) == norm(b)
        nontrivial = (same and A[i] != B[i]) or feature(a, b) != "plain"
        ctx.case({"a": A[i], "b": B[i]}, nontrivial)
        ctx.stat("pair " + how)
        ctx.stat("structurally " + ("equal" if same else "different"))
        for kk in sorted(kinds(a) | kinds(b)):
            ctx.stat("kind " + kk)
        bi = bools(r_ind[i], 4)
        if bi is None:
            ctx.stat("impl not-a-bool-list")
            viol("eval-failed", i, "`%s` did not evaluate to four Bools: %s" % (ind_src[i][:200], str(r_ind[i])[:300]),
                 str(r_ind[i])[:400], "[%s, %s, %s, True]" % (same, not same, same), ind_src[i])
            continue
        eq, ne, eq_rev, refl = bi
        ctx.stat("impl == " + str(eq))
        if eq != same:
            viol("eq-vs-structure", i, "`%s == %s` is %s but the values are structurally %s"
                 % (A[i][:150], B[i][:150], eq, "the same" if same else "different"), str(eq), str(same), "%s == %s" % (A[i], B[i]))
        if ne != (not eq):
            viol("ne-not-negation", i, "`!=` gives %s where `==` gives %s for %s, %s" % (ne, eq, A[i][:150], B[i][:150]),
                 str(ne), str(not eq), "%s != %s" % (A[i], B[i]))
        if eq_rev != eq:
            viol("not-symmetric", i, "`a == b` is %s but `b == a` is %s for %s, %s" % (eq, eq_rev, A[i][:150], B[i][:150]),
                 str(eq_rev), str(eq), "%s == %s" % (B[i], A[i]))
        if not refl:
            viol("not-reflexive", i, "`%s == %s` (built twice) is False" % (A[i][:150], A[i][:150]), "False", "True",
                 "%s == %s" % (A[i], A[i]))
        # shared variables
        bs = bools(r_sh[i], 8)
        if bs is None:
            ctx.stat("impl shared not-a-bool-list")
            viol("eval-failed-shared", i, "`%s` did not evaluate to eight Bools: %s" % (sh_src[i][:200], str(r_sh[i])[:300]),
                 str(r_sh[i])[:400], "eight Bools", sh_src[i])
        else:
            want = [eq, not eq, eq, True, True, False, True, eq]
            if bs != want:
                viol("sharing-changes-answer", i,
                     "through shared variables %s gives %s, built independently the answers imply %s"
                     % (sh_src[i][:200], bs, want), str(bs), str(want), sh_src[i])
        # printed forms
        pa, pb = r_pa[i], r_pb[i]
        if pa and pb and pa.get("kind") == "ok" and pb.get("kind") == "ok":
            if (pa["value"] == pb["value"]) != eq:
                viol("printed-form", i, "printed forms %s / %s are %s but `==` is %s"
                     % (pa["value"][:150], pb["value"][:150], "equal" if pa["value"] == pb["value"] else "different", eq),
                     str(eq), str(pa["value"] == pb["value"]), "%s == %s" % (A[i], B[i]))
        else:
            viol("eval-failed-print", i, "value did not evaluate: %s -> %s" % (A[i][:150], str(pa)[:200]), str(pa)[:300], "a value", A[i])
        # model
        if model:
            f = model[i].split("\t")
            if len(f) < 6 or f[0] not in "TF":
                corr_bad.append({"a": A[i], "b": B[i], "model": model[i][:200]})
            else:
                m_eq, m_ne, m_rev, m_lit = [x == "T" for x in f[:4]]
                if not m_lit:
                    corr_bad.append({"a": A[i], "b": B[i], "model": "generated value is not `literal`"})
                if (m_eq, m_ne, m_rev) != (eq, ne, eq_rev):
                    corr_bad.append({"expr": ind_src[i][:300], "impl": [eq, ne, eq_rev], "model": [m_eq, m_ne, m_rev]})
                orig_n += 1
                orig_agree += (f[4] == "T") == eq
                ctx.stat("pre-fix model == " + f[4])
        if disp_a and pa and pa.get("kind") == "ok":
            f = disp_a[i].split("\t")
            try:
                md = common.unhex(f[0]).decode("utf-8", "replace")
            except ValueError:
                md = "<bad model output %s>" % disp_a[i][:80]
            if md != pa["value"]:
                disp_bad.append({"src": A[i][:300], "impl": pa["value"][:300], "model": md[:300]})
    if corr_bad:
        ctx.broken("correspondence:veq", "model veq/vne and implementation differ on %d pairs, e.g. %s" % (len(corr_bad), corr_bad[:3]))
    if disp_bad:
        ctx.broken("correspondence:display", "model display and printed value differ on %d values, e.g. %s" % (len(disp_bad), disp_bad[:3]))
    ctx.cov["pre_fix_model_agrees_with_this_binary"] = "%d of %d pairs" % (orig_agree, orig_n)

    # ---- transitivity on triples -------------------------------------------
    ntr = 1500 if ctx.thorough else 300
    triples = []
    while len(triples) < ntr:
        a = g.g_value(ctx.rng.choice([1, 2, 2, 3]))
        b = g.reorder(a)
        c = g.reorder(b)
        k = ctx.rng.random()
        if k < 0.25:
            c = g.mutate(c)
        elif k < 0.4:
            b = g.mutate(b)
        elif k < 0.5:
            a = g.mutate(a)
        triples.append((a, b, c))
    tsrc = ["[%s == %s, %s == %s, %s == %s]" % (src(a), src(b), src(b), src(c), src(a), src(c)) for a, b, c in triples]
    rt = oracle.eval_stateless(exe, tsrc, setup=SETUP, timeout=300)
    for i, (a, b, c) in enumerate(triples):
        ctx.case({"triple": tsrc[i]}, True)
        bt = bools(rt[i], 3)
        if bt is None:
            ctx.violation("C13:eval-failed-triple:" + feature(a, c), "`%s` did not evaluate to three Bools: %s" % (tsrc[i][:200], str(rt[i])[:300]),
                          {"input": tsrc[i], "setup": SETUP, "observed": str(rt[i])[:400], "expected": "three Bools"})
            continue
        ctx.stat("triple " + "".join("T" if x else "F" for x in bt))
        want = [norm(a) == norm(b), norm(b) == norm(c), norm(a) == norm(c)]
        if (bt[0] and bt[1] and not bt[2]) or bt != want:
            ctx.violation("C13:not-transitive:" + feature(a, c) if (bt[0] and bt[1] and not bt[2]) else "C13:eq-vs-structure:" + feature(a, c),
                          "`%s` gives %s, structural comparison gives %s" % (tsrc[i][:300], bt, want),
                          {"input": tsrc[i], "setup": SETUP, "observed": str(bt), "expected": str(want),
                           "cli_command": "garden run -c '<setup lines> println(%s)'" % tsrc[i]})
    ctx.notes.append("strings ending in a backslash are not generated (their literal is mis-lexed: C12's finding)")
    ctx.notes.append("NaN and infinities have no literal syntax and are outside the property; with the bitwise float arm "
                     "`==` is reflexive on them as well (Coq: veq_refl needs no finiteness hypothesis)")


def replay(ctx, rp):
    exe = ctx.impl()
    r = oracle.eval_stateless(exe, [rp["input"]], setup=rp.get("setup", SETUP))
    c = r[0]
    got = c.get("value") if c and c.get("kind") == "ok" else str(c)
    print("input:", rp["input"])
    print("observed now:", got, "| recorded:", rp.get("observed"), "| expected:", rp.get("expected"))
    return 0 if str(got) == str(rp.get("expected")) else 1
