"""C14 -- Subtyping is a preorder with the documented variance.

Also the shared type generator / encoders / batch runners for C15 (which imports this module)."""
import json

from vplib import common

LEVEL = "proof"
RULE = ("Coq: Properties/C14.v over Types.v (executable mirror of is_subtype). Dynamic: the real `is_subtype` "
        "(hook op `subtype` of `garden verif-batch`) against the extracted model on ALL ordered pairs of an "
        "enumerated set of types of depth <= 2 over the signature {Int, String, Bool, NoValue, Unit, Any, T, U, "
        "Error, List/1, Option/1, Result/2, tuples of arity 0..2, functions with 0..2 parameters} (thorough: 1350 "
        "types, 1.8 M pairs; quick: the full set over 6 atoms plus a seeded sample of the 1350^2 pairs), on sampled "
        "depth-3 pairs and triples built by widening/narrowing mutations, and on ill-formed types (wrong arity, "
        "wrong kind). Directly on the implementation's answers: reflexivity on every type, transitivity on every "
        "triple of the exhaustive set (bitset closure) and on sampled depth-3 triples, Any top / NoValue bottom "
        "(both directions), and the variance laws (answer on two composite types = the documented combination "
        "of the implementation's own answers on their components). A pair counts as non-trivial when the two types "
        "are distinct composites or the answer is `true` between distinct types. Runtime use: values of 20 known runtime types "
        "(atoms, lists, tuples, Option/Result, annotated closures incl. higher-order) bound to lets hinted with 26 types on the "
        "real interpreter; acceptance must equal the implementation's own is_subtype answer.")
META = {
    "technique": "Coq proof over an executable model of is_subtype + exhaustive differential execution against the real function",
    "level_text": ("Coq theorems (unbounded, all types): sub_refl (every type), sub_trans (well-formed types w.r.t. any "
                   "arity signature, no Error in the middle type), any_top(+strict), novalue_bottom(+strict), "
                   "tuple_covariant, user_covariant(+inv), fun_contra_co as iff-characterisations on the executable "
                   "function; sub_trans_needs_wf / sub_trans_needs_no_err show both hypotheses are necessary; "
                   "sub_fuel_enough removes the fuel. The model is tied to src/garden_type.rs by exhaustive "
                   "comparison through the verification hook on every pair of depth <= 2 and sampled depth 3."),
    "level_note": ("Trusted: Coq kernel; the hand-written model coq/Types.v (read against is_subtype arm by arm; "
                   "Fun.name_sym/type_params and Error's fields are erased to an opaque tag that is_subtype never "
                   "reads); extraction + ocaml/ops_types.ml; the cfg-gated hook's JSON decoding of types. The "
                   "runtime's check_type calls the same is_subtype."),
    "design_ref": "DESIGN.md §5 C14, §10",
}

# --------------------------------------------------------------------------------------
# Types as nested tuples
#   ("any",) | ("tuple", items) | ("fun", tag, params, ret) | ("user", kind, name, args) | ("param", name) | ("err", tag)

ANY = ("any",)
ERR = ("err", 0)
KIND = {"Int": "struct", "String": "struct", "List": "struct", "Dict": "struct", "Float": "struct",
        "Bool": "enum", "NoValue": "enum", "Unit": "enum", "Option": "enum", "Result": "enum"}
ARITY = {"Int": 0, "String": 0, "Float": 0, "Bool": 0, "NoValue": 0, "Unit": 0, "List": 1, "Dict": 1, "Option": 1, "Result": 2}


def tup(*xs):
    return ("tuple", tuple(xs))


def fun(ps, r, tag=0):
    return ("fun", tag, tuple(ps), r)


def user(name, *args, kind=None):
    return ("user", kind or KIND.get(name, "struct"), name, tuple(args))


def param(n):
    return ("param", n)


INT, STRING, BOOL, NOVALUE, UNIT = user("Int"), user("String"), user("Bool"), user("NoValue"), user("Unit")
T, U = param("T"), param("U")
ATOMS = [INT, STRING, BOOL, NOVALUE, UNIT, ANY, T, U, ERR, tup()]
ATOMS_QUICK = [INT, NOVALUE, ANY, T, ERR, tup()]


def to_json(t):
    k = t[0]
    if k == "any":
        return "Any"
    if k == "tuple":
        return {"tuple": [to_json(x) for x in t[1]]}
    if k == "fun":
        return {"fun": {"params": [to_json(x) for x in t[2]], "ret": to_json(t[3])}}
    if k == "user":
        return {"user": {"kind": t[1], "name": t[2], "args": [to_json(x) for x in t[3]]}}
    if k == "param":
        return {"param": t[1]}
    return {"error": None}


def from_json(j):
    if j == "Any":
        return ANY
    if "tuple" in j:
        return ("tuple", tuple(from_json(x) for x in j["tuple"]))
    if "fun" in j:
        return ("fun", 0, tuple(from_json(x) for x in j["fun"]["params"]), from_json(j["fun"]["ret"]))
    if "user" in j:
        u = j["user"]
        return ("user", u["kind"], u["name"], tuple(from_json(x) for x in u["args"]))
    if "param" in j:
        return ("param", j["param"])
    return ERR


def enc(t):
    """The model driver's text encoding (ocaml/ops_types.ml)."""
    k = t[0]
    if k == "any":
        return "A"
    if k == "tuple":
        return " ".join(["T%d" % len(t[1])] + [enc(x) for x in t[1]])
    if k == "fun":
        return " ".join(["F%d.%d" % (t[1], len(t[2]))] + [enc(x) for x in t[2]] + [enc(t[3])])
    if k == "user":
        return " ".join(["%s.%s.%d" % ("E" if t[1] == "enum" else "S", t[2], len(t[3]))] + [enc(x) for x in t[3]])
    if k == "param":
        return "P." + t[1]
    return "X%d" % t[1]


def show(t):
    """Garden's own notation (Display for Type), for messages."""
    k = t[0]
    if k == "any":
        return "Any"
    if k == "tuple":
        return "(" + ", ".join(show(x) for x in t[1]) + ")"
    if k == "fun":
        return "Fun<(" + ", ".join(show(x) for x in t[2]) + "), " + show(t[3]) + ">"
    if k == "user":
        return t[2] + ("<" + ", ".join(show(x) for x in t[3]) + ">" if t[3] else "")
    if k == "param":
        return t[1]
    return "_"


def children(t):
    k = t[0]
    if k == "tuple":
        return list(t[1])
    if k == "fun":
        return list(t[2]) + [t[3]]
    if k == "user":
        return list(t[3])
    return []


def depth(t):
    c = children(t)
    return 1 + (max(map(depth, c)) if c else 0)


def no_err(t):
    return t[0] != "err" and all(no_err(c) for c in children(t))


def wf(t):
    if t[0] == "user" and ARITY.get(t[2]) != len(t[3]):
        return False
    return all(wf(c) for c in children(t))


def is_no_value(t):
    return t[0] == "user" and t[2] == "NoValue"


def layer(pool):
    """Every constructor of the signature applied to members of pool."""
    out = []
    for a in pool:
        out.append(user("List", a))
        out.append(user("Option", a))
        out.append(tup(a))
        out.append(fun([], a))
    for a in pool:
        for b in pool:
            out.append(user("Result", a, b))
            out.append(tup(a, b))
            out.append(fun([a], b))
    for a in pool:
        for b in pool:
            for c in pool:
                out.append(fun([a, b], c))
    return out


def random_type(rng, d, pool=ATOMS):
    if d <= 1 or rng.random() < 0.25:
        return rng.choice(pool)
    k = rng.randrange(8)
    sub = lambda: random_type(rng, d - 1, pool)
    if k == 0:
        return user("List", sub())
    if k == 1:
        return user("Option", sub())
    if k == 2:
        return user("Result", sub(), sub())
    if k == 3:
        return tup(sub())
    if k == 4:
        return tup(sub(), sub())
    if k == 5:
        return fun([], sub())
    if k == 6:
        return fun([sub()], sub())
    return fun([sub(), sub()], sub())


def rebuild(t, kids):
    k = t[0]
    if k == "tuple":
        return ("tuple", tuple(kids))
    if k == "fun":
        return ("fun", t[1], tuple(kids[:-1]), kids[-1])
    if k == "user":
        return ("user", t[1], t[2], tuple(kids))
    return t


def move(rng, t, up):
    """A type that is (usually) above t when up else below t: follow the variance down a random
    path and replace the subterm there by Any / a fresh supertype (resp. NoValue)."""
    kids = children(t)
    if not kids or rng.random() < 0.35:
        r = rng.random()
        if up:
            return ANY if r < 0.6 else t
        return NOVALUE if r < 0.6 else t
    i = rng.randrange(len(kids))
    flip = t[0] == "fun" and i < len(kids) - 1
    kids[i] = move(rng, kids[i], up != flip)
    return rebuild(t, kids)


def perturb(rng, t):
    """Replace one random subterm by a random atom (related or unrelated result)."""
    kids = children(t)
    if not kids or rng.random() < 0.3:
        return rng.choice(ATOMS)
    i = rng.randrange(len(kids))
    kids[i] = perturb(rng, kids[i])
    return rebuild(t, kids)


def ill_formed(rng, t):
    """Break the arity or the kind of one user-defined type inside t (or of t itself)."""
    kids = children(t)
    if t[0] == "user" and (not kids or rng.random() < 0.5):
        r = rng.random()
        if r < 0.4:
            return ("user", t[1], t[2], tuple(kids[:-1])) if kids else ("user", t[1], t[2], (rng.choice(ATOMS),))
        if r < 0.8:
            return ("user", t[1], t[2], tuple(kids) + (rng.choice(ATOMS),))
        return ("user", "enum" if t[1] == "struct" else "struct", t[2], tuple(kids))
    if not kids:
        return user(rng.choice(["Int", "NoValue", "List", "Result"]), *[rng.choice(ATOMS) for _ in range(rng.randrange(4))])
    i = rng.randrange(len(kids))
    kids[i] = ill_formed(rng, kids[i])
    return rebuild(t, kids)


# --------------------------------------------------------------------------------------
# Running implementation (hook) and model on many requests

class Runner:
    """Caches encodings; runs `subtype` / `unify` / `unify_all` on both sides in chunks."""

    def __init__(self, ctx, exe, mdl):
        self.ctx, self.exe, self.mdl = ctx, exe, mdl
        self.js, self.en = {}, {}
        self.mism = {}

    def j(self, t):
        r = self.js.get(t)
        if r is None:
            r = self.js[t] = json.dumps(to_json(t), separators=(",", ":"))
        return r

    def e(self, t):
        r = self.en.get(t)
        if r is None:
            r = self.en[t] = enc(t)
        return r

    def _run(self, ilines, mlines, timeout=1800):
        rc, ires, ierr = common.run_lines(self.exe, ["verif-batch"], ilines, timeout=timeout, shards=common.NCPU)
        if self.mdl:
            rc2, mres, merr = common.run_lines(self.mdl, [], mlines, timeout=timeout, shards=common.NCPU)
        else:
            mres = [None] * len(ilines)
        if len(ires) < len(ilines):
            ires = ires + ['{"missing":true}'] * (len(ilines) - len(ires))
        return ires, mres

    def note(self, what, req, impl, model):
        self.ctx.stat("correspondence_mismatch " + what)
        l = self.mism.setdefault(what, [])
        if len(l) < 5:
            l.append({"request": req, "impl": impl, "model": model})

    def subtype(self, pairs, chunk=400000):
        """pairs: list of (a, b) -> list of bool (implementation); None when the hook failed."""
        out = []
        for s in range(0, len(pairs), chunk):
            part = pairs[s:s + chunk]
            il = ['{"op":"subtype","a":%s,"b":%s}' % (self.j(a), self.j(b)) for a, b in part]
            ml = ["subtype\t%s\t%s" % (self.e(a), self.e(b)) for a, b in part]
            ires, mres = self._run(il, ml)
            for k, line in enumerate(ires):
                if line == '{"result":true}':
                    v = True
                elif line == '{"result":false}':
                    v = False
                else:
                    v = None
                out.append(v)
                m = mres[k]
                if m is not None and m != ("true" if v else "false" if v is False else "?"):
                    self.note("subtype", "%s <: %s" % (show(part[k][0]), show(part[k][1])), line[:200], m)
        return out

    def _ty_of_line(self, line, cache):
        r = cache.get(line)
        if r is None:
            try:
                jj = json.loads(line)
                if "result" not in jj:
                    r = ("bad", line[:200])
                elif jj["result"] is None:
                    r = ("none",)
                else:
                    r = ("some", from_json(jj["result"]))
            except Exception:
                r = ("bad", line[:200])
            cache[line] = r
        return r

    def unify(self, pairs, chunk=400000):
        """-> list of ('none',) | ('some', type) | ('bad', text)"""
        out, cache = [], {}
        for s in range(0, len(pairs), chunk):
            part = pairs[s:s + chunk]
            il = ['{"op":"unify","a":%s,"b":%s}' % (self.j(a), self.j(b)) for a, b in part]
            ml = ["unify\t%s\t%s" % (self.e(a), self.e(b)) for a, b in part]
            ires, mres = self._run(il, ml)
            for k, line in enumerate(ires):
                r = self._ty_of_line(line, cache)
                out.append(r)
                m = mres[k]
                if m is not None:
                    want = "none" if r[0] == "none" else self.e(r[1]) if r[0] == "some" else "?"
                    if m != want:
                        self.note("unify", "unify(%s, %s)" % (show(part[k][0]), show(part[k][1])), line[:300], m)
        return out

    def unify_all(self, lists):
        out, cache = [], {}
        il = ['{"op":"unify_all","tys":[%s]}' % ",".join(self.j(t) for t in ts) for ts in lists]
        ml = ["\t".join(["unify_all"] + [self.e(t) for t in ts]) for ts in lists]
        ires, mres = self._run(il, ml)
        for k, line in enumerate(ires):
            r = self._ty_of_line(line, cache)
            out.append(r)
            m = mres[k]
            if m is not None:
                want = "none" if r[0] == "none" else self.e(r[1]) if r[0] == "some" else "?"
                if m != want:
                    self.note("unify_all", "unify_all([%s])" % ", ".join(show(t) for t in lists[k]), line[:300], m)
        return out

    def report(self):
        for what, l in self.mism.items():
            n = self.ctx.stats.get("correspondence_mismatch " + what, 0)
            self.ctx.broken("correspondence:" + what,
                            "extracted model and implementation differ on %d requests, e.g. %s" % (n, json.dumps(l[:3])))


def limited_violation(ctx, key, what, rp, per_key=3):
    """ctx.violation keeps at most 50 entries in total: keep a few per failing class so that every class is reported."""
    seen = ctx.cov.setdefault("violations_per_key", {})
    seen[key] = seen.get(key, 0) + 1
    if seen[key] <= per_key:
        ctx.violation(key, what, rp)


def hook_cmd(req):
    return "echo '%s' | garden verif-batch   # binary built with RUSTFLAGS='--cfg wilfred_garden_verif'" % json.dumps(req)


def exhaustive_set(ctx):
    atoms = ATOMS if ctx.thorough else ATOMS_QUICK
    return atoms + layer(atoms)


def sampled_pairs(ctx, rng):
    """Pairs outside the exhaustive square: (quick) a seeded sample of the full depth-2 square, depth-3
    pairs related by widening / narrowing / perturbation, and ill-formed types."""
    pairs = []
    full = ATOMS + layer(ATOMS)
    if not ctx.thorough:
        for _ in range(40000):
            a = rng.choice(full)
            b = rng.choice(full) if rng.random() < 0.5 else (move(rng, a, True) if rng.random() < 0.5 else perturb(rng, a))
            pairs.append((a, b))
    n3 = 200000 if ctx.thorough else 20000
    for _ in range(n3):
        a = random_type(rng, 3)
        r = rng.random()
        if r < 0.3:
            b = move(rng, a, True)
        elif r < 0.5:
            b = move(rng, a, False)
        elif r < 0.8:
            b = perturb(rng, a)
        else:
            b = random_type(rng, 3)
        pairs.append((a, b))
    nill = 100000 if ctx.thorough else 10000
    for _ in range(nill):
        a = ill_formed(rng, random_type(rng, 3))
        r = rng.random()
        if r < 0.4:
            b = ill_formed(rng, a)
        elif r < 0.7:
            b = perturb(rng, a)
        else:
            b = ill_formed(rng, move(rng, a, True))
        pairs.append((a, b) if rng.random() < 0.5 else (b, a))
    return pairs


def expected_from_components(a, b, look):
    """The documented variance rule for two composite types in terms of the relation on their
    components (look(x, y) = the implementation's own answer). None when the rule does not apply."""
    if a[0] == "tuple" and b[0] == "tuple":
        return len(a[1]) == len(b[1]) and all(look(x, y) for x, y in zip(a[1], b[1]))
    if a[0] == "fun" and b[0] == "fun":
        return len(a[2]) == len(b[2]) and all(look(y, x) for x, y in zip(a[2], b[2])) and look(a[3], b[3])
    if a[0] == "user" and b[0] == "user" and not is_no_value(a):
        return a[2] == b[2] and all(look(x, y) for x, y in zip(a[3], b[3]))
    return None


def runtime_stage(ctx, exe, R):
    """The property speaks of the relation `the checker and the runtime use`: the runtime applies it in check_type
    (hinted let, parameter, return, field). Values of known runtime types are bound to hinted lets on the real
    interpreter; acceptance must be exactly the implementation's own is_subtype answer (hook) for
    (type of the value, hint), which the exhaustive stage ties to the proved model."""
    from vplib import oracle
    opt = lambda t: user("Option", t)
    lst = lambda t: user("List", t)
    res = lambda a, b: user("Result", a, b)
    f_ii, f_is, f_si = fun([INT], INT), fun([INT], STRING), fun([STRING], INT)
    f_0i, f_iib = fun([], INT), fun([INT, STRING], BOOL)
    f_hi = fun([f_ii], INT)
    values = [("1", INT), ('"s"', STRING), ("True", BOOL), ("[1]", lst(INT)), ("[]", lst(NOVALUE)), ('(1, "a")', tup(INT, STRING)),
              ("()", tup()), ("Some(1)", opt(INT)), ("None", opt(NOVALUE)), ("Ok(1)", res(INT, NOVALUE)), ('Err("e")', res(NOVALUE, STRING)),
              ("fun(x: Int): Int { x }", f_ii), ('fun(x: Int): String { "r" }', f_is), ("fun(x: String): Int { 1 }", f_si),
              ("fun(): Int { 1 }", f_0i), ("fun(x: Int, y: String): Bool { True }", f_iib),
              ("fun(g: Fun<(Int), Int>): Int { g(1) }", f_hi), ("[fun(x: Int): Int { x }]", lst(f_ii)),
              ("Some(fun(x: Int): String { \"r\" })", opt(f_is)), ("(fun(x: Int): Int { x }, 1)", tup(f_ii, INT))]
    hints = [INT, STRING, BOOL, UNIT, lst(INT), lst(STRING), tup(INT, STRING), tup(INT, INT), tup(), opt(INT), opt(STRING),
             res(INT, STRING), f_ii, f_is, f_si, f_0i, f_iib, fun([INT, INT], INT), f_hi, fun([f_is], INT), lst(f_ii), lst(f_is),
             opt(f_is), opt(f_ii), tup(f_ii, INT), tup(f_si, INT)]
    cases = [(vs, vt, h) for (vs, vt) in values for h in hints]
    want = R.subtype([(vt, h) for (vs, vt, h) in cases])
    got = oracle.batch(exe, [{"op": "run", "src": "let v: %s = %s\nprintln(\"accepted\")\n" % (show(h), vs), "tick_limit": 10000}
                             for (vs, vt, h) in cases], timeout=600)
    for (vs, vt, h), w, g in zip(cases, want, got):
        outs = g.get("outcomes") or [{}]
        o = outs[0]
        if o.get("kind") == "ok":
            acc = True
        elif o.get("kind") == "exception" and "Expected" in (o.get("message") or ""):
            acc = False
        else:
            ctx.stat("runtime probe: other outcome")
            continue
        ctx.case({"value": vs, "hint": show(h)}, vt[0] in ("fun", "tuple") or bool(vt[3] if vt[0] == "user" else ()))
        ctx.stat("runtime probe %s" % ("accepted" if acc else "rejected"))
        if w is not None and acc != w:
            limited_violation(ctx, "C14:runtime-check-differs-from-is_subtype:%s" % ("accepts" if acc else "rejects"),
                              "the runtime %s `let v: %s = %s` but is_subtype(%s, %s) is %s"
                              % ("accepts" if acc else "rejects", show(h), vs, show(vt), show(h), w),
                              {"input": "let v: %s = %s" % (show(h), vs), "value_type": show(vt), "hint": show(h),
                               "is_subtype": w, "runtime_accepts": acc, "cli_command": "garden run <file with the input>"})


def run(ctx):
    ctx.trusted = [
        "Coq 8.16.1 kernel (coqc); vm_compute only in closed examples / counterexamples",
        "coq/Types.v: hand-written mirror of garden_type.rs::is_subtype (fields that is_subtype never reads are erased)",
        "Extraction (ExtrOcamlBasic only) + ocaml/ops_types.ml, conv_template.ml",
        "cfg-gated hook `garden verif-batch` ops subtype/unify/unify_all: JSON -> Type decoding (src/verif_hooks.rs)",
    ]
    ctx.coq("Properties/C14.v")
    exe = ctx.impl()
    mdl = ctx.model()
    if not exe:
        return
    rng = ctx.rng
    R = Runner(ctx, exe, mdl)

    runtime_stage(ctx, exe, R)

    # ---- 1. exhaustive square ---------------------------------------------------------
    S = exhaustive_set(ctx)
    n = len(S)
    idx = {t: i for i, t in enumerate(S)}
    ctx.log("exhaustive set: %d types, %d ordered pairs" % (n, n * n))
    pairs = [(a, b) for a in S for b in S]
    res = R.subtype(pairs)
    M = [0] * n          # M[i] bit j  <=>  implementation says S[i] <: S[j]
    bad = 0
    for i in range(n):
        row = 0
        base = i * n
        for j2 in range(n):
            v = res[base + j2]
            if v:
                row |= 1 << j2
            elif v is None:
                bad += 1
        M[i] = row
    if bad:
        ctx.broken("hook:subtype", "%d requests got no boolean answer from the hook" % bad)
    ctx.evaluations += n * n
    okmask = 0
    for i, t in enumerate(S):
        if wf(t) and no_err(t):
            okmask |= 1 << i
    ok_idx = [i for i in range(n) if okmask >> i & 1]
    ctx.stat("exhaustive types", n)
    ctx.stat("exhaustive well-formed error-free types", len(ok_idx))
    ctx.stat("exhaustive pairs", n * n)
    ctx.stat("exhaustive pairs related", sum(bin(r).count("1") for r in M))

    def look(x, y):
        return bool(M[idx[x]] >> idx[y] & 1)

    def viol(key, what, a, b, expected, observed, extra=None):
        req = {"op": "subtype", "a": to_json(a), "b": to_json(b)}
        rp = {"input": req, "a": show(a), "b": show(b), "expected": expected, "observed": observed,
              "cli_command": hook_cmd(req)}
        if extra:
            rp.update(extra)
        limited_violation(ctx, key, what, rp)

    # reflexivity (every type: the theorem needs no hypothesis)
    for i in range(n):
        if not M[i] >> i & 1:
            viol("C14:reflexivity", "%s is not a subtype of itself" % show(S[i]), S[i], S[i], True, False)
    # transitivity on well-formed error-free types: row(j) within row(i) whenever i <: j
    ntr = 0
    for i in ok_idx:
        ri = M[i] & okmask
        r = ri
        while r:
            low = r & -r
            j2 = low.bit_length() - 1
            r ^= low
            miss = M[j2] & okmask & ~ri
            ntr += 1
            if miss:
                k = (miss & -miss).bit_length() - 1
                viol("C14:transitivity", "%s <: %s <: %s but not %s <: %s" % (show(S[i]), show(S[j2]), show(S[k]), show(S[i]), show(S[k])),
                     S[i], S[k], True, False, {"middle": show(S[j2]), "middle_json": to_json(S[j2])})
    ctx.stat("transitivity: related pairs closed against all third types", ntr)
    ctx.evaluations += ntr
    # top and bottom, both directions
    ia, inv = idx[ANY], idx[NOVALUE]
    for i in range(n):
        if not M[i] >> ia & 1:
            viol("C14:any-top", "%s is not a subtype of Any" % show(S[i]), S[i], ANY, True, False)
        if not M[inv] >> i & 1:
            viol("C14:novalue-bottom", "NoValue is not a subtype of %s" % show(S[i]), NOVALUE, S[i], True, False)
    for i in ok_idx:
        if i != ia and M[ia] >> i & 1:
            viol("C14:any-top-strict", "Any is a subtype of %s" % show(S[i]), ANY, S[i], False, True)
        if i != inv and M[i] >> inv & 1:
            viol("C14:novalue-bottom-strict", "%s is a subtype of NoValue" % show(S[i]), S[i], NOVALUE, False, True)
    # variance: composite vs composite from the implementation's own answers on the components
    comp = [i for i in range(n) if children(S[i]) and all(c in idx for c in children(S[i]))]
    nvar = 0
    for i in comp:
        a = S[i]
        if is_no_value(a):
            continue
        for j2 in comp:
            b = S[j2]
            want = expected_from_components(a, b, look)
            if want is None:
                want = False          # different heads, neither Any / NoValue / Error
            nvar += 1
            if bool(M[i] >> j2 & 1) != want:
                kind = a[0] if a[0] == b[0] else "heads"
                viol("C14:variance:" + kind,
                     "%s <: %s is %s but the variance rule applied to the implementation's answers on the components gives %s"
                     % (show(a), show(b), bool(M[i] >> j2 & 1), want), a, b, want, bool(M[i] >> j2 & 1))
    ctx.stat("variance: composite pairs checked", nvar)
    ctx.evaluations += nvar
    for i in range(n):
        row = M[i]
        while row:
            low = row & -row
            j2 = low.bit_length() - 1
            row ^= low
            if i != j2 and len(ctx.distinct) < 2000000:
                ctx.distinct.add((i << 20) | j2)
    for i in comp[:: max(1, len(comp) // 6)]:
        ctx.samples.append({"a": show(S[i]), "b": show(S[comp[(i * 7) % len(comp)]]),
                            "subtype": look(S[i], S[comp[(i * 7) % len(comp)]])})

    # ---- 2. sampled pairs: depth 3, ill-formed, (quick) the full depth-2 square ---------------
    sp = sampled_pairs(ctx, rng)
    ctx.log("sampled pairs: %d" % len(sp))
    sres = R.subtype(sp)
    refl = sorted(set(a for a, _ in sp) | set(b for _, b in sp))
    rres = R.subtype([(t, t) for t in refl])
    for t, v in zip(refl, rres):
        ctx.stat("reflexivity cases")
        if v is not True and wf(t) and no_err(t):
            viol("C14:reflexivity", "%s is not a subtype of itself" % show(t), t, t, True, v)
        elif v is not True:
            ctx.stat("reflexivity fails on an ill-formed or error type")   # the model proves it for all: correspondence reports it
    for (a, b), v in zip(sp, sres):
        ctx.stat("sampled " + ("ill-formed" if not (wf(a) and wf(b)) else "depth %d" % max(depth(a), depth(b)))
                 + (" related" if v else " unrelated"))
        if v and a != b:
            ctx.distinct.add((enc(a), enc(b)))
    ctx.evaluations += len(sp) + len(refl)

    # ---- 3. sampled triples (depth 3): a <: b <: c  =>  a <: c -----------------------------
    ntri = 60000 if ctx.thorough else 8000
    tri = []
    for _ in range(ntri):
        a = random_type(rng, 3, [x for x in ATOMS if x != ERR])
        b = move(rng, a, True) if rng.random() < 0.85 else perturb(rng, a)
        c = move(rng, b, True) if rng.random() < 0.85 else perturb(rng, b)
        if rng.random() < 0.3:
            a = move(rng, a, False)
        if no_err(a) and no_err(b) and no_err(c):
            tri.append((a, b, c))
    tres = R.subtype([p for (a, b, c) in tri for p in ((a, b), (b, c), (a, c))])
    for k, (a, b, c) in enumerate(tri):
        ab, bc, ac = tres[3 * k], tres[3 * k + 1], tres[3 * k + 2]
        prem = bool(ab and bc)
        ctx.stat("triples with both premises" if prem else "triples without premises")
        if prem and a != b and b != c:
            ctx.distinct.add((enc(a), enc(b), enc(c)))
        if prem and not ac:
            viol("C14:transitivity", "%s <: %s <: %s but not %s <: %s" % (show(a), show(b), show(c), show(a), show(c)),
                 a, c, True, False, {"middle": show(b), "middle_json": to_json(b)})
    ctx.evaluations += len(tri)

    # ---- 4. variance at depth 3: composites over the exhaustive set ------------------------
    nv3 = 40000 if ctx.thorough else 6000
    vp = []
    okS = [S[i] for i in ok_idx]
    for _ in range(nv3):
        k = rng.randrange(5)
        x1, x2, y1, y2 = (rng.choice(okS) for _ in range(4))
        if rng.random() < 0.6:
            y1 = move(rng, x1, True)
            y1 = y1 if y1 in idx else x1
        if rng.random() < 0.6:
            y2 = move(rng, x2, True)
            y2 = y2 if y2 in idx else x2
        if k == 0:
            a, b, want = user("List", x1), user("List", y1), look(x1, y1)
        elif k == 1:
            a, b, want = user("Result", x1, x2), user("Result", y1, y2), look(x1, y1) and look(x2, y2)
        elif k == 2:
            a, b, want = tup(x1, x2), tup(y1, y2), look(x1, y1) and look(x2, y2)
        elif k == 3:
            a, b, want = fun([y1], x2), fun([x1], y2), look(x1, y1) and look(x2, y2)
        else:
            a, b, want = fun([y1, x1], x2), fun([x1, x1], y2), look(x1, y1) and look(x2, y2)
        vp.append((a, b, want))
    vres = R.subtype([(a, b) for a, b, _ in vp])
    for (a, b, want), v in zip(vp, vres):
        ctx.stat("variance depth 3 " + ("related" if want else "unrelated"))
        if bool(v) != bool(want):
            viol("C14:variance:" + a[0], "%s <: %s is %s, the variance rule over the components gives %s" % (show(a), show(b), v, want),
                 a, b, bool(want), v)
    ctx.evaluations += len(vp)

    R.report()
    ctx.notes.append("well-formed = arities of the prelude signature; the Coq theorems hold for every arity signature")
    ctx.notes.append("quick tier: exhaustive over 6 atoms (354 types) + seeded sample of the 1350^2 square; thorough: all 1350^2 pairs")
    ctx.notes.append("Fun.name_sym / Fun.type_params / Error fields cannot be set through the hook (always None / [] / 'verif'); "
                     "is_subtype ignores them (`..` patterns), which is what the model's erasure relies on")


def replay(ctx, rp):
    exe = ctx.impl()
    req = rp["input"]
    rc, out, err = common.run_lines(exe, ["verif-batch"], [json.dumps(req)])
    print("request:", json.dumps(req))
    print("observed now:", out, "| recorded:", rp.get("observed"), "| expected:", rp.get("expected"))
    try:
        now = json.loads(out[0]).get("result")
    except Exception:
        now = None
    return 0 if now == rp.get("expected") else 1
