"""C15 -- Inferred types of lists and branches cover every element."""
import concurrent.futures
import json
import os
import re
import shutil
import tempfile

from vplib import common, oracle
from props import C14 as TY
from props.C14 import (ANY, ERR, NOVALUE, INT, STRING, BOOL, UNIT, T, U, ATOMS, show, enc, to_json, wf, no_err, user, tup, fun,
                       children, is_no_value)

LEVEL = "proof"
RULE = ("Coq: Properties/C15.v over Types.v (executable mirrors of unify / unify_all and of what each call site does "
        "with the answer). Dynamic: the real `unify` / `unify_all` (hook ops of `garden verif-batch`) against the "
        "extracted model on ALL ordered pairs of the enumerated depth <= 2 set (as C14), sampled depth-3 pairs related "
        "by widening / narrowing, ill-formed types, and seeded lists for unify_all. Directly on the implementation: "
        "whenever unify(a, b) = c the real is_subtype is asked a <: c and b <: c; unify(a, a) = a on every generated "
        "type; unify_all(ts) = c implies t <: c for every element, and unify_all of n copies of t is t. Call sites: "
        "generated programs (list literal, dict literal, if/else, try/catch, match arms, list literal and match "
        "checked against a declared type) over parameter types drawn from the signature are run through "
        "`garden check --json` and `garden reftest-hover`; the reported type must equal the model's site_* answer "
        "and every element type must be a subtype (real is_subtype) of the reported combined type; an Error result "
        "must come with an error diagnostic. A pair is non-trivial when unify returns a type different from both "
        "arguments or descends into type arguments.")
META = {
    "technique": "Coq proof over an executable model of unify/unify_all and their call sites + exhaustive differential "
                 "execution against the real functions + generated programs through the real checker",
    "level_text": ("Coq theorems (unbounded): unify_upper (for ALL types: unify a b = Some c -> a <: c and b <: c on the "
                   "executable is_subtype), unify_idem (unify a a = Some a), unify_all_same, unify_preserves_ok, "
                   "unify_all_upper (well-formed error-free elements; uses C14's sub_trans), and per call site "
                   "site_list_upper / site_dict_upper / site_check_list_upper / site_branches_upper / site_match_upper "
                   "with their fall-backs (Any, Error, the expected type) shown to be upper bounds; "
                   "site_branches_error_free: an error-free result is unify's own answer."),
    "level_note": ("Trusted: Coq kernel; coq/Types.v (hand-written mirror of type_checker.rs::unify, unify_all and of the "
                   "five call-site fall-backs; Fun.name_sym/type_params and Error's fields are one opaque tag compared "
                   "only by `==`; the hook always builds tag 0); extraction + ocaml/ops_types.ml; the cfg-gated hook; "
                   "hover output parsing (type kinds are restored from the prelude's table). How element types are "
                   "inferred in the first place is C16's subject, not C15's."),
    "design_ref": "DESIGN.md §5 C15, §10",
}


# --------------------------------------------------------------------------------------
# Garden source syntax for types / parsing of `Display for Type`

def hint(t):
    """Type-hint source text, or None when the type cannot be written (Any, Error)."""
    k = t[0]
    if k == "any" or k == "err":
        return None
    if k == "param":
        return t[1]
    parts = [hint(c) for c in children(t)]
    if any(p is None for p in parts):
        return None
    if k == "tuple":
        return "(" + ", ".join(parts) + ")"
    if k == "fun":
        return "Fun<(" + ", ".join(parts[:-1]) + "), " + parts[-1] + ">"
    return t[2] + ("<" + ", ".join(parts) + ">" if parts else "")


class DisplayParser:
    def __init__(self, s):
        self.s, self.i = s, 0

    def eat(self, lit):
        if self.s.startswith(lit, self.i):
            self.i += len(lit)
            return True
        return False

    def seq(self, close):
        items = []
        if self.eat(close):
            return items
        while True:
            items.append(self.ty())
            if self.eat(close):
                return items
            if not self.eat(", "):
                raise ValueError("expected , at %d in %r" % (self.i, self.s))

    def ty(self):
        if self.eat("__ERROR("):
            d = 1
            while d:
                c = self.s[self.i]
                d += (c == "(") - (c == ")")
                self.i += 1
            return ("err", 1)
        if self.eat("("):
            return ("tuple", tuple(self.seq(")")))
        m = re.compile(r"[A-Za-z_][A-Za-z0-9_]*").match(self.s, self.i)
        if not m:
            raise ValueError("expected a type at %d in %r" % (self.i, self.s))
        name = m.group(0)
        self.i = m.end()
        if name == "Any":
            return ANY
        if name == "Fun" and self.eat("<("):
            ps = self.seq(")")
            if not self.eat(", "):
                raise ValueError("Fun without return type in %r" % self.s)
            r = self.ty()
            if not self.eat(">"):
                raise ValueError("unterminated Fun in %r" % self.s)
            return ("fun", 0, tuple(ps), r)
        args = self.seq(">") if self.eat("<") else []
        if name in ("T", "U") and not args:
            return ("param", name)
        return ("user", TY.KIND.get(name, "struct"), name, tuple(args))


def parse_display(s):
    p = DisplayParser(s)
    t = p.ty()
    if p.i != len(s):
        raise ValueError("trailing text in %r" % s)
    return t


def erase_err_tags(t):
    if t[0] == "err":
        return ("err", 0)
    kids = children(t)
    return TY.rebuild(t, [erase_err_tags(c) for c in kids]) if kids else t


def dec(s):
    """Model driver's encoding -> tuple type."""
    toks = s.split(" ")
    pos = [0]

    def one():
        t = toks[pos[0]]
        pos[0] += 1
        c = t[0]
        if t == "A":
            return ANY
        if c == "T":
            return ("tuple", tuple(one() for _ in range(int(t[1:]))))
        if c == "F":
            tag, n = t[1:].split(".")
            ps = tuple(one() for _ in range(int(n)))
            return ("fun", int(tag), ps, one())
        if c in "ES":
            k, name, n = t.split(".")
            return ("user", "enum" if k == "E" else "struct", name, tuple(one() for _ in range(int(n))))
        if c == "P":
            return ("param", t[2:])
        return ("err", int(t[1:]))
    return one()


# --------------------------------------------------------------------------------------
# Call sites through the real checker

FORMS = ["list", "dict", "if", "try", "match", "check_list", "check_match"]


def lower(rng, t):
    """Replace random subterms under user-defined constructors by NoValue (what unify can merge)."""
    if t[0] == "user" and t[3]:
        kids = [NOVALUE if rng.random() < 0.35 else lower(rng, c) for c in t[3]]
        return TY.rebuild(t, kids)
    return t


def site_program(form, ts, expected=None):
    """Source of one function whose parameters have the element types ts; the caret marks the
    combined expression (or the variable bound to it). Returns None when a type has no hint."""
    params = ["b: Bool", "o: Option<Int>"]
    for i, t in enumerate(ts):
        h = hint(t)
        if t == ANY:
            params.append("p%d" % i)
        elif h is None:
            return None
        else:
            params.append("p%d: %s" % (i, h))
    ps = ["p%d" % i for i in range(len(ts))]
    ret = ""
    if form == "list":
        expr = "[" + ", ".join(ps) + "]"
    elif form == "dict":
        expr = "Dict[" + ", ".join('"k%d" => %s' % (i, p) for i, p in enumerate(ps)) + "]"
    elif form == "if":
        expr = "if b { %s } else { %s }" % (ps[0], ps[1])
    elif form == "try":
        expr = "try { %s } catch (e) { %s }" % (ps[0], ps[1])
    elif form in ("match", "check_match"):
        expr = "match o { Some(_) => %s, None => %s }" % (ps[0], ps[1])
    elif form == "check_list":
        expr = "[" + ", ".join(ps) + "]"
    head = "fun f<T, U>(%s)" % ", ".join(params)
    if form == "check_list":
        eh = hint(expected)
        if eh is None:
            return None
        body = "  let r: List<%s> = %s\n  //%s^\n  r\n" % (eh, expr, " " * (len("let r: List<%s> = " % eh) - 2))
    elif form == "check_match":
        eh = hint(expected)
        if eh is None:
            return None
        head += ": " + eh
        body = "  %s\n//^\n" % expr
    else:
        body = "  let r = %s\n  //  ^\n  r\n" % expr
    return "%s {\n%s}\n" % (head, body)


def run_site(exe, d, k, src):
    p = os.path.join(d, "site%d.gdn" % k)
    with open(p, "w") as f:
        f.write(src)
    rc1, out1, err1 = oracle.garden_cli(exe, ["check", "--json", p], timeout=60)
    rc2, out2, err2 = oracle.garden_cli(exe, ["reftest-hover", p], timeout=60)
    errors = [x["message"] for x in parse_diags(out1) if x.get("severity") == "error"]
    crashed = rc1 == 101 or rc2 == 101 or "panicked at" in err1 + err2
    return {"errors": errors, "hover": out2.strip(), "crashed": crashed, "stderr": (err1 + err2)[-300:]}


def parse_diags(out):
    diags = []
    for line in out.splitlines():
        line = line.strip()
        if line.startswith("{"):
            try:
                diags.append(json.loads(line))
            except ValueError:
                pass
    return diags


def run_sites(exe, srcs):
    """All programs in ONE file for `garden check --json` (diagnostics are attributed by line), one small file
    per program for `garden reftest-hover` (it needs a single caret). Falls back to one check per program if the
    combined check crashes."""
    d = tempfile.mkdtemp(dir=oracle.scratch_dir())
    try:
        starts, text, line = [], [], 1
        for k, src in enumerate(srcs):
            body = src.replace("fun f<T, U>", "fun f%d<T, U>" % k, 1)
            starts.append(line)
            text.append(body)
            line += body.count("\n")
        allp = os.path.join(d, "all.gdn")
        with open(allp, "w") as f:
            f.write("".join(text))
        rc, out, err = oracle.garden_cli(exe, ["check", "--json", allp], timeout=600)
        errors = [[] for _ in srcs]
        combined_ok = rc != 101 and rc != 124 and "panicked at" not in err
        if combined_ok:
            import bisect
            for x in parse_diags(out):
                if x.get("severity") == "error":
                    k = bisect.bisect_right(starts, x.get("line_number", 1)) - 1
                    errors[max(k, 0)].append(x["message"])

        def one(k):
            p = os.path.join(d, "site%d.gdn" % k)
            with open(p, "w") as f:
                f.write(srcs[k])
            crashed, stderr = False, ""
            if not combined_ok:
                rc1, out1, err1 = oracle.garden_cli(exe, ["check", "--json", p], timeout=60)
                errors[k] = [x["message"] for x in parse_diags(out1) if x.get("severity") == "error"]
                crashed = rc1 == 101 or "panicked at" in err1
                stderr = err1
            rc2, out2, err2 = oracle.garden_cli(exe, ["reftest-hover", p], timeout=60)
            crashed = crashed or rc2 == 101 or "panicked at" in err2
            return {"errors": errors[k], "hover": out2.strip(), "crashed": crashed, "stderr": (stderr + err2)[-300:]}
        with concurrent.futures.ThreadPoolExecutor(common.NCPU) as ex:
            return list(ex.map(one, range(len(srcs))))
    finally:
        shutil.rmtree(d, ignore_errors=True)


def call_sites(ctx, exe, mdl, R, rng):
    pool = [INT, STRING, BOOL, UNIT, NOVALUE, ANY, T, U, tup(), tup(INT, STRING), tup(INT, NOVALUE), tup(NOVALUE, INT),
            fun([INT], STRING), fun([], INT), fun([INT], NOVALUE),
            user("List", INT), user("List", NOVALUE), user("List", STRING), user("List", user("List", NOVALUE)),
            user("List", user("List", INT)), user("Option", NOVALUE), user("Option", INT), user("Option", STRING),
            user("Option", user("List", NOVALUE)), user("Option", user("List", INT)),
            user("Result", INT, NOVALUE), user("Result", NOVALUE, STRING), user("Result", INT, STRING),
            user("Result", NOVALUE, NOVALUE), user("List", T), user("Option", T), user("List", tup(INT, INT)),
            user("List", ANY)]
    pool = [t for t in pool if t == ANY or hint(t) is not None]
    n = 700 if ctx.thorough else 120
    cases = []
    fixed = [("list", [INT, STRING], None), ("list", [user("List", NOVALUE), user("List", INT)], None),
             ("dict", [user("Option", NOVALUE), user("Option", INT)], None), ("if", [INT, STRING], None),
             ("if", [user("Result", INT, NOVALUE), user("Result", NOVALUE, STRING)], None),
             ("try", [NOVALUE, INT], None), ("match", [user("Option", NOVALUE), ANY], None),
             ("list", [fun([INT], STRING), fun([INT], STRING)], None), ("list", [tup(INT, NOVALUE), tup(NOVALUE, INT)], None),
             ("check_list", [tup(INT, NOVALUE), tup(NOVALUE, INT)], tup(INT, INT)),
             ("check_list", [user("Option", NOVALUE), user("Option", INT)], user("Option", INT)),
             ("check_match", [user("Option", NOVALUE), user("Option", NOVALUE)], user("Option", INT)),
             ("check_match", [tup(INT, NOVALUE), tup(NOVALUE, INT)], tup(INT, INT)),
             ("list", [], None), ("list", [INT], None), ("dict", [], None)]
    for form, ts, ex in fixed:
        cases.append((form, ts, ex))
    while len(cases) < n:
        form = rng.choice(FORMS)
        k = 2 if form in ("if", "try", "match", "check_match") else rng.choice([1, 2, 2, 3, 3, 4])
        base = rng.choice(pool)
        r = rng.random()
        if form in ("check_list", "check_match"):
            base = rng.choice([t for t in pool if t != ANY])
            ts = [lower(rng, base) if rng.random() < 0.8 else NOVALUE for _ in range(k)]
            ex = base
        elif r < 0.6:
            ts = [lower(rng, base) if rng.random() < 0.7 else base for _ in range(k)]
            ex = None
        else:
            ts = [rng.choice(pool) for _ in range(k)]
            ex = None
        cases.append((form, ts, ex))
    progs = []
    for form, ts, ex in cases:
        src = site_program(form, ts, ex)
        if src is not None:
            progs.append((form, ts, ex, src))
    outs = run_sites(exe, [pr[3] for pr in progs])
    # model answers
    mlines = []
    for form, ts, ex, src in progs:
        e = [R.e(t) for t in ts]
        if form == "list":
            mlines.append("\t".join(["site_list"] + e))
        elif form == "dict":
            mlines.append("\t".join(["site_dict"] + e))
        elif form in ("if", "try"):
            mlines.append("\t".join(["site_branches"] + e))
        elif form == "match":
            mlines.append("\t".join(["site_match", "A"] + e))
        elif form == "check_list":
            mlines.append("\t".join(["site_check_list"] + e))
        else:
            mlines.append("\t".join(["site_match", R.e(ex)] + e))
    mres = common.run_lines(mdl, [], mlines)[1] if mdl else [None] * len(progs)
    follow = []          # (case index, element, reported element type)
    for k, ((form, ts, ex, src), o) in enumerate(zip(progs, outs)):
        ctx.stat("site " + form)
        desc = {"form": form, "elements": [show(t) for t in ts], "expected": show(ex) if ex else None, "reported": o["hover"]}
        distinct = len(set(ts)) > 1
        ctx.case(desc, distinct)
        rp = {"input": src, "form": form, "elements": [show(t) for t in ts], "observed": o["hover"], "errors": o["errors"],
              "cli_command": "garden check --json site.gdn; garden reftest-hover site.gdn"}
        if o["crashed"]:
            TY.limited_violation(ctx, "C15:site:crash", "the checker crashed on a %s of %s" % (form, desc["elements"]), dict(rp, stderr=o["stderr"]))
            continue
        site_err = [m for m in o["errors"] if "different types" in m or "incompatible types" in m or "Expected" in m]
        other = [m for m in o["errors"] if m not in site_err]
        if other:
            ctx.stat("site: unrelated error diagnostic")
            continue
        reported = None
        if o["hover"]:
            try:
                reported = erase_err_tags(parse_display(o["hover"].splitlines()[0]))
            except (ValueError, IndexError):
                ctx.broken("site:hover-parse", "cannot parse hover output %r for\n%s" % (o["hover"], src))
                continue
        else:
            reported = ERR
        # (a) correspondence with the model of the call site (kinds and Error tags are not printed by Display)
        if mres[k] is not None:
            try:
                want = erase_err_tags(dec(mres[k]))
            except Exception:
                want = None
            if want is None or show(want) != show(reported):
                ctx.stat("correspondence_mismatch site")
                ctx.cov.setdefault("site_mismatch", [])
                if len(ctx.cov["site_mismatch"]) < 5:
                    ctx.cov["site_mismatch"].append({"src": src, "impl": o["hover"], "model": mres[k]})
        # (b) Error result only together with a diagnostic
        if not no_err(reported):
            if site_err:
                ctx.stat("site: error type with a diagnostic (excluded)")
            elif form == "check_list":
                # Known behaviour of the checked list literal (see notes): `unwrap_or(Type::error(..))` without a diagnostic.
                ctx.stat("site: checked list literal reports an Error element type WITHOUT a diagnostic")
            else:
                TY.limited_violation(ctx, "C15:site:error-without-diagnostic",
                              "%s of %s reports the type %r but the checker printed no diagnostic" % (form, desc["elements"], o["hover"]), rp)
            continue
        if site_err:
            ctx.stat("site: fall-back with a diagnostic")
        # (c) the reported combined type covers every element
        if form in ("list", "dict", "check_list"):
            head = "Dict" if form == "dict" else "List"
            if not (reported[0] == "user" and reported[2] == head and len(reported[3]) == 1):
                TY.limited_violation(ctx, "C15:site:" + form, "a %s literal is reported as %r" % (head, o["hover"]), rp)
                continue
            comb = reported[3][0]
        else:
            comb = reported
        for t in ts:
            follow.append((k, t, comb))
    fres = R.subtype([(t, c) for (_, t, c) in follow])
    for (k, t, c), v in zip(follow, fres):
        form, ts, ex, src = progs[k]
        ctx.stat("site: element <: reported type checked")
        if not v:
            TY.limited_violation(ctx, "C15:site:" + form,
                          "%s over %s: reported combined type %s is not a supertype of the element type %s"
                          % (form, [show(x) for x in ts], show(c), show(t)),
                          {"input": src, "form": form, "elements": [show(x) for x in ts], "observed": outs[k]["hover"],
                           "expected": "a supertype of " + show(t),
                           "cli_command": "garden check --json site.gdn; garden reftest-hover site.gdn"})
    if ctx.stats.get("correspondence_mismatch site"):
        ctx.broken("correspondence:call-sites", "model site_* and checker differ on %d programs, e.g. %s"
                   % (ctx.stats["correspondence_mismatch site"], json.dumps(ctx.cov["site_mismatch"][:2])))


# --------------------------------------------------------------------------------------

def run(ctx):
    ctx.trusted = [
        "Coq 8.16.1 kernel (coqc); vm_compute only in closed examples",
        "coq/Types.v: hand-written mirror of type_checker.rs::unify / unify_all / call-site fall-backs and garden_type.rs::is_subtype",
        "Extraction (ExtrOcamlBasic only) + ocaml/ops_types.ml, conv_template.ml",
        "cfg-gated hook `garden verif-batch` ops subtype/unify/unify_all (src/verif_hooks.rs, verif_unify* in type_checker.rs)",
        "garden check --json / reftest-hover as the observation of the call sites; Display-for-Type parser in tools/props/C15.py",
    ]
    ctx.coq("Properties/C15.v")
    exe = ctx.impl()
    mdl = ctx.model()
    if not exe:
        return
    rng = ctx.rng
    R = TY.Runner(ctx, exe, mdl)

    def viol(key, what, req, expected, observed, extra=None):
        rp = {"input": req, "expected": expected, "observed": observed, "cli_command": TY.hook_cmd(req)}
        if extra:
            rp.update(extra)
        TY.limited_violation(ctx, key, what, rp)

    # ---- 1. exhaustive square + samples --------------------------------------------------
    S = TY.exhaustive_set(ctx)
    n = len(S)
    ctx.log("exhaustive set: %d types, %d ordered pairs" % (n, n * n))
    pairs = [(a, b) for a in S for b in S]
    sp = TY.sampled_pairs(ctx, rng)
    nfriendly = 100000 if ctx.thorough else 12000
    for _ in range(nfriendly):
        a = TY.random_type(rng, 3, [x for x in ATOMS if x != ANY])
        if rng.random() < 0.6:      # a head unify descends into, with two places that can be lowered independently
            a = user("Result", TY.random_type(rng, 2, ATOMS), a)
            if rng.random() < 0.3:
                a = user(rng.choice(["List", "Option"]), a)
        b = lower(rng, a) if rng.random() < 0.7 else TY.move(rng, a, rng.random() < 0.5)
        a2 = lower(rng, a) if rng.random() < 0.5 else a
        sp.append((a2, b))
    ctx.log("sampled pairs: %d" % len(sp))
    allp = pairs + sp
    ures = R.unify(allp)
    ctx.evaluations += len(allp)
    ctx.stat("exhaustive types", n)
    ctx.stat("exhaustive pairs", n * n)
    need = []
    for k, ((a, b), r) in enumerate(zip(allp, ures)):
        where = "exhaustive" if k < len(pairs) else ("ill-formed" if not (wf(a) and wf(b)) else "sampled")
        if r[0] == "bad":
            ctx.stat("hook failures")
            if ctx.stats["hook failures"] <= 3:
                ctx.broken("hook:unify", "unify(%s, %s) -> %s" % (show(a), show(b), r[1]))
            continue
        if r[0] == "none":
            ctx.stat(where + " unify = none")
            continue
        c = r[1]
        deep = c != a and c != b
        ctx.stat(where + (" unify = new type" if deep else " unify = one of the arguments"))
        if deep or (a != b and children(c)):
            if len(ctx.distinct) < 2000000:
                ctx.distinct.add((R.e(a), R.e(b)))
        need.append((k, a, c))
        need.append((k, b, c))
        if wf(a) and wf(b) and no_err(a) and no_err(b) and not (wf(c) and no_err(c)):
            viol("C15:unify-leaves-well-formed-types", "unify(%s, %s) = %s is ill-formed or contains Error" % (show(a), show(b), show(c)),
                 {"op": "unify", "a": to_json(a), "b": to_json(b)}, "a well-formed error-free type", show(c))
    # upper bound, asked of the real is_subtype
    uniq = sorted(set((x, c) for (_, x, c) in need))
    ctx.log("upper-bound queries: %d" % len(uniq))
    sres = dict(zip(uniq, R.subtype(uniq)))
    ctx.evaluations += len(uniq)
    for k, x, c in need:
        if not sres[(x, c)]:
            a, b = allp[k]
            viol("C15:unify-upper", "unify(%s, %s) = %s but %s is not a subtype of it" % (show(a), show(b), show(c), show(x)),
                 {"op": "unify", "a": to_json(a), "b": to_json(b)}, "an upper bound of both arguments", show(c),
                 {"not_below": show(x), "subtype_request": {"op": "subtype", "a": to_json(x), "b": to_json(c)}})
    # idempotence on every generated type
    ctx.log("idempotence")
    alltypes = sorted(set(S) | set(a for a, _ in sp) | set(b for _, b in sp))
    ires = R.unify([(t, t) for t in alltypes])
    ctx.evaluations += len(alltypes)
    for t, r in zip(alltypes, ires):
        ctx.stat("idempotence cases")
        if r != ("some", t):
            viol("C15:unify-idem", "unify(%s, %s) = %s" % (show(t), show(t), show(r[1]) if r[0] == "some" else r[0]),
                 {"op": "unify", "a": to_json(t), "b": to_json(t)}, show(t), show(r[1]) if r[0] == "some" else r[0])

    # ---- 2. unify_all ------------------------------------------------------------------------
    nl = 60000 if ctx.thorough else 6000
    lists = [[], [INT], [ANY], [NOVALUE], [NOVALUE, NOVALUE], [ERR], [INT, ERR, INT], [INT, STRING], [NOVALUE, INT, NOVALUE, ANY]]
    for _ in range(nl):
        k = rng.choice([1, 2, 2, 3, 3, 4, 5])
        r = rng.random()
        base = TY.random_type(rng, 3, [x for x in ATOMS if x not in (ANY, ERR)])
        if r < 0.55:
            ts = [lower(rng, base) if rng.random() < 0.75 else base for _ in range(k)]
            if rng.random() < 0.15:
                ts[rng.randrange(k)] = ANY
        elif r < 0.7:
            ts = [base] * k
        elif r < 0.85:
            b2 = TY.ill_formed(rng, base)
            ts = [lower(rng, b2) if rng.random() < 0.5 else lower(rng, base) for _ in range(k)]
        else:
            ts = [TY.random_type(rng, 2) for _ in range(k)]
        lists.append(ts)
    ctx.log("unify_all lists: %d" % len(lists))
    lres = R.unify_all(lists)
    ctx.evaluations += len(lists)
    lneed = []
    for k, (ts, r) in enumerate(zip(lists, lres)):
        good = all(wf(t) and no_err(t) for t in ts)
        if r[0] != "some":
            ctx.stat("unify_all = " + r[0])
            if ts and all(t == ts[0] for t in ts):
                viol("C15:unify-all-same", "unify_all of %d copies of %s fails" % (len(ts), show(ts[0])),
                     {"op": "unify_all", "tys": [to_json(t) for t in ts]}, show(ts[0]), r[0])
            continue
        c = r[1]
        ctx.stat("unify_all = a type (%s elements)" % ("well-formed" if good else "ill-formed/error"))
        if len(set(ts)) > 1:
            ctx.distinct.add(tuple(R.e(t) for t in ts))
        if ts and all(t == ts[0] for t in ts) and c != ts[0]:
            viol("C15:unify-all-same", "unify_all of %d copies of %s is %s" % (len(ts), show(ts[0]), show(c)),
                 {"op": "unify_all", "tys": [to_json(t) for t in ts]}, show(ts[0]), show(c))
        for t in ts:
            lneed.append((k, t, c, good))
    luniq = sorted(set((t, c) for (_, t, c, _) in lneed))
    lsres = dict(zip(luniq, R.subtype(luniq)))
    ctx.evaluations += len(luniq)
    for k, t, c, good in lneed:
        if not lsres[(t, c)]:
            if good:
                viol("C15:unify-all-upper", "unify_all([%s]) = %s but %s is not a subtype of it"
                     % (", ".join(show(x) for x in lists[k]), show(c), show(t)),
                     {"op": "unify_all", "tys": [to_json(x) for x in lists[k]]}, "an upper bound of every element", show(c))
            else:
                ctx.stat("unify_all result not above an element (ill-formed or error elements: outside the theorem)")
    R.report()

    # ---- 3. the call sites, through the real checker -----------------------------------------
    ctx.log("call sites")
    call_sites(ctx, exe, mdl, R, rng)

    ctx.notes.append("call sites covered through `garden check --json` + `reftest-hover`: list literal, dict literal, if/else, "
                     "try/catch, match arms (inferred), list literal and match checked against a declared type. "
                     "Not exercised end to end: if/else and try/catch CHECKED against a declared type (they report the declared "
                     "type itself and check each block against it), element types that have no source syntax (Error), "
                     "named functions as elements (Fun.name_sym differs: `==` fails, unify gives none, the site falls back).")
    ctx.notes.append("observation (not counted as a violation: Error is above everything in is_subtype): a list literal checked "
                     "against List<T> whose items do not unify, e.g. `let r: List<(Int, Int)> = [p0, p1]` with p0: (Int, NoValue), "
                     "p1: (NoValue, Int), is given the type List<__ERROR(Could not unify list)> WITHOUT any diagnostic "
                     "(type_checker.rs: `unify_all(&item_tys).unwrap_or(Type::error(..))`); falling back to the expected element "
                     "type would keep the reported type error-free. Counted in stats.")
    ctx.notes.append("quick tier: exhaustive over 6 atoms (354 types) + seeded samples; thorough: all 1350^2 depth<=2 pairs")


def replay(ctx, rp):
    exe = ctx.impl()
    req = rp["input"]
    if isinstance(req, dict):
        rc, out, err = common.run_lines(exe, ["verif-batch"], [json.dumps(req)])
        print("request:", json.dumps(req))
        print("observed now:", out, "| recorded:", rp.get("observed"), "| expected:", rp.get("expected"))
        if "subtype_request" in rp:
            rc, out2, err = common.run_lines(exe, ["verif-batch"], [json.dumps(rp["subtype_request"])])
            print("subtype:", json.dumps(rp["subtype_request"]), "->", out2)
            return 0 if out2 and '"result":true' in out2[0] else 1
        return 1
    d = tempfile.mkdtemp(dir=oracle.scratch_dir())
    try:
        o = run_site(exe, d, 0, req)
    finally:
        shutil.rmtree(d, ignore_errors=True)
    print(req)
    print("observed now:", o, "| recorded:", rp.get("observed"))
    return 1
