"""C16 -- Programs that pass `check` raise no runtime type errors."""
import json

from vplib import common, oracle, genprog
from props import C16search

LEVEL = "proof"
CLAIMED = True          # the minimal theorem tc_sound_core (DESIGN.md section 6) is discharged
RULE = ("Coq: Properties/C16.v tc_sound_core (the model checker tc of Typing.v is sound for the model big-step semantics of the "
        "first-order core incl. Option/match/for/return/pairs: accepted => never the TypeError outcome, for every fuel). Tie to the code: (a) verdict "
        "correspondence on generated fragment programs and their single-node mutants: every program the extracted tc "
        "ACCEPTS must be accepted by `garden check --json` (no error diagnostics) and must not raise a type-related error "
        "when run on the interpreter; the converse direction is only counted. (b) Search on the implementation itself "
        "(props/C16search.py): type-directed generator with fully annotated functions + 12 kinds of single-node mutations; "
        "programs that `garden check --json` accepts without errors are run (hook op run, tick limit); any type-related "
        "runtime error is a violation (confirmed on the plain CLI, shrunk). Non-trivial = the program calls a user "
        "function or is a mutant.")
META = {
    "technique": "Coq soundness proof (big-step progress/preservation) of a hand-written MODEL checker against a MODEL semantics "
                 "+ verdict correspondence (model checker vs `garden check`) + generate-mutate-check-run search on the binary",
    "level_text": ("Coq theorem tc_sound_core (= tc_sound_core_option_match_for_return): for the model checker `tc_prog` "
                   "(Typing.v) and the model big-step semantics `run`, tc_prog p = true implies run fuel p <> TypeError for "
                   "every fuel. Fragment: Int/Bool/String literals, List<Int> literals (the empty literal has its own type "
                   "below List<Int>), Option<T> values with Some/None (None : Option<NoValue>), variables, let, assignment, "
                   "+= / -=, the binary operators, if / if-else, `match` on an Option with exactly the arms Some(x) and None "
                   "(either order), while, `for x in <List<Int>>`, blocks, pairs `(a, b)` with the destructuring `let (x, y) = e`, "
                   "println, string_repr, early `return e` checked "
                   "against the declared return type, calls of top-level functions with fully annotated parameters and return "
                   "types (Int, Bool, String, Unit, List<Int>, Option<T>, (T, U)); subtyping NoValue <= T, Option and pairs covariant, "
                   "[] <= List<Int> at arguments, assignments, returns, function results, operands and branch joins "
                   "(subtyping_sound). TypeError is every type-related runtime error class of the property that can arise in "
                   "the fragment: wrong operand / argument / condition / iterated / scrutinee / destructured type, wrong arity, calling a "
                   "non-function, unknown or unbound variable, failed parameter or return annotation check, and a `match` "
                   "with no arm for the value (tc rejects a missing arm: Example tc_rejects_nonexhaustive_match). Proved by "
                   "induction on the evaluator's fuel with a combined progress + preservation statement "
                   "(tc_progress_preservation; `return` travels as a control outcome carrying a value of the declared type)."),
    "level_note": ("HONEST SCOPE: the theorem is about the MODEL checker and the MODEL semantics, not about "
                   "src/checks/type_checker.rs (3251 lines, bidirectional, gradual). The tie to the real checker is "
                   "empirical: on every run, each generated fragment program or mutant that the extracted tc accepts must be "
                   "accepted by `garden check` and must run without a type-related error; tc is deliberately stricter than "
                   "garden in places (if-else / match branches need comparable types, a list literal needs an Int item, no "
                   "function values, match arms exactly Some(x)/None without wildcards), and mirrors two quirks found by the "
                   "correspondence (`a + b` with both operands of type NoValue is rejected like garden's 'use +.' error; the "
                   "loop variable of `for x in []` has type NoValue); the converse direction is only counted. Outside the "
                   "fragment (user enums, tuples of other arities than 2, closures, methods, structs, generics, Any, break/continue, "
                   "wildcard patterns) there is NO theorem: those are covered only by the search, which finds genuine holes "
                   "of the gradual checker (reported as violations / known findings by construct class). Trusted: Coq kernel; "
                   "Typing.v as a model; extraction + ocaml/ops_typing.ml (S-expression reader on the implementation's own "
                   "parser output); hook ops sexp and run; message-pattern classification of runtime errors."),
    "design_ref": "DESIGN.md section 5 C16, section 6 minimal theorem tc_sound_core",
}

FRAG_FEATURES = {"fun", "while", "list", "match", "for", "return"}
FRAG_TYPES = ["Int", "Bool", "Str", "ListInt", "OptInt"]


PAIR_FUN = ("fun swp%d(p: (Int, String)): (String, Int) {\n  let (q1, q2) = p\n  (q2, (q1 + %d))\n}\n")


def with_pairs(rng, src, k):
    """Add pair values / destructuring lets (genprog has none) in front of a fragment program."""
    r = rng.random()
    ints = ["3", "(1 + 2)", "-4"]
    strs = ['"s"', '("a" ^ "b")', 'string_repr(7)']
    if r < 0.45:
        return src
    a, b = ints[rng.randrange(3)], strs[rng.randrange(3)]
    if r < 0.75:
        return ("let (tpa%d, tpb%d) = (%s, %s)\nprintln(string_repr((tpa%d + 1)))\nprintln((tpb%d ^ \"!\"))\n"
                % (k, k, a, b, k, k) + src)
    return (PAIR_FUN % (k, rng.randrange(5)) + "let (twa%d, twb%d) = swp%d((%s, %s))\nprintln(string_repr((twb%d * 2)))\n"
            % (k, k, k, a, b, k) + src)


def fragment_programs(rng, n, size):
    """genprog restricted to the model's fragment (no closures/break/continue/user enums), plus pair snippets."""
    saved = genprog.TYPES
    genprog.TYPES = FRAG_TYPES
    try:
        progs = genprog.programs(rng, n, size=size, annotate=True, features=set(FRAG_FEATURES))
    finally:
        genprog.TYPES = saved
    return [with_pairs(rng, s, k) for k, s in enumerate(progs)]


def tc_verdicts(ctx, exe, mdl, srcs):
    sx = oracle.batch(exe, [{"op": "sexp", "src": s, "positions": False} for s in srcs], timeout=600)
    lines, idx = [], []
    res = ["unparsed"] * len(srcs)
    for i, r in enumerate(sx):
        items = r.get("items")
        if items is None or r.get("errors"):
            continue
        idx.append(i)
        lines.append("tc\t" + common.hexs("\n".join(items)))
    rc, out, err = common.run_lines(mdl, [], lines, timeout=600, shards=common.NCPU)
    for j, i in enumerate(idx):
        res[i] = out[j] if j < len(out) else "missing"
    return res


def correspondence(ctx, exe, mdl, n):
    rng = ctx.rng
    base = fragment_programs(rng, n, 7)
    cases = [("base", s) for s in base]
    for s in base:
        for kind, m in C16search.mutants(rng, s, 3):
            cases.append((kind, m))
    srcs = [s for _, s in cases]
    tcv = tc_verdicts(ctx, exe, mdl, srcs)
    chk = C16search.check_accepts(exe, srcs)
    acc_idx = [i for i, v in enumerate(tcv) if v == "accept"]
    runs = dict(zip(acc_idx, C16search.run_outcomes(exe, [srcs[i] for i in acc_idx])))
    bad_verdict, bad_run = [], []
    for i, (kind, s) in enumerate(cases):
        v = tcv[i]
        g = chk[i][0]
        ctx.stat("tc:%s check:%s" % (v.split(":")[0], "accept" if g else "reject"))
        if v.startswith("outside"):
            ctx.stat("outside: " + v[8:][:40])
        if v == "accept":
            ctx.case({"src": s[:160], "mutation": kind}, "fn" in s or kind != "base")
            if not g:
                bad_verdict.append({"src": s, "mutation": kind, "diagnostics": chk[i][3][:2]})
            out = runs.get(i, {})
            cls = None
            for o in out.get("outcomes", []):
                cls = cls or C16search.classify(o)
            if cls:
                bad_run.append({"src": s, "mutation": kind, "class": cls, "outcomes": out.get("outcomes")})
    if bad_verdict:
        ctx.broken("correspondence:tc-accepts-but-check-rejects",
                   "%d programs accepted by the model checker are rejected by garden check, e.g. %s"
                   % (len(bad_verdict), json.dumps(bad_verdict[:2])[:1500]))
        ctx.cov.setdefault("corr_mismatches", []).extend(bad_verdict[:5])
    if bad_run:
        ctx.broken("correspondence:tc-accepted-program-raises-type-error",
                   "%d programs accepted by the model checker raise a type-related error on the interpreter (the model "
                   "semantics or checker is not faithful), e.g. %s" % (len(bad_run), json.dumps(bad_run[:2])[:1500]))
        ctx.cov.setdefault("corr_mismatches", []).extend(bad_run[:5])
    ctx.cov["tc_accepted"] = len(acc_idx)
    ctx.cov["tc_cases"] = len(cases)


def run(ctx):
    ctx.trusted = [
        "Coq 8.16.1 kernel (coqc); vm_compute only in Examples",
        "coq/Typing.v is a HAND-WRITTEN model checker + model semantics for the first-order core (with Option/match/for/return/pairs); it is NOT derived from "
        "src/checks/type_checker.rs; tie = verdict correspondence (tc accepts => garden check accepts, and the program runs "
        "without a type-related error) on generated programs and mutants",
        "Extraction (ExtrOcamlBasic) + ocaml/ops_typing.ml (S-expression reader over the implementation's own parser output)",
        "cfg-gated hook `garden verif-batch` ops sexp / run; `garden check --json` and `garden run` CLI",
        "regular-expression classification of runtime error messages (props/C16search.py)",
    ]
    ctx.coq("Properties/C16.v")
    exe = ctx.impl()
    if not exe:
        return
    mdl = ctx.model("typing")
    if mdl:
        correspondence(ctx, exe, mdl, 260 if ctx.thorough else 45)
    counters = C16search.search(ctx, 2500 if ctx.thorough else 220)
    if isinstance(counters, dict):
        ctx.cov["search"] = {k: v for k, v in counters.items() if isinstance(v, (int, float, str))}


def replay(ctx, rp):
    return C16search.replay(ctx, rp)
