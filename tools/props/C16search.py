"""Dynamic search for C16 ("programs that pass `check` raise no runtime type errors").

Helper module (NOT a property driver): imported by props/C16.py with `from props import C16search`.

  search(ctx, n_programs)   generate fully annotated programs + single-node mutants, keep those that
                            `garden check --json` accepts without errors, run them (hook op `run`), report every
                            type-related runtime error as ctx.violation (confirmed on the plain CLI, shrunk)
  replay(ctx, rp)           re-run a replay dict {"input": src}
  check_accepts(exe, srcs)  -> [(accepted, n_errors, n_warnings, diagnostics)]
  run_outcomes(exe, srcs)   -> [hook response dict]
  classify(outcome)         -> None | error class of a type-related runtime error

Programs: genprog (annotate=True, no closures => every function fully annotated), sizes 8..10; in 60% of them the
function definitions are moved to random places among the top-level statements (functions are hoisted). Mutants
(~4 per program, one node each, all choices from ctx.rng): literal-swap, drop-arg, add-arg, rename-undefined,
rename-other-var, annotation-param, annotation-return, operator-swap, delete-match-arm, call-non-function,
no-such-method, no-such-field. literal-swap and rename-other-var weigh 3x, and inside them the positions where the
checker must join or propagate types (list elements, branch values, payloads, let/assign right-hand sides; uses inside
function bodies renamed to top-level variables) are preferred over plain operands.

Violation keys: "C16:<error class>:<construct class>"; error class from classify(); construct class from
construct_class(): found mechanically from the error position by following binders (`let`, `for`, match binding,
parameter) of the variables in the faulting expression, e.g. "for-over-list-literal" (loop variable of a `for` whose
iterable is a list literal: the checker gives it type Any), "toplevel-let-read-in-function" (the checker resolves a
function body's free variable to a top-level `let`, the evaluator does not), else the binder kind / syntactic form /
"mutant:<kind>".

CLI facts (src/main.rs `Check`, src/syntax_check.rs): `garden check --json <path>` prints one JSON object per
diagnostic {line_number, end_line_number, column, end_column, message, severity: "error"|"warning"} separated by
blank lines; exit status 1 when there is ANY diagnostic (warnings included), 0 when there is none. Acceptance here
= no diagnostic of severity "error". `garden run <path>` prints `Exception: <message>` + position on stderr and
exits 0 even after an uncaught exception.
"""
import concurrent.futures
import os
import re
import shutil
import tempfile

from vplib import common, oracle, genprog

FEATURES = {"fun", "match", "for", "while", "list", "tuple", "enum", "break", "return", "aclosure"}
# no "closure" (unannotated lambdas); "aclosure" = fully annotated lambdas with an early return
TICK_LIMIT = 20000
MUTANTS_PER_BASE = 4
SHRINK_PER_CLASS = 2          # violations shrunk, confirmed on the CLI and reported per key (shortest first)
CLI_CHECK = "garden check --json <file with the input>   # no diagnostic with severity \"error\""
CLI_RUN = "garden run <file with the input>   # prints `Exception: <observed>` on stderr"

# --------------------------------------------------------------------------------------
# Runtime error classes (message texts from src/eval.rs)

_TYPE_RE = re.compile(r"^Expected `([^`]*)` but (?:`.*` has type `([^`]*)`|got `Unit`)\.", re.S)
_PATTERNS = [
    # check_arity / closure call
    ("arity", re.compile(r"^Function .* requires \d+ arguments?, but got \d+")),
    ("arity", re.compile(r"^Closure expects \d+ arguments?, but got \d+")),
    # eval_expr Variable / update_int_variable / assignment
    ("unbound-variable", re.compile(r"^No such variable `")),
    ("unbound-variable", re.compile(r" is not currently bound\. Try `let ")),
    # method calls
    ("no-such-method", re.compile(r" which has no method named `", re.S)),
    ("no-such-method", re.compile(r"^No methods defined on `")),
    # dot access / struct literals
    ("no-such-field", re.compile(r"^This struct has no field named `")),
    ("no-such-field", re.compile(r"^`[^`]*` does not have a field named `")),
    ("no-such-field", re.compile(r"^Missing fields from `")),
    ("type", re.compile(r"^Incorrect type for field: ")),
    ("type", re.compile(r"^`[^`]*` is not a struct, so it cannot be initialized with struct syntax")),
    ("unbound-type", re.compile(r"^No type exists named `")),
    ("unbound-type", re.compile(r"^Unbound type in hint: ")),
    # match
    ("non-exhaustive-match", re.compile(r"^No cases in this `match` statement were reached\.")),
    ("type", re.compile(r"^Expected an enum value, but got ")),
    ("type", re.compile(r"^Patterns must be enum variants, got ")),
    ("type", re.compile(r"^Expected an enum variant named ")),
    ("type", re.compile(r"^Could not find an enum type named ")),
    # tuple destructuring
    ("type", re.compile(r"^Expected a tuple (?:with|of) \d+ items, (?:but )?got ")),
    # namespaces
    ("unbound-variable", re.compile(r"does not contain a function named", re.S)),
]


def classify(outcome):
    """None, or the class of the type-related runtime error in one outcome of hook op `run`.
    Not type-related: division by zero, overflow, tick/stack limit, assertion failures, user `throw`, index errors."""
    if not isinstance(outcome, dict) or outcome.get("kind") != "exception":
        return None            # ok / assertion / tick_limit / stack_limit / interrupted / sandbox
    msg = outcome.get("message") or ""
    m = _TYPE_RE.match(msg)
    if m:
        exp = m.group(1)
        if exp == "Function":
            return "not-a-function"
        if exp == "struct":
            return "no-such-field"
        return "type"
    for cls, rx in _PATTERNS:
        if rx.search(msg):
            return cls
    return None


def first_error(resp):
    """(class, outcome) of the first type-related outcome in a hook response, else (None, None)."""
    for o in (resp or {}).get("outcomes") or []:
        c = classify(o)
        if c:
            return c, o
    return None, None


# --------------------------------------------------------------------------------------
# Implementation drivers

def check_accepts(exe, srcs, timeout=60):
    """`garden check --json` on each program (one process each, thread pool).
    -> list of (accepted, n_errors, n_warnings, diagnostics). Only errors decide acceptance; a crash/timeout of
    the checker counts as not accepted (diagnostics then holds one pseudo-entry with severity "crash")."""
    if not srcs:
        return []
    d = tempfile.mkdtemp(prefix="c16-", dir=oracle.scratch_dir())

    def one(i):
        p = os.path.join(d, "p%d.gdn" % i)
        with open(p, "w") as f:
            f.write(srcs[i])
        rc, out, err = oracle.garden_cli(exe, ["check", "--json", p], timeout=timeout, cwd=d)
        diags = [x for x in oracle.parse_json_stream(out) if isinstance(x, dict)]
        if rc not in (0, 1) or (rc == 1 and not diags) or (rc == 0 and out.strip()):
            diags = diags + [{"severity": "crash", "message": "rc=%s %s" % (rc, (err or out)[-300:])}]
        ne = sum(1 for x in diags if x.get("severity") != "warning")
        nw = sum(1 for x in diags if x.get("severity") == "warning")
        return (ne == 0, ne, nw, diags)

    try:
        with concurrent.futures.ThreadPoolExecutor(common.NCPU) as ex:
            return list(ex.map(one, range(len(srcs))))
    finally:
        shutil.rmtree(d, ignore_errors=True)


def run_outcomes(exe, srcs, tick_limit=TICK_LIMIT):
    if not srcs:
        return []
    return oracle.batch(exe, [{"op": "run", "src": s, "tick_limit": tick_limit} for s in srcs])


# --------------------------------------------------------------------------------------
# Tokens

_TOK = re.compile(r'\s+|"(?:[^"\\]|\\.)*"|[A-Za-z_]\w*|\d+|=>|==|!=|<=|>=|&&|\|\||\+=|-=|\*\*|.', re.S)
_VAR = re.compile(r"^[vaxmi]\d+$")
_INT = re.compile(r"^-?\d+$")
_TYPE_WORDS = ("Int", "String", "Bool", "List", "Option")
ANNOTS = ["Int", "String", "Bool", "List<Int>", "Option<Int>"]
INT_OPS = ["+", "-", "*", "/", "%", "&", "|"]
CMP_OPS = ["<", ">", "<=", ">="]
EQ_OPS = ["==", "!="]
BOOL_OPS = ["&&", "||"]
LITS = {"Int": ["1", "0", "7"], "String": ['"s"', '""'], "Bool": ["True", "False"], "List": ["[1]", "[]"],
        "Option": ["Some(1)", "None"]}


class Toks:
    def __init__(self, src):
        t = _TOK.findall(src)
        # merge unary minus with its literal:  `(-4`, `, -1`, `+ -2`
        out = []
        for x in t:
            if x.isdigit() and out and out[-1] == "-":
                j = len(out) - 2
                while j >= 0 and out[j].isspace():
                    j -= 1
                prev = out[j] if j >= 0 else ""
                if not (prev and (prev[0].isalnum() or prev[0] in '_")]')) or prev in ("return", "in", "if", "while", "match", "else"):
                    out[-1] = "-" + x
                    continue
            out.append(x)
        self.t = out
        self.sig = [i for i, x in enumerate(out) if not x.isspace()]
        self.pos = {i: k for k, i in enumerate(self.sig)}

    def nb(self, i, d):
        """Index of the d-th significant neighbour of token i (None outside)."""
        k = self.pos[i] + d
        return self.sig[k] if 0 <= k < len(self.sig) else None

    def tok(self, i, d=0):
        j = self.nb(i, d) if d else i
        return self.t[j] if j is not None else ""

    def match(self, i):
        """Index of the bracket closing the one opened at token i."""
        op = self.t[i]
        cl = {"(": ")", "[": "]", "{": "}"}[op]
        depth = 0
        for k in range(self.pos[i], len(self.sig)):
            x = self.t[self.sig[k]]
            if x == op:
                depth += 1
            elif x == cl:
                depth -= 1
                if depth == 0:
                    return self.sig[k]
        return None

    def enclosing(self, i):
        """Index of the innermost bracket opened before token i and not yet closed (None at depth 0)."""
        depth = 0
        for k in range(self.pos[i] - 1, -1, -1):
            x = self.t[self.sig[k]]
            if x in (")", "]", "}"):
                depth += 1
            elif x in ("(", "[", "{"):
                if depth == 0:
                    return self.sig[k]
                depth -= 1
        return None

    def splice(self, i, j, text):
        """Source with tokens i..j (inclusive) replaced by text."""
        return "".join(self.t[:i]) + text + "".join(self.t[j + 1:])

    def in_signature(self, i):
        """Is token i inside `fun name(...): T` (before the body's `{`)?"""
        k = self.pos[i]
        while k >= 0:
            x = self.t[self.sig[k]]
            if x == "fun":
                return True
            if x in ("{", "}") or x == "\n":
                return False
            k -= 1
        return False

    def var_uses(self):
        out = []
        for i in self.sig:
            x = self.t[i]
            if not _VAR.match(x):
                continue
            p, n = self.tok(i, -1), self.tok(i, 1)
            if p in ("let", "for", ".") or n in ("=", "+=", "-=", ":", "("):
                continue
            if p == "(" and self.tok(i, -2) == "Some" and n == ")" and self.tok(i, 2) == "=>":
                continue
            if self.in_signature(i):
                continue
            out.append(i)
        return out

    def var_names(self):
        return sorted(set(self.t[i] for i in self.sig if _VAR.match(self.t[i])))

    def calls(self):
        """(name index, open paren index, close paren index, [(arg first tok, arg last tok)])"""
        out = []
        for i in self.sig:
            x = self.t[i]
            if not re.match(r"^(fn\d+|string_repr|println)$", x) or self.tok(i, 1) != "(" or self.tok(i, -1) == "fun":
                continue
            o = self.nb(i, 1)
            c = self.match(o)
            if c is None:
                continue
            args, depth, start = [], 0, None
            k = self.pos[o] + 1
            while self.sig[k] != c:
                j = self.sig[k]
                y = self.t[j]
                if start is None:
                    start = j
                if y in "([{":
                    depth += 1
                elif y in ")]}":
                    depth -= 1
                elif y == "," and depth == 0:
                    args.append((start, self.sig[k - 1]))
                    start = None
                    k += 1
                    continue
                k += 1
            if start is not None:
                args.append((start, self.sig[k - 1]))
            out.append((i, o, c, args))
        return out


# --------------------------------------------------------------------------------------
# Mutations: each returns a new source or None when not applicable

def _lit_kind(T, i):
    x = T.t[i]
    if _INT.match(x):
        return "Int"
    if x.startswith('"'):
        return "String"
    if x in ("True", "False") and T.tok(i, 1) != "=>":
        return "Bool"
    if x == "[" and T.tok(i, -1) not in ("]", ")") and not (T.tok(i, -1)[:1].isalnum() and T.tok(i, -1) not in ("in", "return", "match", "if", "while", "else")):
        return "List"
    return None


def m_literal_swap(T, r):
    c = [(i, _lit_kind(T, i)) for i in T.sig]
    c = [(i, k) for i, k in c if k and not T.in_signature(i)]
    if not c:
        return None
    # positions where the checker has to join or propagate types get more weight than plain operands
    w = []
    for i, k in c:
        p, n = T.tok(i, -1), T.tok(T.match(i) if k == "List" else i, 1)
        o = T.enclosing(i)
        if o is not None and T.t[o] == "[" and p in ("[", ","):
            w.append(8 if T.tok(o, -1) == "in" else 3)          # list element (of a `for` iterable)
        elif (p == "{" and n == "}") or p in ("=>", "=", "return") or (p == "(" and T.tok(i, -2) == "Some"):
            w.append(3)                                         # branch value, match arm, let/assign RHS, payload
        else:
            w.append(1)
    x = r.random() * sum(w)
    for (i, k), wi in zip(c, w):
        x -= wi
        if x < 0:
            break
    j = T.match(i) if k == "List" else i
    if j is None:
        return None
    other = [x for x in ("Int", "String", "Bool", "List") if x != k]
    nk = other[r.randrange(len(other))]
    lit = LITS[nk][r.randrange(len(LITS[nk]))]
    return T.splice(i, j, lit)


def _prefer_user_calls(T, calls, r):
    """Calls of generated functions (`fnK(...)`) are rarer than `println`/`string_repr`: pick among them 3 times out of 4."""
    user = [c for c in calls if T.t[c[0]].startswith("fn")]
    return user if user and r.random() < 0.75 else calls


def m_drop_arg(T, r):
    c = _prefer_user_calls(T, [x for x in T.calls() if x[3]], r)
    if not c:
        return None
    name, o, cl, args = c[r.randrange(len(c))]
    k = r.randrange(len(args))
    rest = [a for n, a in enumerate(args) if n != k]
    text = ", ".join("".join(T.t[a:b + 1]) for a, b in rest)
    return T.splice(o + 1, cl - 1, text) if cl - 1 >= o + 1 else None


def m_add_arg(T, r):
    c = _prefer_user_calls(T, T.calls(), r)
    if not c:
        return None
    name, o, cl, args = c[r.randrange(len(c))]
    extra = ["1", '"s"', "True"][r.randrange(3)]
    text = ", ".join(["".join(T.t[a:b + 1]) for a, b in args] + [extra])
    return "".join(T.t[:o + 1]) + text + "".join(T.t[cl:])


def m_rename_undefined(T, r):
    u = T.var_uses()
    if not u:
        return None
    i = u[r.randrange(len(u))]
    return T.splice(i, i, "zz9")


def m_rename_other_var(T, r):
    u = T.var_uses()
    names = T.var_names()
    if not u or len(names) < 2:
        return None
    src = "".join(T.t)
    offs, k = {}, 0
    for i, x in enumerate(T.t):
        offs[i] = k
        k += len(x)
    in_fun = [i for i in u if _in_function(src, offs[i])]
    other = []
    if in_fun and r.random() < 0.7:
        # a use inside a function body renamed to a variable bound by a top-level `let` that precedes the function
        i = in_fun[r.randrange(len(in_fun))]
        fstart = max(src.rfind("\nfun ", 0, offs[i]), 0)
        other = [m.group(1) for m in re.finditer(r"^let (\w+) =", src, re.M) if m.start() < fstart and m.group(1) != T.t[i]]
    if not other:
        i = u[r.randrange(len(u))]
        other = [n for n in names if n != T.t[i]]
    if not other:
        return None
    return T.splice(i, i, other[r.randrange(len(other))])


def _annotations(T, ret):
    """(first tok, last tok, text) of parameter (ret=False) or return (ret=True) annotations."""
    out = []
    for i in T.sig:
        if T.t[i] != ":" or not T.in_signature(i):
            continue
        if (T.tok(i, -1) == ")") != ret:
            continue
        a = T.nb(i, 1)
        if a is None or T.t[a] not in _TYPE_WORDS:
            continue
        b = a
        if T.tok(a, 1) == "<":
            b = T.nb(a, 3)
            if b is None or T.t[b] != ">":
                continue
        out.append((a, b, "".join(T.t[a:b + 1])))
    return out


def _m_annotation(T, r, ret):
    c = _annotations(T, ret)
    if not c:
        return None
    a, b, text = c[r.randrange(len(c))]
    other = [x for x in ANNOTS if x != text]
    return T.splice(a, b, other[r.randrange(len(other))])


def m_annotation_param(T, r):
    return _m_annotation(T, r, False)


def m_annotation_return(T, r):
    return _m_annotation(T, r, True)


def m_operator_swap(T, r):
    c = []
    for i in T.sig:
        x = T.t[i]
        if T.in_signature(i):
            continue
        if x in INT_OPS or x in BOOL_OPS or x in CMP_OPS or x in EQ_OPS or x == "^":
            p, n = T.tok(i, -1), T.tok(i, 1)
            if not p or not n or p in ("(", ",", "=", "=>", "{") or n in (")", ",", "}"):
                continue
            c.append(i)
    if not c:
        return None
    i = c[r.randrange(len(c))]
    x = T.t[i]
    if x in INT_OPS:
        alt = ["^", "&&", "<", "=="]
    elif x in BOOL_OPS:
        alt = ["+", "^", "<"]
    elif x == "^":
        alt = ["+", "&&", "<"]
    elif x in CMP_OPS:
        alt = ["+", "&&", "^"]
    else:
        alt = ["+", "&&", "^", "<"]
    return T.splice(i, i, alt[r.randrange(len(alt))])


def m_delete_match_arm(T, r):
    c = []
    for i in T.sig:
        x = T.t[i]
        if x == "Some" and T.tok(i, 1) == "(" and T.tok(i, 3) == ")" and T.tok(i, 4) == "=>":
            arrow = T.nb(i, 4)
        elif x == "None" and T.tok(i, 1) == "=>":
            arrow = T.nb(i, 1)
        else:
            continue
        b = T.nb(arrow, 1)
        if b is None:
            continue
        if T.t[b] == "{":
            e = T.match(b)
            if e is not None:
                c.append((i, e))
        elif x == "Some":
            # expression arm `Some(m) => m + 1,` : up to the first comma at depth 0
            depth, k = 0, T.pos[b]
            while k < len(T.sig):
                y = T.t[T.sig[k]]
                if y in "([{":
                    depth += 1
                elif y in ")]}":
                    depth -= 1
                    if depth < 0:
                        break
                elif y == "," and depth == 0:
                    c.append((i, T.sig[k]))
                    break
                k += 1
    if not c:
        return None
    i, e = c[r.randrange(len(c))]
    return T.splice(i, e, "")


def _m_suffix(T, r, suffix):
    u = [i for i in T.var_uses() if T.tok(i, 1) not in ("(", ".")]
    if not u:
        return None
    i = u[r.randrange(len(u))]
    return T.splice(i, i, T.t[i] + suffix)


def m_call_non_function(T, r):
    return _m_suffix(T, r, "(2)")


def m_no_such_method(T, r):
    return _m_suffix(T, r, ".nosuch()")


def m_no_such_field(T, r):
    return _m_suffix(T, r, ".nofield")


def m_return_swap(T, r):
    """`return <literal or variable>` -> `return <literal of another type>` (an early return of the wrong type)."""
    c = [i for i in T.sig if T.t[i] == "return" and T.tok(i, 1) not in ("}", "")]
    if not c:
        return None
    i = c[r.randrange(len(c))]
    a = T.nb(i, 1)
    if a is None or T.tok(a, 1) != "}":
        return None
    lits = [x for x in ("7", '"rs"', "True", "[1]") if x != T.t[a]]
    return T.splice(a, a, lits[r.randrange(len(lits))])


def m_var_to_literal(T, r):
    """A variable use -> a literal (a concrete value where a variable's, possibly generic, type is expected)."""
    uses = [i for i in T.var_uses() if T.tok(i, -1) not in ("let", "fun", "in", "for") and T.tok(i, 1) not in ("(", ":", "=", "+=", "-=")
            and not T.in_signature(i)]
    if not uses:
        return None
    i = uses[r.randrange(len(uses))]
    lits = ["0", '"lit"', "True", "[2]"]
    return T.splice(i, i, lits[r.randrange(len(lits))])


MUTATIONS = [
    ("var-to-literal", m_var_to_literal),
    ("return-swap", m_return_swap),
    ("literal-swap", m_literal_swap),
    ("drop-arg", m_drop_arg),
    ("add-arg", m_add_arg),
    ("rename-undefined", m_rename_undefined),
    ("rename-other-var", m_rename_other_var),
    ("annotation-param", m_annotation_param),
    ("annotation-return", m_annotation_return),
    ("operator-swap", m_operator_swap),
    ("delete-match-arm", m_delete_match_arm),
    ("call-non-function", m_call_non_function),
    ("no-such-method", m_no_such_method),
    ("no-such-field", m_no_such_field),
]


WEIGHTS = {"literal-swap": 3, "rename-other-var": 3, "return-swap": 2, "var-to-literal": 2}      # the other kinds weigh 1


def mutants(rng, src, k=MUTANTS_PER_BASE):
    """Up to k distinct single-node mutants of src: [(kind, mutated source)]."""
    T = Toks(src)
    bag = [m for m in MUTATIONS for _ in range(WEIGHTS.get(m[0], 1))]
    out, seen = [], {src}
    for _ in range(4 * k):
        if len(out) >= k:
            break
        name, f = bag[rng.randrange(len(bag))]
        m = f(T, rng)
        if m is None or m in seen:
            continue
        seen.add(m)
        out.append((name, m))
    return out


_FUN_SIG = re.compile(r"\bfun\b\s*(\w*)\s*\(([^)]*)\)\s*(:?)")


def fully_annotated(src):
    """Every `fun` has a name, annotated parameters and a return annotation (the property's precondition)."""
    for m in _FUN_SIG.finditer(src):
        if not m.group(3):          # anonymous functions count when they are annotated too
            return False
        ps = m.group(2).strip()
        if ps and not all(":" in p for p in ps.split(",")):
            return False
    return True


# --------------------------------------------------------------------------------------
# Shrinking (delta debugging over top-level items, then nested lines)

def _items(lines):
    """Group lines into top-level items: a new item starts at an unindented line that is not a closer."""
    items = []
    for l in lines:
        if items and (l.startswith((" ", "}")) or not l.strip()):
            items[-1].append(l)
        else:
            items.append([l])
    return items


def _line_units(lines):
    """Deletable units inside items: single indented lines, and whole nested blocks (opener line .. closer line)."""
    units = []
    for i, l in enumerate(lines):
        s = l.strip()
        if not s or s.startswith("}"):
            continue
        if s.endswith("{"):
            ind = len(l) - len(l.lstrip())
            j = i + 1
            while j < len(lines):
                lj = lines[j]
                if lj.strip() and len(lj) - len(lj.lstrip()) <= ind:
                    if lj.strip().startswith("}") and lj.strip().endswith("{"):    # `} else {`
                        j += 1
                        continue
                    break
                j += 1
            if j < len(lines) and lines[j].strip().startswith("}"):
                units.append((i, j))
                # unwrap: keep the body, drop opener and closer (only simple blocks)
                units.append((i, i, j))
        else:
            units.append((i, i))
    return units


def _apply_units(lines, us):
    dead = set()
    for u in us:
        if len(u) == 2:
            dead.update(range(u[0], u[1] + 1))
        else:
            dead.update((u[0], u[2]))
    return [l for i, l in enumerate(lines) if i not in dead]


_KEYWORDS = ("if", "while", "match", "in", "return", "else", "let")


def _expr_candidates(src):
    """Smaller variants of src obtained by simplifying one expression."""
    T = Toks(src)
    out = []
    for i in T.sig:
        x = T.t[i]
        if x == "(":
            j = T.match(i)
            p = T.tok(i, -1)
            if j is None or T.in_signature(i) or j == T.nb(i, 1):
                continue
            is_call = bool(p) and (p[0].isalnum() or p[0] == "_") and p not in _KEYWORDS
            if is_call:
                # f(args) -> the argument itself when there is exactly one (e.g. string_repr(x) -> x), or a literal
                name = T.nb(i, -1)
                inner = "".join(T.t[i + 1:j]).strip()
                if inner and T.tok(name, -1) != "fun" and p != "Some":
                    out.append(T.splice(name, j, inner))
            else:
                for lit in ("1", '"s"', "True"):
                    out.append(T.splice(i, j, lit))
                inner = "".join(T.t[i + 1:j]).strip()
                if inner.startswith("(") or _VAR.match(inner):
                    out.append(T.splice(i, j, inner))
                # (A op B) -> A or B for the simple case of two operands without nesting at depth 0
                k, depth, ops = T.pos[i] + 1, 0, []
                while T.sig[k] != j:
                    y = T.t[T.sig[k]]
                    if y in "([{":
                        depth += 1
                    elif y in ")]}":
                        depth -= 1
                    elif depth == 0 and (y in INT_OPS or y in CMP_OPS or y in EQ_OPS or y in BOOL_OPS or y == "^"):
                        ops.append(T.sig[k])
                    k += 1
                if len(ops) == 1 and T.tok(i, 1) not in ("if", "match"):
                    out.append(T.splice(i, j, "".join(T.t[i + 1:ops[0]]).strip()))
                    out.append(T.splice(i, j, "".join(T.t[ops[0] + 1:j]).strip()))
        elif x == "[":
            j = T.match(i)
            if j is None:
                continue
            # drop one element of a list literal
            elems, depth, start = [], 0, None
            k = T.pos[i] + 1
            while T.sig[k] != j:
                t = T.sig[k]
                y = T.t[t]
                if start is None:
                    start = t
                if y in "([{":
                    depth += 1
                elif y in ")]}":
                    depth -= 1
                elif y == "," and depth == 0:
                    elems.append((start, T.sig[k - 1]))
                    start = None
                k += 1
            if start is not None:
                elems.append((start, T.sig[k - 1]))
            if len(elems) > 1:
                for n in range(len(elems)):
                    rest = [e for m, e in enumerate(elems) if m != n]
                    out.append(T.splice(i, j, "[" + ", ".join("".join(T.t[a:b + 1]) for a, b in rest) + "]"))
        elif x == "if" and T.tok(i, -1) == "(":
            # (if C { A } else { B }) -> A | B
            o = T.nb(i, -1)
            j = T.match(o)
            k = T.pos[i]
            while k < len(T.sig) and T.t[T.sig[k]] != "{":
                k += 1
            if j is None or k >= len(T.sig):
                continue
            b1 = T.sig[k]
            e1 = T.match(b1)
            if e1 is None or T.tok(e1, 1) != "else" or T.tok(e1, 2) != "{":
                continue
            b2 = T.nb(e1, 2)
            e2 = T.match(b2)
            if e2 is None:
                continue
            for a, b in ((b1, e1), (b2, e2)):
                inner = "".join(T.t[a + 1:b]).strip()
                if inner and "\n" not in inner:
                    out.append(T.splice(o, j, inner))
    lines = src.rstrip("\n").split("\n")
    for n, l in enumerate(lines):
        m = re.match(r"^(\s*let \w+ = )(.+)$", l)
        if m and not l.rstrip().endswith("{"):
            for lit in ("1", '"s"', "True", "[1]"):
                if m.group(2) != lit:
                    out.append("\n".join(lines[:n] + [m.group(1) + lit] + lines[n + 1:]) + "\n")
        if not l.rstrip().endswith(("{", "}")) or l.count("{") == l.count("}"):
            # a statement line that contains a call of a generated function -> just the call
            for c in re.finditer(r"\bfn\d+\(", l):
                if l[:c.start()].rstrip().endswith("fun"):
                    continue
                depth, e = 0, None
                for q in range(c.end() - 1, len(l)):
                    if l[q] == "(":
                        depth += 1
                    elif l[q] == ")":
                        depth -= 1
                        if depth == 0:
                            e = q
                            break
                if e is not None:
                    ind = l[:len(l) - len(l.lstrip())]
                    out.append("\n".join(lines[:n] + [ind + l[c.start():e + 1]] + lines[n + 1:]) + "\n")
    return [c for c in out if c != src]


class Shrinker:
    def __init__(self, exe, cls, construct, mutation, budget=600):
        self.exe, self.cls, self.construct, self.mutation, self.budget = exe, cls, construct, mutation, budget
        self.tests = 0

    def test_many(self, srcs):
        """-> [bool]: check accepts and the run raises the same error class through the same construct class."""
        self.tests += len(srcs)
        ok = [False] * len(srcs)
        idx = [i for i, s in enumerate(srcs) if s.strip() and fully_annotated(s)]
        acc = check_accepts(self.exe, [srcs[i] for i in idx])
        idx = [i for i, a in zip(idx, acc) if a[0]]
        res = run_outcomes(self.exe, [srcs[i] for i in idx])
        for i, r in zip(idx, res):
            c, o = first_error(r)
            ok[i] = c == self.cls and construct_class(srcs[i], o, c, self.mutation) == self.construct
        return ok

    def reduce(self, lines, units_of):
        """Greedy parallel one-unit-at-a-time removal until no single unit can be removed."""
        while self.tests < self.budget:
            units = units_of(lines)
            if not units:
                break
            cands = [_apply_units(lines, [u]) for u in units]
            oks = self.test_many(["\n".join(c) + "\n" for c in cands])
            good = [u for u, o in zip(units, oks) if o]
            if not good:
                break
            # try all individually removable units at once, then halves, then one
            todo = good
            applied = False
            while todo and self.tests < self.budget:
                c = _apply_units(lines, todo)
                if len(todo) == 1 or self.test_many(["\n".join(c) + "\n"])[0]:
                    lines = c
                    applied = True
                    break
                todo = todo[:len(todo) // 2]
            if not applied:
                break
        return lines

    def shrink(self, src):
        lines = src.rstrip("\n").split("\n")

        def item_units(ls):
            out, k = [], 0
            for it in _items(ls):
                out.append((k, k + len(it) - 1))
                k += len(it)
            return out
        lines = self.reduce(lines, item_units)
        lines = self.reduce(lines, _line_units)
        lines = self.reduce(lines, item_units)
        src = self.reduce_exprs("\n".join(lines) + "\n")
        lines = self.reduce(src.rstrip("\n").split("\n"), item_units)
        return "\n".join(lines) + "\n"

    def reduce_exprs(self, src, rounds=8):
        """Replace parenthesised groups / call arguments by literals and drop list elements, shortest result first."""
        for _ in range(rounds):
            if self.tests >= self.budget:
                break
            cands = sorted(set(_expr_candidates(src)), key=lambda c: (len(c), c))[:64]
            if not cands:
                break
            oks = self.test_many(cands)
            good = [c for c, o in zip(cands, oks) if o]
            if not good:
                break
            src = good[0]
        return src


# --------------------------------------------------------------------------------------
# Construct classes: which construct let the ill-typed value / unbound name through the checker

_IDENT = re.compile(r"[A-Za-z_]\w*")
HOLE_ORIGINS = ("for-over-list-literal", "toplevel-let-read-in-function")


def fault_text(src, pos):
    """Source text of the error position [start_offset, end_offset, ...] (byte offsets) of a hook outcome."""
    try:
        return src.encode("utf-8")[pos[0]:pos[1]].decode("utf-8", "replace")
    except Exception:
        return ""


def line_at(src, pos):
    try:
        return src.split("\n")[pos[2]]
    except Exception:
        return ""


def _char_offset(src, pos):
    try:
        return len(src.encode("utf-8")[:pos[0]].decode("utf-8", "replace"))
    except Exception:
        return len(src)


def _in_function(src, off):
    """Is character offset off inside a top-level `fun` item (genprog layout: closing brace at column 0)?"""
    start = src.rfind("\nfun ", 0, off)
    start = 0 if src.startswith("fun ") and start < 0 else start
    if start < 0:
        return False
    end = src.find("\n}", start + 1)
    return end < 0 or off <= end


def _binder(src, name, off):
    """Nearest binder of name textually before off: (kind, offset, detail) or None."""
    best = None
    n = re.escape(name)
    for kind, rx in (("let", r"\blet\s+%s\s*=[ \t]*([^\n]*)" % n), ("for", r"\bfor\s+%s\s+in\s+([^\n]*)" % n),
                     ("match-binding", r"\bSome\(\s*%s\s*\)\s*=>()" % n), ("parameter", r"[(,]\s*%s\s*:\s*([\w<>]+)" % n)):
        for m in re.finditer(rx, src[:off]):
            if best is None or m.start() > best[1]:
                best = (kind, m.start(), m.group(1))
    return best


def _origin(src, name, off, depth=0):
    b = _binder(src, name, off)
    if b is None:
        return "undefined-name"
    kind, boff, detail = b
    if kind == "for":
        it = detail.strip()
        if it.startswith("["):
            return "for-over-list-literal"
        for v in _IDENT.findall(it.split("{")[0]):
            if _VAR.match(v) and depth < 6:
                o = _origin(src, v, boff, depth + 1)
                if o in HOLE_ORIGINS:
                    return o
        return "for-loop-variable"
    if kind == "match-binding":
        # the scrutinee of the nearest enclosing/preceding `match`
        k = src.rfind("match ", 0, boff)
        detail = src[k + 6:boff].split("{")[0] if k >= 0 else ""
    if kind in ("let", "match-binding"):
        if depth < 6:
            for v in _IDENT.findall(detail):
                if _VAR.match(v) and v != name:
                    o = _origin(src, v, boff, depth + 1)
                    if o in HOLE_ORIGINS:
                        return o
        return "unannotated-let" if kind == "let" else kind
    return kind


def construct_class(src, outcome, cls, mutation):
    """Name the class of construct responsible for a type-related runtime error, mechanically from the error
    position; falls back to the mutation kind ("mutant:<kind>") or "generated" when nothing more precise is found."""
    pos = outcome.get("pos")
    text = fault_text(src, pos).strip()
    off = _char_offset(src, pos)
    fallback = "mutant:" + mutation if mutation else "generated"
    if re.search(r"Expected `Fun<\((?:[^`]*\bAny\b[^`]*)\), [^`]*>` but", outcome.get("message") or ""):
        # a type parameter inside a Fun<..> hint is erased to Any at run time; parameters are contravariant
        return "generic-fun-typed-parameter"
    if cls == "unbound-variable":
        m = re.search(r"`([^`]+)`", outcome.get("message") or "")
        name = m.group(1) if m else text
        if re.search(r"(?m)^let %s\s*=" % re.escape(name), src) and _in_function(src, off):
            return "toplevel-let-read-in-function"
        b = _binder(src, name, len(src))
        if b is None:
            return "undefined-name"
        if _binder(src, name, off) is None:
            return "use-before-definition"
        return "out-of-scope-" + b[0]
    ids = [v for v in _IDENT.findall(text) if _VAR.match(v)]
    for v in ids:
        o = _origin(src, v, off)
        if o in HOLE_ORIGINS:
            return o
    if _VAR.match(text):
        return _origin(src, text, off)
    if not ids and re.match(r"^[A-Z][\w<>(), ]*$", text):
        # the error is reported at a type hint (a failed parameter / return annotation check): look at the variables
        # of the function or lambda body that follows the hint
        k = src.find("{", off)
        if k >= 0:
            depth, j = 0, k
            while j < len(src):
                if src[j] == "{":
                    depth += 1
                elif src[j] == "}":
                    depth -= 1
                    if depth == 0:
                        break
                j += 1
            for v in dict.fromkeys(_IDENT.findall(src[k:j])):
                if _VAR.match(v):
                    o = _origin(src, v, k + 1)
                    if o in HOLE_ORIGINS:
                        return o
    # the offending VALUE (from the message) is an element of a heterogeneous list literal that a `for` iterates: the
    # loop variable carried it here through calls / parameters
    mv = re.search(r"but `((?:[^`]|\\`)*)` has type", outcome.get("message") or "")
    if mv:
        val = mv.group(1)
        for fm in re.finditer(r"\bfor \w+ in \[([^\]]*)\]", src):
            elems = [x.strip() for x in fm.group(1).split(",")]
            kinds = set("str" if x.startswith('"') else "int" if re.match(r"^-?\d+$", x) else "bool" if x in ("True", "False")
                        else "other" for x in elems)
            if val in elems and len(kinds - {"other"}) >= 2:
                return "for-over-list-literal"
    head = text.lstrip("(")
    if head.startswith("if "):
        return "if-branch-join"
    if head.startswith("match "):
        return "match-arm-join"
    if mutation:
        return fallback
    if re.match(r'^(-?\d+|"(?:[^"\\]|\\.)*"|True|False|\[.*\])$', text, re.S):
        return "literal"
    if re.match(r"^\w+\(", text):
        return "call"
    return fallback


# --------------------------------------------------------------------------------------
# The search

def relocate_funs(rng, src):
    """Move each top-level `fun` item to a random position among the top-level items (functions are hoisted, so
    the program stays valid; what changes is which top-level `let`s precede a function textually)."""
    items = _items(src.rstrip("\n").split("\n"))
    funs = [it for it in items if it[0].startswith("fun ")]
    rest = [it for it in items if not it[0].startswith("fun ")]
    if not funs:
        return src
    for f in funs:
        rest.insert(rng.randrange(len(rest) + 1), f)
    return "\n".join(l for it in rest for l in it) + "\n"


def generic_snippet(rng, k):
    """Fully annotated GENERIC functions with calls whose results land in annotated positions. Variables follow the
    generator's naming (letter + number), so the mutations act on the generic bodies too."""
    kinds = rng.sample(["id", "or", "first", "wrap", "pair", "apply", "choose"], rng.randrange(1, 4))
    out = []
    for kind in kinds:
        k += 1
        n = "g%s%d" % (kind, k)
        if kind == "id":
            out += ["fun %s<T>(a1: T): T { a1 }" % n, "let %sa: Int = %s(3)" % (n, n), 'let %sb: String = %s("a")' % (n, n),
                    "println(string_repr((%sa + 1, %sb ^ \"!\")))" % (n, n)]
        elif kind == "or":
            out += ["fun %s<T>(a1: Option<T>, a2: T): T {\n  match a1 {\n    Some(x3) => x3\n    None => a2\n  }\n}" % n,
                    "let %sa: Int = %s(Some(1), 2)" % (n, n), 'let %sb: String = %s(None, "z")' % (n, n),
                    "println(string_repr((%sa * 2, %sb ^ \"?\")))" % (n, n)]
        elif kind == "first":
            out += ["fun %s<T>(a1: List<T>, a2: T): T {\n  match a1.first() {\n    Some(x3) => x3\n    None => a2\n  }\n}" % n,
                    "let %sa: Int = %s([4, 5], 0)" % (n, n), 'let %sb: String = %s([], "none")' % (n, n),
                    "println(string_repr((%sa - 1, %sb ^ \".\")))" % (n, n)]
        elif kind == "wrap":
            out += ["fun %s<T>(a1: T): List<T> { [a1] }" % n, 'let %sl: List<String> = %s("a")' % (n, n),
                    "for x9 in %sl { println(x9 ^ \"w\") }" % n]
        elif kind == "choose":
            # one type parameter instantiated from several arguments of different (compatible) runtime types
            out += ["fun %s<T>(a1: T, a2: T, a3: Bool): T {\n  if a3 {\n    a1\n  } else {\n    a2\n  }\n}" % n,
                    "let %sa: List<Int> = %s([], [1, 2], False)" % (n, n), "let %sb: Option<Int> = %s(None, Some(3), False)" % (n, n),
                    "let %sc: Int = %s(1, 2, True)" % (n, n),
                    "println(string_repr((%sa, %sb, %sc + 1)))" % (n, n, n)]
        elif kind == "pair":
            out += ["fun %s<A, B>(a1: A, a2: B): (B, A) { (a2, a1) }" % n, 'let (%sp, %sq) = %s(1, "s")' % (n, n, n),
                    "println(string_repr((%sp ^ \"x\", %sq + 1)))" % (n, n)]
        else:
            out += ["fun %s<T>(a1: Fun<(T), T>, a2: T): T { a1(a1(a2)) }" % n, "fun %sinc(i: Int): Int { i + 1 }" % n,
                    "let %sr: Int = %s(%sinc, 1)" % (n, n, n), "println(string_repr(%sr))" % n]
    return "\n".join(out) + "\n"


def has_call(src):
    """At least one call of a generated function (`fnK(` outside its own `fun fnK(` header)."""
    return bool(re.search(r"(?<!fun )\bfn\d+\(", src))


def search(ctx, n_programs):
    exe = ctx.impl()
    cnt = {"generated": 0, "mutants": 0, "accepted_unmutated": 0, "accepted_mutants": 0, "rejected": 0,
           "violations": 0, "violation_keys": [], "violations_per_key": {}}
    if not exe:
        return cnt
    rng = ctx.rng
    base = []
    for k, size in enumerate((8, 9, 10)):
        n = n_programs // 3 + (1 if k < n_programs % 3 else 0)
        base += genprog.programs(rng, n, size=size, annotate=True, features=set(FEATURES))
    # 60% of the programs: function definitions scattered among the statements instead of all first
    base = [relocate_funs(rng, b) if rng.random() < 0.6 else b for b in base]
    # 35% of the programs also get generic functions (type parameters in parameter, result, List/Option/Fun positions)
    base = [generic_snippet(rng, 100 * i) + b if rng.random() < 0.35 else b for i, b in enumerate(base)]
    progs = []          # (src, mutation kind or None, base index)
    seen = set()
    for bi, src in enumerate(base):
        if src in seen:
            continue
        seen.add(src)
        progs.append((src, None, bi))
        cnt["generated"] += 1
        for kind, m in mutants(rng, src):
            if m not in seen:
                seen.add(m)
                progs.append((m, kind, bi))
                cnt["mutants"] += 1
                ctx.stat("mutants: " + kind)
    ok_ann = [fully_annotated(p[0]) for p in progs]
    for p, a in zip(progs, ok_ann):
        if not a:
            ctx.stat("skipped: not fully annotated")
    progs = [p for p, a in zip(progs, ok_ann) if a]
    ctx.log("C16 search: %d generated programs, %d mutants" % (cnt["generated"], cnt["mutants"]))

    acc = check_accepts(exe, [p[0] for p in progs])
    accepted = []
    for p, a in zip(progs, acc):
        tag = "unmutated" if p[1] is None else "mutant " + p[1]
        if any(d.get("severity") == "crash" for d in a[3]):
            ctx.stat("check crashed or timed out")
            cr = ctx.cov.setdefault("check_crashes", [])
            if len(cr) < 3:
                cr.append({"input": p[0], "detail": a[3][-1].get("message")})
        if a[0]:
            accepted.append((p, a))
            ctx.stat("check accepts: " + tag)
            cnt["accepted_unmutated" if p[1] is None else "accepted_mutants"] += 1
        else:
            ctx.stat("check rejects: " + tag)
            cnt["rejected"] += 1
    ctx.log("C16 search: check accepts %d unmutated, %d mutants; rejects %d"
            % (cnt["accepted_unmutated"], cnt["accepted_mutants"], cnt["rejected"]))

    res = run_outcomes(exe, [p[0] for p, _ in accepted])
    found = []          # (error class, construct class, src, mutation, outcome, check tuple)
    for (p, a), r in zip(accepted, res):
        src, kind, bi = p
        if "outcomes" not in r:
            ctx.stat("run: no outcome (%s)" % ",".join(sorted(r.keys()))[:40])
            continue
        o = (r["outcomes"] or [{}])[0]
        cls, eo = first_error(r)
        ctx.case({"src": src, "mutation": kind or "none", "warnings": a[2], "outcome": o.get("kind"),
                  "message": (o.get("message") or "")[:80]}, kind is not None or has_call(src))
        ctx.stat("run outcome: " + (("type-related error: " + cls) if cls else
                                    (o.get("kind", "?") + (" (not type-related)" if o.get("kind") == "exception" else ""))))
        if cls:
            con = construct_class(src, eo, cls, kind)
            key = "C16:%s:%s" % (cls, con)
            ctx.stat("violation found by: " + (("mutant " + kind) if kind else "unmutated program"))
            cnt["violations_per_key"][key] = cnt["violations_per_key"].get(key, 0) + 1
            found.append((cls, con, src, kind, eo, a))
    cnt["violations"] = len(found)

    # shrink + confirm on the CLI a few per key (shortest first), report them
    groups = {}
    for f in found:
        groups.setdefault((f[0], f[1]), []).append(f)
    todo = []
    for g in sorted(groups):
        fs = sorted(groups[g], key=lambda f: (len(f[2]), f[2]))
        todo += fs[:SHRINK_PER_CLASS]

    def work(f):
        cls, con, src, kind, eo, a = f
        sh = Shrinker(exe, cls, con, kind)
        small = sh.shrink(src)
        a2 = check_accepts(exe, [small])[0]
        c2, o2 = first_error(run_outcomes(exe, [small])[0])
        if not a2[0] or c2 != cls:          # every shrink step was tested, so this is not expected: keep the original
            small, a2, o2 = src, a, eo
        cli = oracle.run_program(exe, small)
        return small, a2, o2, cli, sh.tests

    with concurrent.futures.ThreadPoolExecutor(4) as ex:
        done = list(ex.map(work, todo))
    keys = []
    for f, (small, a2, o2, cli, ntests) in zip(todo, done):
        cls, con, src, kind, eo, a = f
        msg = o2.get("message", "")
        confirmed = bool(msg) and msg.split("\n")[0][:60] in cli["stderr"]
        ctx.stat("shrink tests", ntests)
        if not confirmed:
            ctx.stat("violation not reproduced by `garden run` (hook only)")
        key = "C16:%s:%s" % (cls, con)
        if key not in keys:
            keys.append(key)
        what = ("`garden check` accepts the fully annotated program (0 errors, %d warnings) but running it raises a "
                "type-related error [%s, via %s]: %s" % (a2[2], cls, con, msg[:200]))
        ctx.violation(key, what, {
            "input": small, "unshrunk_input": src, "mutation": kind or "none",
            "check": {"accepted": a2[0], "errors": a2[1], "warnings": a2[2], "diagnostics": a2[3]},
            "expected": "no type-related runtime error (or an error from `garden check`)",
            "observed": msg, "observed_pos": o2.get("pos"), "error_line": line_at(small, o2.get("pos")),
            "error_expr": fault_text(small, o2.get("pos")),
            "cli_confirmed": confirmed, "cli_stderr": cli["stderr"][:600],
            "cli_command": CLI_CHECK + " ; " + CLI_RUN})
    cnt["violation_keys"] = keys
    ctx.log("C16 search: %d type-related runtime errors in accepted programs; keys: %s" % (len(found), cnt["violations_per_key"]))
    return cnt


def replay(ctx, rp):
    exe = ctx.impl()
    src = rp["input"]
    a = check_accepts(exe, [src])[0]
    print("garden check --json: accepted=%s errors=%d warnings=%d" % (a[0], a[1], a[2]))
    for d in a[3]:
        print("   ", d.get("severity"), d.get("line_number"), d.get("message"))
    r = run_outcomes(exe, [src])[0]
    cls, o = first_error(r)
    print("hook run outcomes:", r.get("outcomes"))
    print("type-related error class:", cls, "| recorded:", rp.get("observed"))
    cli = oracle.run_program(exe, src)
    print("garden run stderr:", cli["stderr"][:600])
    return 0
