"""C17 -- Formatting never changes a program's meaning (token/gap layer: proof; formatter phases: per-run validation + search)."""
import concurrent.futures
import json
import os
import shutil
import tempfile

from vplib import common, oracle, genprog

LEVEL = "proof"
RULE = ("Coq: Properties/C17.v over EditAlgebra.v + Lex.v (for ALL sources: whitespace edits inside inter-token "
        "whitespace runs that satisfy the decidable glue condition keep the sequence of token and comment texts of "
        "Lex.lex). Dynamic, on the real binary: generated parseable programs (vplib.genprog core programs + templates "
        "for struct/enum/method/test/import/match/doc comments/long signatures/trailing commas/multi-line strings) "
        "under random layout perturbation (token-level re-spacing, indentation, blank lines, comments in gaps, CRLF), "
        "kept when they parse without errors. For each: format through the cfg-gated hook op `format` (the very "
        "function `garden format` calls; a sample is cross-checked against the CLI), then (1) hook `asteq`(input, "
        "output) must be equal and the output must have no parse errors (AST PartialEq ignores positions, compares "
        "identifiers, literal values incl. string contents, doc comments); the comment sequence (text and the token "
        "each comment precedes, from hook `lex`) must be equal modulo trailing whitespace; the token texts must be "
        "equal up to `,` tokens; (2) translation validation: every phase's edits (exact edit lists traced from "
        "format.rs for the span-edit phases 4, 7, 8; byte diffs of the traced phase texts for the line phases 5, 6, 9) "
        "are given to the extracted Coq checker (op gapcheck): each edit must lie in a whitespace run, replace "
        "whitespace by whitespace and satisfy the glue condition; the model's edit application must reproduce the "
        "phase output and the model's token/comment sequence must be unchanged. Phase 0 (signature wrapping, which "
        "rewrites tokens and adds a trailing comma) is validated by (1) only. An edit outside the (sufficient) "
        "conditions is a violation when it removes or inserts non-whitespace or when the model lexer's token/comment "
        "sequence changes; when only the glue / step-boundary condition fails and the sequence is unchanged it is "
        "counted in the stats (e.g. `x:Int` -> `x: Int`: the inserted space is followed by a letter). Inputs with CR "
        "line ends are classified separately (`crlf-input:`): the formatter re-terminates lines with LF. A case is "
        "non-trivial when the formatter changed the text.")
META = {
    "technique": ("Coq proof over the lexer model (Lex.v) and an edit algebra + per-run translation validation of the "
                  "real formatter's edits by the extracted checker + AST/comment comparison of input vs output on "
                  "generated programs"),
    "level_text": ("PROVED (Coq, all sources): splice_in_gap_preserves_tokens -- a byte splice whose removed text is a run "
                   "of whitespace the lexer skips between two lexer steps, whose replacement is whitespace only, and which "
                   "satisfies the decidable glue condition (the token before the run is not left touching a character "
                   "that could extend it: witnesses `a b`->`ab`, `1 .5`, `- 1`) leaves the sequence of token texts and "
                   "comment texts of Lex.lex unchanged; edits_in_gaps_preserve_tokens -- the same for a list of such "
                   "edits applied in descending offset order; line_indent_edit_in_gap -- re-indenting a line whose start "
                   "is a lexer step boundary (not inside a token or comment) preserves the sequence; "
                   "line_indent_edit_refuted -- without that hypothesis it does not (multi-line string); "
                   "kstep_is_lex_step -- the position-free step function the conditions use is Lex.lex_step at every "
                   "offset of every source. The conditions also exclude sources that start with `#` (shebang) and "
                   "edits placed after an unclosed string, an unterminated final comment or a string closed only by "
                   "the end of the text. The glue condition is SUFFICIENT, not claimed exact (it rejects e.g. `x:Int` "
                   "-> `x: Int`, which is harmless). NOT PROVED: that format.rs's edits satisfy these "
                   "conditions -- this is checked PER RUN by the driver on the edits the real formatter produced "
                   "(translation validation), and phases 0-6 as algorithms (AST visitor, signature wrapping, blank "
                   "lines) are not modelled. NOT PROVED: 'same token texts + same layout facts => same syntax tree'; "
                   "it relies on parser.rs reading, besides token texts, only these layout facts: return's argument "
                   "must start on the return token's end line (parser.rs:687), `{` touching the preceding symbol "
                   "makes a struct literal (:809 end_offset == start_offset), `(` touching the preceding expression "
                   "makes a call (:1221), same-line tests in missing-comma recovery (:1122/:1126) and in the "
                   "keyword-as-name diagnostic (:2933), and comment line adjacency when joining doc comments "
                   "(:2561 pos.line_number + 1, via preceding_comments :2593). It is validated end to end by "
                   "comparing ASTs (hook asteq) of input and output."),
    "level_note": ("Trusted: Coq kernel; coq/Lex.v as the meaning of lex.rs (tied by C01/C23's differential runs); "
                   "extraction + ocaml/ops_editalgebra.ml; the cfg-gated hooks (format trace, asteq = the AST's own "
                   "PartialEq, lex); Python diffing of phase texts for the line-based phases. The CLI strips a "
                   "`// args: ` reftest footer before formatting (main.rs remove_testing_footer): a file with a line "
                   "starting `// args: ` is truncated there by `garden format` -- by design of the test harness, "
                   "generated inputs avoid such lines."),
    "design_ref": "DESIGN.md §5 C17, §8 item 15",
}

TRUSTED = ["Coq kernel 8.16.1", "coq/Lex.v + Base/Utf.v as the meaning of src/parser/lex.rs (differentially tested by C01/C23)",
           "extraction + ocaml/ops_editalgebra.ml", "cfg-gated hooks: format (phase trace), asteq (AST PartialEq), lex, sexp",
           "tools/props/C17.py (generator, diffing of phase texts, shrinking)"]

# ---------------------------------------------------------------------------------------------
# Generator

MULTI_STRINGS = ['"a\n   b"', '"x\n\n\n  y\n"', '"\n"', '"line1\n line2 \n\tline3"', '"é\n      €"', '"a\n// not a comment\nb"',
                 '"p\n  }\n q"', '"k\n\n\n\n\nz"', '"  \n  \n"', '"q\\"\n  r"']
COMMENTS = ["// c", "// x = y", "//", "/// doc", "// a, b => c", "//   spaced   ", "// é €", "// \"quoted", "// fun f() {",
            "// args", "// 1 / 2"]

TEMPLATES = [
    "struct Point {\n  x: Int,\n  y: Int,\n}\n",
    "struct Wrapper<T> { value: T, count: Int }\n",
    "enum Color { Red, Green, Blue }\n",
    "enum Shape {\n  Circle(Int),\n  Square(Int),\n  Empty,\n}\n",
    "method norm(this: Point): Int {\n  this.x * this.x + this.y * this.y\n}\n",
    "method describe(this: Color): String {\n  match this {\n    Red => \"red\"\n    Green => { \"green\" }\n    Blue => \"blue\",\n  }\n}\n",
    "test adds {\n  assert(1 + 1 == 2)\n}\n",
    "test strings { assert(\"a\" ^ \"b\" == \"ab\") }\n",
    "import \"__fs.gdn\" as fs\nimport \"__random.gdn\"\n",
    "/// A documented function.\n/// Second line.\nfun documented(x: Int): Int {\n  x + 1\n}\n",
    "// plain comment\n\n/// doc after blank\npublic fun exported(a: String, b: List<Int>): Unit {\n  println(a)\n}\n",
    "fun render_doc_comment(heading: String, doc_comment: String, src: Option<String>, file: Option<Path>, self_url: Option<String>): String {\n  \"result\"\n}\n",
    "method long_method(this: Point, a: List<(Int, String)>, b: Dict<Int>, c: (Int, String, Bool), d: Option<Path>, e: Int): String {\n  \"result\"\n}\n",
    "fun long_untyped(aaaaaaaaaaaaaaa, bbbbbbbbbbbbbbbbbb, cccccccccccccccccccc, dddddddddddddddddd, eeeeeeeeeeeeeeeeeee, fffffffffff) { 1 }\n",
    "fun generic<T>(items: List<T>, f: Fun<(T), Bool>): List<T> {\n  items.filter(f)\n}\n",
    "let p = Point{ x: 1, y: 2 }\nlet q = Point{\n  x: p.x,\n  y: 3,\n}\n",
    "let xs = [\n  1,\n  2,\n  3,\n]\nlet ys = [1, 2, 3,]\nlet t = (1, \"two\", 3.5)\n",
    "let d = [\"a\" => 1, \"b\" => 2]\n",
    "let total = foo(\n  1,\n  bar(2,\n    3),\n  fun(x) { x + 1 },\n)\n",
    "let f = fun(x: Int, y: Int): Int { x + y }\nlet g = fun() {\n  let z = 1\n  z\n}\n",
    "let (a, b) = (1, 2)\nlet c: Int = a + b\n",
    "fun early(x: Int): Int {\n  if x > 0 {\n    return x\n  }\n  return\n}\n",
    "fun loops() {\n  let i = 0\n  while i < 10 {\n    i += 1\n    if i == 5 { continue }\n    if i == 8 { break }\n  }\n  for x in [1, 2] {\n    println(string_repr(x))\n  }\n  for (k, v) in [(1, 2)] { dbg(k + v) }\n}\n",
    "fun m(o: Option<Int>): Int {\n  match o {\n    Some(v) => v + 1\n    None => {\n      0\n    }\n  }\n}\n",
    "let r = match x { Some(_) => 1, None => 2 }\n",
    "fun try_it() {\n  let s = \"multi\nline\n   string\"\n  println(s)\n}\n",
    "let v = xs.map(fun(x) { x * 2 }).filter(fun(x) {\n  x > 2\n}).len()\n",
    "let n = -1 - -2\nlet fl = 1.5 +. 2.0\nlet neg = - 1\nlet ns = fs::read_file\nlet b = !True\n",
    "{\n  let scoped = 1\n  scoped\n}\n",
    "fun unit() {}\nfun one() { 1 }\nexternal fun ext(x: Int): Int {\n  x\n}\n",
    "let long_call = some_function(argument_one, argument_two, argument_three, argument_four, argument_five, arg6)\n",
    "if a { 1 } else if b { 2 } else { 3 }\n",
    "assert(x == 1)\nlet s2 = \"tab\\there\" ^ \"nl\\n\"\n",
    "let x = 1 // trailing comment\n// own line\nlet y = 2\n",
    "fun tight(x:Int, y:String):Int { x }\nlet z:Int = 1\n",
    "fun with_comments() {\n  // first\n  let a = 1\n\n  // before close\n}\n",
]


def rand_gap(r, had_nl):
    """A replacement for a non-empty inter-token gap (whitespace only)."""
    if had_nl:
        k = r.randrange(10)
        if k < 5:
            return "\n" + " " * r.randrange(0, 9)
        if k < 7:
            return "\n" * r.randrange(2, 5) + " " * r.randrange(0, 6)
        if k == 7:
            return "  \n\t"
        if k == 8:
            return " \n \n" + " " * r.randrange(0, 4)
        return "\n"
    k = r.randrange(12)
    if k < 6:
        return " "
    if k < 9:
        return " " * r.randrange(2, 5)
    if k == 9:
        return "\t"
    if k == 10:
        return "\n" + " " * r.randrange(0, 7)     # a new line break (kept only if it still parses)
    return " \n\n "


NO_INSERT_BEFORE = {"(", "{", ":", "::", ".", "<", ">", "["}
NO_INSERT_AFTER = {"::", ".", "<", ":"}
GLUE_OK_NEXT = {",", ")", "]", "}", ";"}
GLUE_OK_PREV = {"(", "[", ","}


def relayout(r, src, toks, intensity):
    """Re-emit `src` (lexed into toks by the hook) with randomly changed gaps. Keeps token texts and comments."""
    b = src.encode("utf-8")
    out = []
    prev_end = 0
    prev_text = None
    for t in toks["tokens"]:
        s, e = t["pos"][0], t["pos"][1]
        gap = b[prev_end:s].decode("utf-8")
        out.append(new_gap(r, gap, prev_text, t["text"], t["comments"], intensity, first=(prev_text is None)))
        out.append(t["text"])
        prev_end = e
        prev_text = t["text"]
    tail = b[prev_end:].decode("utf-8")
    if toks["trailing_comments"]:
        out.append(new_gap(r, tail, prev_text, None, toks["trailing_comments"], intensity, first=False))
    else:
        out.append(r.choice([tail, "\n", "", "\n\n\n", "  \n", "\n  "]) if r.random() < intensity else tail)
    return "".join(out)


def new_gap(r, gap, prev_text, next_text, comments, intensity, first):
    if r.random() >= intensity:
        return maybe_comment(r, gap, intensity)
    if comments:
        # keep the comments, change the whitespace around them
        parts = []
        lead = rand_gap(r, "\n" in gap.split("//")[0]) if not first else " " * r.randrange(0, 5)
        if prev_text is None and not first:
            lead = ""
        parts.append(lead if (prev_text is not None or first) else "")
        for (i, c) in enumerate(comments):
            txt = c["text"].rstrip("\n")
            parts.append(txt + "\n")
            if i + 1 < len(comments) or next_text is not None:
                parts.append(r.choice(["", "", "  ", "    ", "\n", "\n\n  ", "\t", "      "]))
        return "".join(parts)
    if gap == "":
        if prev_text is None or next_text is None:
            return gap
        if next_text in NO_INSERT_BEFORE or prev_text in NO_INSERT_AFTER or r.random() < 0.6:
            return gap
        return r.choice([" ", "  ", " ", "\n  "])
    had_nl = "\n" in gap
    if first:
        return r.choice(["", "  ", "\n", "\n\n  ", "\t"])
    if not had_nl and (next_text in GLUE_OK_NEXT or prev_text in GLUE_OK_PREV) and r.random() < 0.4:
        return ""
    return maybe_comment(r, rand_gap(r, had_nl), intensity)


def maybe_comment(r, gap, intensity):
    """Put a comment into a gap that contains a newline (the comment takes the place of the first line break)."""
    if "\n" in gap and "//" not in gap and r.random() < 0.12 * intensity:
        i = gap.index("\n")
        return gap[:i] + r.choice([" ", "", "   "]) + r.choice(COMMENTS) + gap[i:]
    return gap


def line_noise(r, src):
    """Character-level layout noise: indentation, trailing whitespace, blank lines, CRLF."""
    lines = src.split("\n")
    k = r.randrange(6)
    out = []
    for ln in lines:
        if k == 0 and ln.strip():
            ln = " " * r.randrange(0, 7) + ln.lstrip(" ")
        elif k == 1 and r.random() < 0.3:
            ln = ln + r.choice([" ", "  ", "\t"])
        elif k == 2 and r.random() < 0.2:
            out.append(r.choice(["", "   ", "\t"]))
        elif k == 3 and ln.strip():
            ln = ln.lstrip(" ")
        out.append(ln)
    s = "\n".join(out)
    if k == 4:
        s = s.replace("\n", "\r\n")
    if k == 5 and s.endswith("\n"):
        s = s.rstrip("\n") + r.choice(["", "\n\n", "\n \n"])
    return s


HINT_POOL = ["Int", "String", "Bool", "()", "(Int,)", "(Int, String)", "List<Int>", "List<()>", "Option<(Int, Bool)>", "Fun<(), Unit>",
             "Fun<(Int), ()>", "Fun<(Int, String), Bool>", "Dict<Int>", "Option<Path>", "Result<Int, String>", "((), ())", "T"]


def rand_signature(rng):
    """A fun/method definition whose one-line signature has a length around the wrapping limit (100), with every kind of
    type hint (also the empty and the one-element tuple) and tight or spaced annotations."""
    target = rng.randrange(96, 106) if rng.random() < 0.6 else rng.randrange(60, 150)
    sep = rng.choice([": ", ": ", ":"])
    kind = rng.choice(["fun", "fun", "public fun", "method"])
    generic = rng.random() < 0.3
    params = []
    if kind == "method":
        params.append("this%sPoint" % sep)
    ret = rng.choice(HINT_POOL + ["Unit", None])
    name = "sig"

    def line():
        tp = "<T>" if generic else ""
        r = "" if ret is None else "%s%s" % (sep.rstrip() + (" " if sep.endswith(" ") else ""), ret)
        return "%s %s%s(%s)%s {" % (kind, name, tp, ", ".join(params), r)
    i = 0
    while len(line()) < target - 12 and i < 12:
        i += 1
        h = rng.choice(HINT_POOL)
        if h == "T" and not generic:
            h = "Int"
        params.append("p%d%s%s" % (i, sep, h) if rng.random() < 0.85 else "q%d" % i)
    pad = max(0, target - len(line()))
    name = "sig" + "x" * pad
    body = rng.choice([" 1 }", "\n  1\n}", " }", "\n  let z%sInt = 1\n  z\n}" % sep])
    return line() + body + "\n"


def base_programs(rng, n_core, n_tmpl):
    progs = []
    for _ in range(max(6, n_tmpl // 3)):
        k = rng.randrange(1, 3)
        parts = [rand_signature(rng) for _ in range(k)]
        if rng.random() < 0.5:
            parts.insert(rng.randrange(len(parts) + 1), rng.choice(TEMPLATES))
        if rng.random() < 0.5:
            # text that the same pass REMOVES elsewhere in the file (blank-line runs, over-indentation), so the output
            # is not longer than the input although a signature grew
            parts.insert(rng.randrange(len(parts) + 1), rng.choice([
                "\n\n\n\n\n\n\n", "fun pad_over_indented() {\n              let q = 1\n              q\n}\n\n\n\n\n",
                "let spaced    =     [1,    2,     3]\n\n\n\n\n"]))
        progs.append("".join(parts))
    for size in (3, 6, 10):
        progs += genprog.programs(rng, n_core // 3, size=size, annotate=rng.random() < 0.5)
    for _ in range(n_tmpl):
        k = rng.randrange(1, 5)
        parts = [rng.choice(TEMPLATES) for _ in range(k)]
        if rng.random() < 0.3:
            parts.insert(rng.randrange(len(parts) + 1), genprog.programs(rng, 1, size=2)[0])
        progs.append(rng.choice(["", "", "\n"]).join(parts))
    for t in TEMPLATES:
        progs.append(t)
    out = []
    for p in progs:
        # multi-line strings: replace some one-line string literals
        if rng.random() < 0.35:
            for lit in ['"a"', '"b c"', '"result"', '"red"', '"two"']:
                if lit in p and rng.random() < 0.6:
                    p = p.replace(lit, rng.choice(MULTI_STRINGS), 1)
        if rng.random() < 0.25:
            lines = p.split("\n")
            i = rng.randrange(len(lines))
            lines.insert(i, rng.choice(["let ms = %s" % rng.choice(MULTI_STRINGS), "%s foo(1)" % rng.choice(MULTI_STRINGS),
                                        "let w = [%s, 2]" % rng.choice(MULTI_STRINGS)]))
            p = "\n".join(lines)
        out.append(p)
    return out


def gen_inputs(ctx, exe, n_core, n_tmpl, variants):
    """-> list of (kind, source) of programs that parse without errors."""
    rng = ctx.rng
    bases = base_programs(rng, n_core, n_tmpl)
    lexed = oracle.batch(exe, [{"op": "lex", "src": s} for s in bases])
    cands = []
    for s, lx in zip(bases, lexed):
        cands.append(("base", s))
        if "tokens" not in lx:
            continue
        for v in range(variants):
            inten = [0.15, 0.5, 1.0][v % 3]
            try:
                t = relayout(rng, s, lx, inten)
            except Exception:
                continue
            if rng.random() < 0.5:
                t = line_noise(rng, t)
            cands.append(("relayout", t))
    # drop anything the CLI would cut at a reftest footer
    cands = [(k, s) for (k, s) in cands if "\n// args: " not in "\n" + s]
    seen = set()
    uniq = []
    for k, s in cands:
        if s not in seen:
            seen.add(s)
            uniq.append((k, s))
    parsed = oracle.batch(exe, [{"op": "sexp", "src": s} for (k, s) in uniq])
    good = []
    for (k, s), p in zip(uniq, parsed):
        if "items" in p and not p["errors"]:
            good.append((k, s))
        else:
            ctx.stat("generated candidates that do not parse (dropped)")
    return good


# ---------------------------------------------------------------------------------------------
# Observations

def comment_seq(lx):
    """[(comment text without trailing whitespace, text of the token it precedes or None)]"""
    out = []
    for t in lx.get("tokens", []):
        for c in t["comments"]:
            out.append((c["text"].rstrip(), t["text"]))
    for c in lx.get("trailing_comments", []):
        out.append((c["text"].rstrip(), None))
    return out


def tok_texts(lx):
    return [t["text"] for t in lx.get("tokens", [])]


def observe(exe, srcs):
    """format every source; -> list of dict(src, out, phases, panic, asteq, lex_in, lex_out)."""
    f = oracle.batch(exe, [{"op": "format", "src": s} for s in srcs])
    res = []
    reqs = []
    for s, r in zip(srcs, f):
        o = {"src": s, "out": r.get("output"), "phases": r.get("phases"), "panic": r.get("panic"), "raw": None}
        if o["out"] is None:
            o["raw"] = r
        res.append(o)
        if o["out"] is not None:
            reqs += [{"op": "asteq", "a": s, "b": o["out"]}, {"op": "lex", "src": s}, {"op": "lex", "src": o["out"]}]
    rr = oracle.batch(exe, reqs)
    i = 0
    for o in res:
        if o["out"] is not None:
            o["asteq"], o["lex_in"], o["lex_out"] = rr[i], rr[i + 1], rr[i + 2]
            i += 3
    return res


def classify(o):
    """-> (key suffix, description) of the first C17 failure of observation o, or None.
    Inputs containing a carriage return get their own class: the formatter (like the CLI before it) re-terminates
    every line with LF, which also rewrites CR LF inside multi-line strings and at the end of doc comments."""
    c = classify0(o)
    if c is not None and "\r" in o["src"] and c[0] != "format-panics":
        return ("crlf-input:" + c[0], c[1] + " (input has CR LF line ends)")
    return c


def classify0(o):
    if o["out"] is None:
        return ("format-panics", "the formatter panicked: %s" % (o["panic"] or o["raw"]))
    a = o["asteq"]
    li, lo = o["lex_in"], o["lex_out"]
    if "equal" not in a:
        return ("asteq-failed", "hook asteq gave %s" % a)
    if a.get("errors_a"):
        return None            # not a parseable input
    ti, to = tok_texts(li), tok_texts(lo)
    si = [t for t in ti if t.startswith('"')]
    so = [t for t in to if t.startswith('"')]
    ci, co = comment_seq(li), comment_seq(lo)
    if a.get("errors_b"):
        return ("output-does-not-parse", "the output has %d parse errors" % a["errors_b"])
    if si != so:
        multi = any("\n" in t for t in si)
        d = next(((x, y) for x, y in zip(si, so) if x != y), (None, None))
        return ("string-literal-changed:%s" % ("multi-line" if multi else "single-line"),
                "string literal %r became %r" % d)
    if [c for c, _ in ci] != [c for c, _ in co]:
        return ("comments-changed", "comments %r became %r" % ([c for c, _ in ci][:6], [c for c, _ in co][:6]))
    if not a["equal"]:
        if [t for t in ti if t != ","] != [t for t in to if t != ","]:
            return ("ast-changed:tokens-changed", "token texts changed and the syntax tree differs")
        return ("ast-changed:same-tokens", "same token texts but the syntax tree differs (layout-sensitive parse)")
    if [t for t in ti if t != ","] != [t for t in to if t != ","]:
        return ("tokens-changed", "the syntax tree is equal but token texts other than commas changed")
    if ci != co:
        return ("comment-attachment-changed", "a comment now precedes a different token")
    return None


# ---------------------------------------------------------------------------------------------
# Per-phase edits (translation validation input)

WS = set(map(chr, [9, 10, 11, 12, 13, 32, 0x85, 0xA0, 0x1680] + list(range(0x2000, 0x200B)) +
             [0x2028, 0x2029, 0x202F, 0x205F, 0x3000]))          # char::is_whitespace


def diff_edits(a, b):
    """Byte edits turning text a into text b, one per maximal whitespace run that differs (the whole run is replaced).
    The two texts are walked in parallel; non-whitespace characters must agree. When they do not (the phase changed
    something other than whitespace) the result is one edit from the first to the last difference."""
    boff = [0]
    for ch in a:
        boff.append(boff[-1] + len(ch.encode("utf-8")))
    edits = []
    i = j = 0
    na, nb = len(a), len(b)
    while True:
        i2 = i
        while i2 < na and a[i2] in WS:
            i2 += 1
        j2 = j
        while j2 < nb and b[j2] in WS:
            j2 += 1
        if a[i:i2] != b[j:j2]:
            # the common prefix of the two runs is kept out of the edit (it may hold the line feed that ends a comment)
            k = 0
            while i + k < i2 and j + k < j2 and a[i + k] == b[j + k]:
                k += 1
            edits.append([boff[i + k], boff[i2], b[j + k:j2]])
        i, j = i2, j2
        if i >= na and j >= nb:
            return edits
        while i < na and j < nb and a[i] not in WS and b[j] not in WS:
            if a[i] != b[j]:
                break
            i += 1
            j += 1
        if (i < na and a[i] not in WS) and (j < nb and b[j] not in WS) or (i >= na) != (j >= nb) and \
                not ((i < na and a[i] in WS) or (j < nb and b[j] in WS)):
            # a change that is not whitespace
            A, B = a.encode("utf-8"), b.encode("utf-8")
            p = _prefix(A, B)
            q = _suffix(A, B, p)
            return [[p, len(A) - q, B[p:len(B) - q].decode("utf-8", "replace")]]


def _prefix(A, B):
    p = 0
    while p < len(A) and p < len(B) and A[p] == B[p]:
        p += 1
    return p


def _suffix(A, B, p):
    q = 0
    while q < len(A) - p and q < len(B) - p and A[len(A) - 1 - q] == B[len(B) - 1 - q]:
        q += 1
    return q


def apply_edits_py(A, edits):
    out = A
    for s, e, rep in sorted(edits, key=lambda x: -x[0]):
        out = out[:s] + rep.encode("utf-8") + out[e:]
    return out


def phase_edits(o):
    """-> list of (phase name, input text, [edits], output text) for phases 4..9 of one format run."""
    ph = o["phases"] or []
    texts = {}
    lists = {}
    for p in ph:
        n = p["phase"]
        if n.endswith(":out"):
            texts[n[:-4]] = p["text"]
        elif n in ("4-span-edits", "5-line-edits", "6-blank-lines", "9-final-newline"):
            texts[n] = p["text"]
            lists[n] = p["edits"]
        else:
            lists[n] = p["edits"]
    order = ["0-wrap-signatures", "4-span-edits", "5-line-edits", "6-blank-lines", "7-type-annotations",
             "8-token-spacing", "9-final-newline"]
    res = []
    for prev, cur in zip(order, order[1:]):
        if prev not in texts or cur not in texts:
            continue
        a, b = texts[prev], texts[cur]
        if cur in ("4-span-edits", "7-type-annotations", "8-token-spacing"):
            ed = [[e[0], e[1], e[2]] for e in (lists.get(cur) or [])]
            exact = True
        else:
            ed = diff_edits(a, b)
            exact = False
        ed.sort(key=lambda e: -e[0])          # stable: the order apply_span_edits uses
        res.append((cur, a, ed, b, exact))
    return res


def gapcheck_lines(items):
    """items: [(src, edits)] -> request lines for the model op gapcheck."""
    lines = []
    for src, ed in items:
        flat = ";".join("%d,%d,%s" % (s, e, common.hexs(rep)) for s, e, rep in ed)
        lines.append("gapcheck\t%s\t%s" % (common.hexs(src), flat))
    return lines


def parse_gapcheck(line):
    """`ok=<0|1> applied=<hex> same=<0|1> bad=<idx:reason,...>` -> dict"""
    d = {}
    for part in line.strip().split(" "):
        if "=" in part:
            k, v = part.split("=", 1)
            d[k] = v
    return d


# ---------------------------------------------------------------------------------------------
# Shrinking

def shrink(exe, src, key, budget=12):
    """Greedy line / token-chunk removal keeping `classify` == key on a parseable input."""
    def still(cands):
        obs = observe(exe, cands)
        return [c is not None and c[0] == key for c in (classify(o) for o in obs)]
    cur = src
    rounds = 0
    while rounds < budget:
        rounds += 1
        lines = cur.split("\n")
        cands = []
        for n in (max(1, len(lines) // 2), max(1, len(lines) // 4), 1):
            for i in range(0, len(lines), n):
                c = "\n".join(lines[:i] + lines[i + n:])
                if c != cur and c not in cands:
                    cands.append(c)
            if len(cands) > 60:
                break
        cands = cands[:80]
        if not cands:
            break
        ok = still(cands)
        better = [c for c, k in zip(cands, ok) if k]
        if not better:
            break
        cur = min(better, key=len)
    return cur


# ---------------------------------------------------------------------------------------------

def cli_format(exe, src, check=False):
    d = tempfile.mkdtemp(dir=oracle.scratch_dir())
    try:
        p = os.path.join(d, "input.gdn")
        with open(p, "wb") as f:
            f.write(src.encode("utf-8"))
        args = ["format"] + (["--check"] if check else []) + [p]
        rc, out, err = oracle.garden_cli(exe, args, timeout=30, cwd=d)
        if rc == 124:
            # the formatter takes milliseconds; a timeout is the machine's load: try again, alone, with a long limit
            rc, out, err = oracle.garden_cli(exe, args, timeout=300, cwd=d)
        return rc, out, err
    finally:
        shutil.rmtree(d, ignore_errors=True)


def budgets(ctx):
    if ctx.thorough:
        return dict(n_core=600, n_tmpl=900, variants=9)
    return dict(n_core=90, n_tmpl=140, variants=4)


def run(ctx):
    ctx.trusted = TRUSTED
    ctx.coq("Properties/C17.v")
    exe = ctx.impl()
    if not exe:
        return
    mdl = ctx.model("editalgebra")
    inputs = gen_inputs(ctx, exe, **budgets(ctx))
    ctx.log("%d parseable inputs" % len(inputs))
    srcs = [s for (_, s) in inputs]
    obs = observe(exe, srcs)
    reported = {}
    for (kind, s), o in zip(inputs, obs):
        changed = o["out"] is not None and o["out"] != s
        ctx.case({"format": s}, changed)
        ctx.stat("inputs:" + kind)
        if "\n" in "".join(t for t in tok_texts(o.get("lex_in") or {}) if t.startswith('"')):
            ctx.stat("inputs with a multi-line string")
        if comment_seq(o.get("lex_in") or {}):
            ctx.stat("inputs with comments")
        if o["phases"] and any(p["phase"] == "0-wrap-signatures" and p["edits"] for p in o["phases"]):
            ctx.stat("inputs with a wrapped signature")
        c = classify(o)
        if c is None:
            continue
        key = "C17:" + c[0]
        ctx.stat("failing inputs:" + c[0])
        if key in reported and len(reported[key]["input"]) <= len(s):
            continue
        reported[key] = {"input": s, "what": c[1], "out": o["out"]}
    for key, v in sorted(reported.items()):
        small = shrink(exe, v["input"], key[4:])
        o = observe(exe, [small])[0]
        c = classify(o)
        ctx.violation(key, "garden format changes the program: %s (input %r)" % (c[1] if c else v["what"], small[:160]),
                      {"input": small, "observed": {"output": o["out"], "what": c[1] if c else v["what"]},
                       "expected": "same syntax tree, string contents and comments",
                       "unshrunk_input": v["input"],
                       "cli_command": "garden format <file containing input>"})

    # ---- hook vs CLI on a sample -------------------------------------------------------------
    sample = [o for o in obs if o["out"] is not None]
    sample = sample if len(sample) <= 60 else ctx.rng.sample(sample, 60 if not ctx.thorough else 300)
    with concurrent.futures.ThreadPoolExecutor(common.NCPU) as ex:
        cli = list(ex.map(lambda o: cli_format(exe, o["src"]), sample))
    for o, (rc, out, err) in zip(sample, cli):
        ctx.stat("hook vs CLI compared")
        # the CLI reads the file through remove_testing_footer: every line re-terminated by LF
        norm = "".join(l + "\n" for l in o["src"].splitlines()) if False else None
        if rc != 0 or out != o["out"]:
            # the CLI normalises line ends before formatting; compare against the hook on the normalised text
            pre = "".join(l + "\n" for l in _rust_lines(o["src"]))
            again = oracle.batch(exe, [{"op": "format", "src": pre}], shards=1)[0].get("output")
            if rc != 0 or out != again:
                ctx.broken("correspondence:hook-vs-cli", "input %r: CLI rc=%s out=%r hook=%r" % (o["src"], rc, out[:200], (again or "")[:200]))
                break

    # ---- translation validation of the phases ----------------------------------------------------
    if not mdl:
        return
    items = []
    meta = []
    for o in obs:
        if o["out"] is None or (o["asteq"].get("errors_a") or 0) > 0:
            continue
        for (name, a, ed, b, exact) in phase_edits(o):
            if not ed and a == b:
                ctx.stat("phase runs without edits")
                continue
            items.append((a, ed))
            meta.append((o, name, a, ed, b, exact))
    ctx.log("gapcheck on %d phase runs" % len(items))
    rc, res, err = common.run_lines(mdl, [], gapcheck_lines(items), shards=16, timeout=1800)
    if len(res) != len(items):
        ctx.broken("model-driver:gapcheck", "asked %d, got %d answers: %s" % (len(items), len(res), err[-300:]))
        return
    seen_bad = {}
    for (o, name, a, ed, b, exact), line in zip(meta, res):
        d = parse_gapcheck(line)
        ctx.stat("phase runs checked:" + name)
        if "ok" not in d:
            ctx.broken("model-driver:gapcheck", "bad answer %r" % line[:200])
            break
        applied = common.unhex(d["applied"]) if d.get("applied", "!") != "!" else None
        if applied != b.encode("utf-8") and d.get("sorted") == "1":
            ctx.cov.setdefault("corr_mismatches", []).append({"phase": name, "input": a, "edits": ed, "formatter": b,
                                                              "model_applied": (applied or b"!").decode("utf-8", "replace"),
                                                              "whole_source": o["src"]})
            ctx.broken("correspondence:apply-edits", "phase %s on %r: model application of %s gives %r, formatter %r"
                       % (name, a, ed, (applied or b"!")[:200], b[:200]))
            break
        if d["ok"] == "1":
            if d.get("same") != "1":
                ctx.broken("model:theorem-instance", "edits accepted by gapcheck changed the model's token sequence: %r %s" % (a, ed))
            continue
        reason = d.get("bad", "?")
        cls = "%s:%s" % (name, reason.split(",")[0].split(":")[-1] if reason else "?")
        harmless = d.get("same") == "1" and cls.split(":")[-1] in ("glue", "inside-token-or-comment", "shebang") and not exact
        harmless = harmless or (d.get("same") == "1" and cls.split(":")[-1] == "glue")
        if "\r" in o["src"]:
            ctx.stat("phase edits outside the proved conditions on CR LF input (see crlf-input finding)")
            continue
        if harmless:
            # outside the SUFFICIENT conditions, but the model lexer sees the same tokens and comments
            ctx.stat("phase edits outside the proved conditions, tokens and comments kept:" + cls)
            continue
        ctx.stat("phase edits outside the proved conditions:" + cls)
        if cls not in seen_bad or len(seen_bad[cls][0]["src"]) > len(o["src"]):
            seen_bad[cls] = (o, name, a, ed, d)
    for cls, (o, name, a, ed, d) in sorted(seen_bad.items()):
        harmful = d.get("same") != "1"
        key = "C17:edit-outside-gap-conditions:%s:%s" % (cls, "tokens-change" if harmful else "tokens-kept")
        ctx.violation(key, "phase %s of garden format made an edit the proved gap conditions do not cover (%s) on %r"
                      % (name, d.get("bad"), o["src"][:160]),
                      {"input": o["src"], "observed": {"phase": name, "phase_input": a, "edits": ed, "gapcheck": d},
                       "expected": "whitespace-for-whitespace edits inside inter-token whitespace runs",
                       "cli_command": "garden format <file containing input>"})
    ctx.notes.append("that format.rs's edits meet the gap conditions is validated per run (translation validation), not proved")


def _rust_lines(s):
    """str::lines: split at \\n, strip one trailing \\r, no final empty line."""
    parts = s.split("\n")
    if parts and parts[-1] == "":
        parts.pop()
    return [p[:-1] if p.endswith("\r") else p for p in parts]


def replay(ctx, rp):
    exe = ctx.impl()
    s = rp["input"]
    o = observe(exe, [s])[0]
    c = classify(o)
    print("input:   %r" % s)
    print("output:  %r" % o["out"])
    print("now:     %s" % (c,))
    print("recorded:", json.dumps(rp.get("observed"))[:300])
    if c is not None:
        return 1
    if rp.get("key", "").startswith("C17:edit-outside-gap-conditions"):
        mdl = ctx.model("editalgebra")
        bad = 0
        for (name, a, ed, b, exact) in phase_edits(o):
            if not ed:
                continue
            rc, res, err = common.run_lines(mdl, [], gapcheck_lines([(a, ed)]), shards=1)
            d = parse_gapcheck(res[0]) if res else {}
            print(name, ed, d.get("ok"), d.get("bad"))
            if d.get("ok") != "1":
                bad += 1
        return 1 if bad else 0
    return 0
