"""C18 -- Formatting is idempotent (search on the real binary for every input; partial Coq lemmas on the edit model)."""
import concurrent.futures
import json

from vplib import common, oracle
from props import C17 as F

LEVEL = "proof"
RULE = ("Coq: Properties/C18.v over FormatPhases.v (executable models of phases 6-9 of src/format.rs) and "
        "EditAlgebra.v/Lex.v. Dynamic, on the real binary: the C17 generator (parseable programs under random layout "
        "perturbation) plus unparsable inputs (token deletions / duplications / swaps, random character insertions, "
        "truncations). (1) Search: for each input x, f1 = format(x) and f2 = format(f1) through the cfg-gated hook op "
        "`format` (the function the CLI calls); f2 must equal f1; `garden format --check` on a file holding f1 must "
        "exit 0 and `garden format` on it must print f1 (CLI, every input in thorough, a sample in quick). Inputs on "
        "which the front end produces no output at all (parser panic or hang) are counted and listed in the notes, "
        "not reported as C18 violations (C01's subject); a crash on the formatter's OWN output is a violation. "
        "(2) Tie of the models: for EVERY formatted input, the extracted model of each of the phases 6, 7, 8, 9 is run "
        "on that phase's real input text from the hook's per-phase trace (phase 6 also gets the traced toplevel line "
        "numbers) and its output must equal the real phase's output byte for byte; a mismatch is a broken "
        "correspondence. Which version of normalize_token_spacing the tree has is read from src/format.rs; the code "
        "before fix-5 is a broken tie (the theorems model the fixed code). A case is non-trivial when format(x) != x.")
META = {
    "technique": ("Coq proofs over executable models of the text-level formatter phases (6-9) + differential execution "
                  "of the extracted phase models against the real phases on every formatted input (per-phase trace of "
                  "the hook) + property-directed search on the real binary (format twice, --check) over generated "
                  "parseable and unparsable inputs"),
    "level_text": ("PROVED (Coq) for the modelled phases 6-9 of src/format.rs: phase6_lines_idem -- normalize_blank_lines, "
                   "as a function on lines annotated with the two facts it looks up by line number, is idempotent on EVERY "
                   "input; phase7_segs_idem, phase8_segs_idem, phase78_segs_idem, phase7_stable_after_phase8 -- "
                   "fix_type_annotation_spacing and normalize_token_spacing as gap rewritings on the lexed segments are "
                   "idempotent, alone and composed, on EVERY input (phase 8 never touches a gap phase 7 wrote); "
                   "phase7_idem_no_unclosed, phase8_idem_no_unclosed, phases_7_8_composition_idem_partial -- the same as "
                   "text -> text functions whose second run re-lexes the output, for every source in which the lexer "
                   "meets no unclosed string literal (re-lexing the output finds exactly the rewritten segments: needs "
                   "the locality of Lex.lex proved for C17 plus maximal-munch lemmas for the number/symbol scanners); "
                   "phases_7_8_keep_tokens, phases_7_8_keep_gaps_up_to_whitespace -- they keep the token texts, the "
                   "trailing gap, and every gap that is not whitespace only (so every comment); "
                   "final_newline_phase_idem_partial (phase 9 idempotent, all texts), final_newline_noop_partial; "
                   "phase8_orig_not_idempotent -- the code before fix-5 is NOT idempotent (witness found on the model, "
                   "confirmed on the binary, fixed). Earlier partial lemmas: apply_edits_nil, "
                   "gap_normal_fixed_point_partial, gap_edit_result_is_fixed_partial, "
                   "gap_edits_keep_tokens_for_next_run_partial. SEARCH ONLY (not proved): phases 0-5 (signature "
                   "wrapping, AST-driven indentation and span edits, comment indentation); the composition of phases 6 "
                   "and 9 with 7/8 as text functions; that the per-line facts phase 6 uses stay attached to the same "
                   "lines in the second run (same tree: C17); sources with an unclosed string literal for the text-level "
                   "7/8 theorems; hence idempotence of the whole pipeline, `format(format x) = format x`, and `--check` "
                   "acceptance are established by search (every generated input, parseable or not)."),
    "level_note": ("Trusted: Coq kernel; coq/Lex.v as the meaning of lex.rs (C01/C23); coq/FormatPhases.v as the meaning of "
                   "phases 6-9 (Rust str::lines/trim/char::is_whitespace modelled, not verified) -- tied per run: the "
                   "extracted phases reproduce the real phase outputs on every formatted input of the run; extraction + "
                   "ocaml/ops_editalgebra.ml; the cfg-gated hook op `format` (calls the same `format::format` as the CLI, "
                   "cross-checked on a sample through the CLI, which additionally strips a `// args: ` reftest footer and "
                   "re-terminates lines with LF) and its phase trace; Python generator. Phase runs on texts containing "
                   "CR are not compared (crlf-input known finding)."),
    "design_ref": "DESIGN.md §5 C18",
}

JUNK = ["{", "}", "(", ")", "\"", ",", "=>", "=", "let", "fun", "match", "//", "é", "\t", "@", "::", "1.", "else", ":", "\n"]


def mutate(r, src, lx):
    """An (often unparsable) variant of src."""
    toks = lx.get("tokens") or []
    b = src.encode("utf-8")
    k = r.randrange(7)
    if toks and k <= 3:
        t = r.choice(toks)
        s, e = t["pos"][0], t["pos"][1]
        if k == 0:                                   # delete a token
            return (b[:s] + b[e:]).decode("utf-8", "replace")
        if k == 1:                                   # duplicate a token
            return (b[:e] + b" " + b[s:e] + b[e:]).decode("utf-8", "replace")
        if k == 2:                                   # replace by junk
            return (b[:s] + r.choice(JUNK).encode() + b[e:]).decode("utf-8", "replace")
        u = r.choice(toks)                            # swap two tokens
        if u["pos"][0] > e:
            s2, e2 = u["pos"][0], u["pos"][1]
            return (b[:s] + b[s2:e2] + b[e:s2] + b[s:e] + b[e2:]).decode("utf-8", "replace")
        return (b[:s] + b[e:]).decode("utf-8", "replace")
    if k == 4:                                       # insert junk at a char position
        i = r.randrange(len(src) + 1)
        return src[:i] + r.choice(JUNK) + src[i:]
    if k == 5:                                       # truncate
        return src[:r.randrange(len(src) + 1)]
    lines = src.split("\n")                          # drop a line
    del lines[r.randrange(len(lines))]
    return "\n".join(lines)


def gen_all(ctx, exe, n_mut):
    inputs = F.gen_inputs(ctx, exe, **F.budgets(ctx))
    rng = ctx.rng
    pool = [s for (_, s) in inputs]
    picks = [rng.choice(pool) for _ in range(n_mut)]
    lexed = oracle.batch(exe, [{"op": "lex", "src": s} for s in picks])
    seen = set(pool)
    for s, lx in zip(picks, lexed):
        m = mutate(rng, s, lx)
        if rng.random() < 0.3:
            m = mutate(rng, m, {})
        if m not in seen and "\n// args: " not in "\n" + m:
            seen.add(m)
            inputs.append(("mutated", m))
    return inputs


def robust_format(exe, srcs, timeout=40):
    """hook op `format` on every source, in chunks; a request that kills or stalls the process is reported as
    {"crashed": ...} and the rest of its chunk is retried."""
    res = [None] * len(srcs)

    def work(ids):
        todo = list(ids)
        while todo:
            r = oracle.batch(exe, [{"op": "format", "src": srcs[i]} for i in todo], timeout=timeout, shards=1)
            k = 0
            while k < len(todo) and not r[k].get("missing") and not r[k].get("bad_response"):
                res[todo[k]] = r[k]
                k += 1
            if k < len(todo):
                res[todo[k]] = {"crashed": "no answer within %ds (hang) or the process died" % timeout}
                k += 1
            todo = todo[k:]
    ids = list(range(len(srcs)))
    chunks = [ids[i:i + 40] for i in range(0, len(ids), 40)]
    with concurrent.futures.ThreadPoolExecutor(common.NCPU) as ex:
        list(ex.map(work, chunks))
    return res


TRACES = {}       # source -> phases trace of its first formatting (filled by fmt2)


def fmt2(exe, srcs, keep_traces=False):
    """-> [(f1, f2, detail)] ; f1/f2 None when the formatter panicked, hung or died."""
    r1 = robust_format(exe, srcs)
    if keep_traces:
        for s, r in zip(srcs, r1):
            if r.get("phases"):
                TRACES[s] = r["phases"]
    f1 = [r.get("output") for r in r1]
    idx = [i for i, f in enumerate(f1) if f is not None]
    r2 = robust_format(exe, [f1[i] for i in idx])
    f2 = [None] * len(srcs)
    det = [None] * len(srcs)
    for i, r in zip(idx, r2):
        f2[i] = r.get("output")
        if f2[i] is None:
            det[i] = r.get("panic") or r.get("crashed") or json.dumps(r)[:200]
    for i, r in enumerate(r1):
        if f1[i] is None:
            det[i] = r.get("panic") or r.get("crashed") or json.dumps(r)[:200]
    return list(zip(f1, f2, det))


def detect_phase8_version(repo):
    """Which code does normalize_token_spacing of this tree have? -> "8" (gaps must be whitespace only),
    "8orig" (gaps without '/' and '\\n': before fix-5) or None (shape not recognised)."""
    import os
    import re
    try:
        src = open(os.path.join(repo, "src", "format.rs")).read()
    except OSError:
        return None
    m = re.search(r"fn normalize_token_spacing\b.*?\n}\n", src, re.S)
    if not m:
        return None
    body = m.group(0)
    if "gap.contains('\\n') || !gap.chars().all(char::is_whitespace)" in body:
        return "8"
    if "gap.contains('/') || gap.contains('\\n')" in body:
        return "8orig"
    return None


def phase_runs(trace):
    """[(model phase op, input text, real output text, toplevel lines)] for phases 6..9 of one formatter trace."""
    texts, tops = {}, []
    for p in trace:
        n = p["phase"]
        if n.endswith(":out"):
            texts[n[:-4]] = p["text"]
        elif n in ("5-line-edits", "6-blank-lines", "9-final-newline"):
            texts[n] = p["text"]
            if n == "6-blank-lines":
                tops = p["edits"] or []
    order = [("5-line-edits", None), ("6-blank-lines", "6"), ("7-type-annotations", "7"), ("8-token-spacing", "8"),
             ("9-final-newline", "9")]
    runs = []
    for (prev, _), (cur, op) in zip(order, order[1:]):
        if prev in texts and cur in texts:
            runs.append((op, texts[prev], texts[cur], tops if op == "6" else []))
    return runs


def phase_correspondence(ctx, mdl, traces, p8):
    """Run the extracted models of phases 6-9 on the real phase inputs; a different output is a broken tie."""
    reqs, meta, seen = [], [], set()
    for src, tr in traces:
        for (op, a, b, tops) in phase_runs(tr):
            if "\r" in a:
                ctx.stat("phase runs on CR input (not compared: see crlf-input finding)")
                continue
            key = (op, a, tuple(tops))
            if key in seen:
                continue
            seen.add(key)
            mop = p8 if op == "8" else op
            reqs.append("phase\t%s\t%s\t%s" % (mop, common.hexs(a), ",".join(str(t) for t in tops) or "-"))
            meta.append((op, a, b, tops, src))
    ctx.log("model vs formatter on %d phase runs" % len(reqs))
    rc, res, err = common.run_lines(mdl, [], reqs, shards=16, timeout=900)
    if len(res) != len(reqs):
        ctx.broken("model-driver:phase", "asked %d, got %d answers: %s" % (len(reqs), len(res), err[-300:]))
        return
    for (op, a, b, tops, src), line in zip(meta, res):
        ctx.stat("phase %s: model output compared with the formatter's" % op)
        try:
            out = common.unhex(line.strip()).decode("utf-8", "replace")
        except ValueError:
            ctx.broken("model-driver:phase", "bad answer %r" % line[:200])
            return
        if out != b:
            ctx.broken("correspondence:phase-%s" % op,
                       "phase %s on %r (toplevel lines %s): model %r, formatter %r; input of the run: %r"
                       % (op, a[:300], tops, out[:300], b[:300], src[:200]))
            return
        if a != b:
            ctx.stat("phase %s: runs that changed the text" % op)
    # how many phase-7 inputs meet the hypothesis of the text-level theorems
    p7 = [a for (op, a, b, tops, src) in meta if op == "7"]
    rc, res, err = common.run_lines(mdl, [], ["nounclosed\t%s" % common.hexs(a) for a in p7], shards=16, timeout=900)
    for a, line in zip(p7, res):
        if line.strip() == "1":
            ctx.stat("phase 7/8 inputs without unclosed string (text-level idempotence theorems apply)")
        else:
            ctx.stat("phase 7/8 inputs with an unclosed string (idempotence by search only)")


def classify(src, f1, f2, det):
    if f1 is None:
        # no output at all: the front end crashed or hung (in the parser on every case seen so far). That is C01's
        # subject (the front end never crashes); C18 is about the outputs the formatter does produce.
        return None
    if f2 is None:
        return ("format-panics-on-own-output", "the formatter panicked on its own output: %s" % det)
    if f1 != f2:
        a, b = f1.split("\n"), f2.split("\n")
        if len(a) != len(b):
            kind = "line-count-changes"
        elif [x.strip() for x in a] == [x.strip() for x in b]:
            kind = "indentation-changes"
        else:
            kind = "spacing-changes"
        if "\r" in src:
            # line ends are re-terminated with LF one pass at a time (a bare CR at the end of the file survives the
            # first pass): same root cause as C17's crlf-input finding
            return ("crlf-input:not-idempotent", "formatting the output again changes it (input has CR line ends)")
        return ("not-idempotent:" + kind, "formatting the output again changes it")
    return None


def shrink(exe, src, key, budget=40):
    cur = src
    for _ in range(budget):
        lines = cur.split("\n")
        cands = []
        for n in (max(1, len(lines) // 2), max(1, len(lines) // 4), 1):
            for i in range(0, len(lines), n):
                c = "\n".join(lines[:i] + lines[i + n:])
                if c != cur and c not in cands:
                    cands.append(c)
        cands = cands[:80]
        if not cands:
            break
        res = fmt2(exe, cands)
        better = []
        for c, (f1, f2, det) in zip(cands, res):
            k = classify(c, f1, f2, det)
            if k is not None and k[0] == key:
                better.append(c)
        if not better:
            break
        cur = min(better, key=len)
    return cur


def run(ctx):
    ctx.trusted = ["Coq kernel 8.16.1", "coq/Lex.v, coq/FormatPhases.v as the meaning of lex.rs and of phases 6-9 of format.rs "
                   "(tied by differential runs)", "extraction + ocaml/ops_editalgebra.ml",
                   "cfg-gated hook op format = format::format, with its per-phase trace",
                   "tools/props/C17.py generator, tools/props/C18.py mutations"]
    ctx.coq("Properties/C18.v")
    exe = ctx.impl()
    if not exe:
        return
    inputs = gen_all(ctx, exe, 2500 if ctx.thorough else 500)
    ctx.log("%d inputs" % len(inputs))
    srcs = [s for (_, s) in inputs]
    res = fmt2(exe, srcs, keep_traces=True)
    reported = {}
    crashed = []
    for (kind, s), (f1, f2, det) in zip(inputs, res):
        ctx.case({"format2": s}, f1 is not None and f1 != s)
        ctx.stat("inputs:" + kind)
        if f1 is None:
            ctx.stat("no output: formatter/parser panicked or hung on the input (C01's subject)")
            if len(crashed) < 5:
                crashed.append((s, det))
        c = classify(s, f1, f2, det)
        if c is None:
            continue
        ctx.stat("failing inputs:" + c[0])
        cls = "%s:%s" % (c[0], "parseable" if kind != "mutated" else "any-input")
        if cls not in reported or len(reported[cls][0]) > len(s):
            reported[cls] = (s, c)
    for s, det in crashed:
        ctx.notes.append("front end crashed/hung on %r: %s" % (s[-80:], str(det)[:120]))
    for cls, (s, c) in sorted(reported.items()):
        small = shrink(exe, s, c[0], budget=12)
        f1, f2, det = fmt2(exe, [small])[0]
        ctx.violation("C18:" + cls, "%s (input %r)" % (c[1], small[:160]),
                      {"input": small, "observed": {"format_once": f1, "format_twice": f2, "detail": det},
                       "expected": "format(format(x)) == format(x)", "unshrunk_input": s,
                       "cli_command": "garden format f > g; garden format g  # differs; garden format --check g"})

    # ---- the modelled phases 6-9 against the real phases (per-phase trace of the hook) ----------------
    mdl = ctx.model("editalgebra")
    p8 = detect_phase8_version(common.REPO)
    if p8 is None:
        ctx.broken("translator:normalize_token_spacing", "the gap test of normalize_token_spacing has neither known shape")
    elif p8 == "8orig":
        ctx.broken("phase8-version", "this tree has normalize_token_spacing from before fix-5 (gaps with unrecognised "
                   "characters are rewritten): the idempotence theorems model the fixed code "
                   "(FormatPhasesProps.phase8_orig_not_idempotent is the witness against the old one)")
    if mdl and p8:
        phase_correspondence(ctx, mdl, [(s, TRACES[s]) for s in srcs if s in TRACES], p8)

    # ---- the CLI on the outputs: --check accepts, format reproduces --------------------------------
    outs = [(s, f1) for (_, s), (f1, f2, det) in zip(inputs, res) if f1 is not None and f1 == f2]
    if not ctx.thorough and len(outs) > 160:
        outs = ctx.rng.sample(outs, 160)

    def cli(pair):
        s, f1 = pair
        rc1, out1, err1 = F.cli_format(exe, f1, check=True)
        rc2, out2, err2 = F.cli_format(exe, f1)
        return rc1, err1, rc2, out2
    with concurrent.futures.ThreadPoolExecutor(common.NCPU) as ex:
        cl = list(ex.map(cli, outs))
    bad = {}
    for (s, f1), (rc1, err1, rc2, out2) in zip(outs, cl):
        ctx.stat("CLI --check on formatter output")
        if "\n// args: " in "\n" + f1:
            ctx.stat("outputs with a reftest footer line (skipped)")
            continue
        if rc1 != 0:
            k = "C18:check-rejects-formatter-output"
            if k not in bad or len(bad[k][0]) > len(s):
                bad[k] = (s, f1, "exit status %d: %s" % (rc1, err1.strip()[:200]))
        elif rc2 != 0 or out2 != f1:
            k = "C18:cli-format-changes-formatter-output"
            if k not in bad or len(bad[k][0]) > len(s):
                bad[k] = (s, f1, "rc %d, printed %r" % (rc2, out2[:200]))
    for k, (s, f1, what) in sorted(bad.items()):
        ctx.violation(k, "`garden format --check` / `garden format` on the formatter's own output: %s (input %r)" % (what, s[:160]),
                      {"input": s, "observed": {"format_once": f1, "cli": what},
                       "expected": "--check exits 0 and format prints the file unchanged",
                       "cli_command": "garden format f > g; garden format --check g"})
    ctx.notes.append("phases 6-9 are modelled, proved idempotent (see level_text for the exact statements) and tied per run; "
                     "phases 0-5 and the idempotence of the whole pipeline are established by search, not proved")


def replay(ctx, rp):
    exe = ctx.impl()
    s = rp["input"]
    f1, f2, det = fmt2(exe, [s])[0]
    c = classify(s, f1, f2, det)
    print("input:        %r" % s)
    print("format once:  %r" % f1)
    print("format twice: %r" % f2)
    print("now:", c, "| recorded:", json.dumps(rp.get("observed"))[:300])
    if c is not None:
        return 1
    if f1 is not None and rp.get("key", "").startswith("C18:c"):
        rc1, out1, err1 = F.cli_format(exe, f1, check=True)
        rc2, out2, err2 = F.cli_format(exe, f1)
        print("--check rc:", rc1, "| format reproduces:", out2 == f1)
        return 1 if (rc1 != 0 or out2 != f1) else 0
    return 0
