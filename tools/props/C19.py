"""C19 -- Rename changes exactly the occurrences of one variable.

This module also hosts the generator / printer / resolver of the refactoring sub-language that C20 and C21 reuse
(`from props import C19 as R`)."""
import concurrent.futures
import json
import re
import os
import shutil
import tempfile

from vplib import common, oracle

LEVEL = "proof"
CLAIMED = True
RULE = ("Coq: Properties/C19.v over Scope.v (lexical resolution with occurrence ids + big-step reference semantics) and "
        "Refactor.v (rename). Dynamic: (1) generated programs of the refactoring sub-language (lets that shadow in the "
        "same and in nested blocks, if/while/for/match blocks, closures that capture, parameters, top-level functions; a "
        "small pool of names so that same-named unrelated variables are everywhere) are printed as Garden source with an "
        "occurrence-id -> byte-offset map; `garden reftest-rename` is run at EVERY occurrence (binders and uses) with a "
        "fresh name; the output text must equal the text obtained by rewriting exactly the binder and the uses that an "
        "independent Python resolver (and, for programs inside the Coq model's fragment, the extracted Coq `rename`) "
        "attributes to that binder; it must parse and print the same stdout / end with the same result as the original "
        "(hook op `run`). (2) non-fresh new names are tried too and only counted (the property speaks about fresh names). "
        "A case is non-trivial when the renamed name has another binder of the same name in the program (shadowing or an "
        "unrelated same-named variable).")
META = {
    "technique": "Coq proof over a hand-written scope/semantics model + differential execution of the extracted rename "
                 "against `garden reftest-rename` + property-directed search on the binary at every occurrence",
    "level_text": ("Coq theorems rename_exact / rename_exact_sets (the occurrences rewritten by rename are exactly the binder "
                   "and the uses that resolve to it; every other name is untouched), rename_preserves_resolution (the "
                   "binding structure is unchanged) and rename_fresh_preserves (renaming to a name that does not occur in the program gives a "
                   "program with the same output and result for every fuel) over the model language: integers, booleans, "
                   "binary operators, variables, let, assignment, if/else blocks, while, closures with value capture, calls, "
                   "println/dbg, top-level functions with parameters. The model is tied to rename.rs / type_checker.rs by "
                   "running the extracted rename and `garden reftest-rename` on the same generated programs at every "
                   "occurrence and comparing the resulting text."),
    "level_note": ("Trusted: Coq kernel; the hand-written model Scope.v/Refactor.v (tied to the code by differential "
                   "execution, not by proof); the Python printer of model programs; extraction + OCaml glue; hook op `run`. "
                   "for-loop and match binders, strings, lists are covered by the search on the binary with the independent "
                   "Python resolver only, not by the Coq model. rename_preserves_resolution (the resolution table of the renamed "
                   "program equals the original one) is proved, also for top-level functions. rename_fresh_preserves is proved for local binders (let, closure "
                   "parameter, function parameter), not for renaming a top-level function. The LSP half of the property (same edits) is checked by C29's "
                   "end-to-end part."),
    "design_ref": "DESIGN.md section 5 C19",
}

FRESH = "zq_fresh"
GENERIC_HELPERS = ("fun gsplit<T>(xs: List<T>): (List<T>, List<T>) { (xs, xs) }\n"
                   "fun gfirst<T>(xs: List<T>): (Option<T>, Int) { (xs.first(), xs.len()) }\n"
                   "fun gid<T>(x: T): T { x }\n"
                   "fun gpairs<T>(x: T): List<(T, T)> { [(x, x)] }\n"
                   "fun gopt<T>(o: Option<T>): (Option<T>, Option<T>) { (o, o) }")
HINTS = {"Int": "Int", "Bool": "Bool", "Str": "String", "List": "List<Int>", "Opt": "Option<Int>", "Tup": "(Int, Int)"}
POOL = ["a", "b", "c", "x", "y"]
INT_OPS = ["+", "-", "*"]
CMP_OPS = ["<", ">", "<=", ">=", "==", "!="]
ALL_FEATURES = frozenset(["assign", "update", "while", "for", "match", "closure", "fundef", "str", "list", "dbg", "nonascii", "print",
                          "hint", "annot", "tuple", "shadowbias", "break", "closure2", "generic"])
MODEL_FEATURES = frozenset(["assign", "while", "closure", "fundef", "print", "dbg"])


# ---------------------------------------------------------------------------------------------------------------
# Generator (type-directed, terminating, every random choice from the rng passed in)

class Gen:
    def __init__(self, rng, size=8, features=ALL_FEATURES, pool=POOL):
        self.r = rng
        self.size = size
        self.f = set(features)
        self.pool = list(pool)
        self.uid = 0
        self.scopes = [dict()]          # name -> (type, binder uid)
        self.funs = []                  # (name, [ptys], ret, uid, pure)
        self.nloop = 0
        self.pure_ctx = []
        self.loop_depth = 0
        self.prefer = None              # a variable name that uses are biased towards (shadowing scenarios)

    def nid(self):
        self.uid += 1
        return self.uid

    def pick(self, l):
        return l[self.r.randrange(len(l))]

    def lookup(self, name):
        for sc in reversed(self.scopes):
            if name in sc:
                return sc[name]
        return None

    def visible(self, ty):
        out = []
        seen = set()
        for sc in reversed(self.scopes):
            for n, (t, u) in sc.items():
                if n in seen:
                    continue
                seen.add(n)
                if t == ty:
                    out.append((n, u))
        return sorted(out)

    def types(self):
        ts = ["Int", "Int", "Bool"]
        if "str" in self.f:
            ts.append("Str")
        if "list" in self.f:
            ts.append("List")
        if "match" in self.f:
            ts.append("Opt")
        if "closure" in self.f:
            ts.append("Fn")
        if "tuple" in self.f:
            ts.append("Tup")
        return ts

    def shadow_name(self, ty):
        """With feature shadowbias: the name of a visible variable of type ty (the new binder will shadow it), else None."""
        if "shadowbias" in self.f and self.r.random() < 0.4:
            vs = [n for n, u in self.visible(ty) if not n.startswith("i_")]
            if vs:
                return self.pick(vs)
        return None

    def bname(self):
        """Name for a new binder: mostly from the small pool (so shadowing and unrelated namesakes are common)."""
        if self.r.random() < 0.85:
            return self.pick(self.pool)
        return "v%d" % self.nid()

    def var(self, n, u):
        return {"k": "var", "n": n, "id": self.nid(), "b": u}

    # ---- expressions
    def expr(self, ty, d=0):
        r = self.r
        vs = self.visible(ty)
        leaf = d >= 3 or r.random() < 0.3
        if self.prefer is not None:
            pv = [(n, u) for n, u in vs if n == self.prefer]
            if pv and r.random() < 0.6:
                return self.var(*pv[0])
        if vs and r.random() < (0.7 if leaf else 0.25):
            return self.var(*self.pick(vs))
        if ty == "Int":
            if leaf:
                return {"k": "int", "v": self.pick([0, 1, 2, 3, 5, 7, 10])}
            k = r.randrange(7)
            if k <= 2:
                lhs = self.expr("Int", 3) if r.random() < 0.7 else self.call_or_atom("Int", d)
                rhs = self.expr("Int", d + 1)
                if rhs["k"] in ("bin", "if"):
                    rhs = {"k": "paren", "e": rhs}
                return {"k": "bin", "op": self.pick(INT_OPS), "l": lhs, "r": rhs}
            if k == 3:
                return self.call_or_atom("Int", d)
            if k == 4 and "match" in self.f:
                return self.match_expr(d)
            if k == 5:
                return {"k": "paren", "e": self.if_expr("Int", d)}
            if k == 6 and "dbg" in self.f and not self.pure_ctx:
                return {"k": "dbg", "e": self.expr("Int", d + 1)}
            return {"k": "int", "v": self.pick([0, 1, 2, 4, 9])}
        if ty == "Bool":
            if leaf:
                return {"k": "bool", "v": r.random() < 0.5}
            k = r.randrange(3)
            if k == 0:
                return {"k": "bin", "op": self.pick(CMP_OPS), "l": self.expr("Int", 3), "r": self.paren_if_bin(self.expr("Int", d + 1))}
            if k == 1:
                return {"k": "bin", "op": self.pick(["&&", "||"]), "l": self.expr("Bool", 3),
                        "r": self.paren_if_bin(self.expr("Bool", d + 1))}
            return {"k": "bin", "op": "==", "l": self.expr("Int", 3), "r": self.paren_if_bin(self.expr("Int", d + 1))}
        if ty == "Str":
            if leaf or r.random() < 0.5:
                lits = ["a", "", "b c", "q"]
                if "nonascii" in self.f:
                    lits += ["é", "€é", "\U0001F600"]
                return {"k": "str", "v": self.pick(lits)}
            return {"k": "bin", "op": "^", "l": self.expr("Str", 3), "r": self.paren_if_bin(self.expr("Str", d + 1))}
        if ty == "List":
            n = r.randrange(0, 4)
            return {"k": "list", "es": [self.expr("Int", d + 2) for _ in range(n)]}
        if ty == "Opt":
            if r.random() < 0.35:
                return {"k": "none"}
            return {"k": "some", "e": self.expr("Int", d + 1)}
        if ty == "Fn":
            return self.closure(d)
        if ty == "Tup":
            return {"k": "tuple", "es": [self.call_or_atom("Int", d + 1) if r.random() < 0.5 else self.expr("Int", d + 2),
                                         self.call_or_atom("Int", d + 1) if r.random() < 0.5 else self.expr("Int", d + 2)]}
        raise ValueError(ty)

    def paren_if_bin(self, e):
        if e["k"] in ("bin", "if"):
            return {"k": "paren", "e": e}
        return e

    def call_or_atom(self, ty, d):
        r = self.r
        cands = []
        if "fundef" in self.f:
            cands += [("fun", f) for f in self.funs if f[2] == ty and (f[4] or not self.pure_ctx)]
        if ty == "Int" and "closure" in self.f:
            cands += [("clo", v) for v in self.visible("Fn")]
        if cands and d < 3:
            kind, c = self.pick(cands)
            if kind == "fun":
                name, ptys, ret, u, pure = c
                # the function name is a use that resolves to the toplevel definition unless a local shadows it
                if self.lookup(name) is None:
                    return {"k": "call", "f": {"k": "var", "n": name, "id": self.nid(), "b": u},
                            "args": [self.expr(p, d + 1) for p in ptys]}
            else:
                n, u = c
                if self.clo_pure.get(u, False) or not self.pure_ctx:
                    return {"k": "call", "f": self.var(n, u), "args": [self.expr("Int", d + 1) for _ in range(self.clo_arity.get(u, 1))]}
        vs = self.visible(ty)
        if vs:
            return self.var(*self.pick(vs))
        return {"k": "int", "v": self.pick([1, 2, 6])} if ty == "Int" else self.expr(ty, 3)

    clo_pure = {}
    clo_arity = {}

    def if_expr(self, ty, d):
        c = self.expr("Bool", d + 1)
        t = self.block_value(ty, d + 1)
        e = self.block_value(ty, d + 1)
        return {"k": "if", "c": c, "t": t, "e": e}

    def block_value(self, ty, d, extra=None):
        """A block (list of statements) whose last statement is an expression of type ty."""
        self.scopes.append(dict(extra or {}))
        out = []
        saved = self.prefer
        if self.r.random() < 0.4 and d < 3:
            if "shadowbias" in self.f and self.r.random() < 0.6:
                # a block-local binding that the block's value uses: `{ let m = ..  m * 2 }`
                st = self.let_stmt(d + 1, ty if ty in ("Int", "Bool", "Str") else None)
                self.prefer = st["n"]
            else:
                st = self.let_stmt(d + 1)
            out.append(st)
        out.append(self.expr(ty, d + 1))
        self.prefer = saved
        self.scopes.pop()
        return out

    def match_expr(self, d):
        sh = self.shadow_name("Int")
        # when the pattern shadows an outer variable, often take the None arm (which sees the OUTER variable) and
        # keep that variable out of the scrutinee
        s = {"k": "none"} if (sh and self.r.random() < 0.5) else self.expr("Opt", d + 1)
        n = sh or self.bname()
        u = self.nid()
        some = self.block_value("Int", d + 1, {n: ("Int", u)})
        saved, self.prefer = self.prefer, (sh or self.prefer)
        none = self.block_value("Int", d + 1)       # may use the OUTER variable that the Some pattern shadows
        self.prefer = saved
        braces = self.r.random() < 0.7 or len(some) > 1 or len(none) > 1
        return {"k": "match", "s": s, "n": n, "id": u, "some": some, "none": none, "braces": braces}

    def closure(self, d):
        n = self.bname()
        u = self.nid()
        pure = self.r.random() < 0.7 or bool(self.pure_ctx)
        if pure:
            self.pure_ctx.append(1)
        ps = [(n, u)]
        sc = {n: ("Int", u)}
        if "closure2" in self.f and self.r.random() < 0.4:
            n2 = self.bname()
            while n2 == n:
                n2 = "q%d" % self.nid()
            u2 = self.nid()
            ps.append((n2, u2))
            sc[n2] = ("Int", u2)
        phints = [("hint" in self.f and self.r.random() < 0.4) for _ in ps]
        self.scopes.append(sc)
        saved_ld, self.loop_depth = self.loop_depth, 0      # a closure body is not inside the enclosing loop
        body = []
        if self.r.random() < 0.4 and d < 2:
            body.append(self.let_stmt(d + 1))
        if not pure and "print" in self.f:
            body.append({"k": "println", "e": self.expr("Int", 2)})
        body.append(self.expr("Int", d + 1))
        self.loop_depth = saved_ld
        self.scopes.pop()
        if pure:
            self.pure_ctx.pop()
        return {"k": "fun", "ps": ps, "phints": phints, "body": body, "pure": pure}

    # ---- statements
    def let_stmt(self, d, ty=None):
        ty = ty or self.pick(self.types())
        sh = self.shadow_name(ty) if ty in ("Int", "Bool", "Str") else None
        saved, self.prefer = self.prefer, (sh or self.prefer)
        e = self.expr(ty, d)                         # `let a = a + 1`: the right-hand side sees the OUTER a
        self.prefer = saved
        n = sh or self.bname()
        u = self.nid()
        if ty == "Fn":
            self.clo_pure[u] = e.get("pure", False) if e["k"] == "fun" else self.clo_pure.get(e.get("b"), False)
            self.clo_arity[u] = len(e["ps"]) if e["k"] == "fun" else self.clo_arity.get(e.get("b"), 1)
        self.scopes[-1][n] = (ty, u)
        hint = None
        if "hint" in self.f and ty in HINTS and self.r.random() < 0.35:
            hint = HINTS[ty]
        return {"k": "let", "n": n, "id": u, "e": e, "hint": hint}

    def block(self, n, d):
        self.scopes.append({})
        out = [self.stmt(d) for _ in range(n)]
        self.scopes.pop()
        return out

    def stmt(self, d):
        r = self.r
        nested = d < 3
        if self.loop_depth > 0 and "break" in self.f and r.random() < 0.12:
            # leave / restart the innermost loop (while bodies increment their counter first)
            return {"k": "if", "c": self.expr("Bool", 2), "t": [{"k": r.choice(["break", "break", "continue"])}], "e": None, "stmt": True}
        k = r.randrange(12)
        if k <= 3:
            return self.let_stmt(1)
        if k == 4 and "assign" in self.f:
            cands = [(n, u, t) for t in ("Int", "Bool") for (n, u) in self.visible(t) if not n.startswith("i_")]
            if cands:
                n, u, t = self.pick(cands)
                op = "="
                if t == "Int" and r.random() < 0.4 and "update" in self.f:
                    op = self.pick(["+=", "-="])
                return {"k": "assign", "n": n, "id": self.nid(), "b": u, "op": op, "e": self.expr(t, 2)}
        if k == 5 and "print" in self.f:
            return {"k": "println", "e": self.expr(self.pick([t for t in self.types() if t != "Fn"]), 1)}
        if k == 6 and nested:
            c = self.expr("Bool", 1)
            t = self.block(r.randrange(1, 4), d + 1)
            e = self.block(r.randrange(1, 3), d + 1) if r.random() < 0.5 else None
            return {"k": "if", "c": c, "t": t, "e": e, "stmt": True}
        if k == 7 and nested and "while" in self.f and "assign" in self.f:
            self.nloop += 1
            i = "i_%d" % self.nloop
            u = self.nid()
            self.scopes[-1][i] = ("Int", u)
            bound = r.randrange(1, 4)
            cond = {"k": "bin", "op": "<", "l": self.var(i, u), "r": {"k": "int", "v": bound}}
            if "update" in self.f:
                inc = {"k": "assign", "n": i, "id": self.nid(), "b": u, "op": "+=", "e": {"k": "int", "v": 1}}
            else:
                inc = {"k": "assign", "n": i, "id": self.nid(), "b": u, "op": "=",
                       "e": {"k": "bin", "op": "+", "l": self.var(i, u), "r": {"k": "int", "v": 1}}}
            self.loop_depth += 1
            body = self.block(r.randrange(1, 3), d + 1)
            self.loop_depth -= 1
            return {"k": "seq", "ss": [{"k": "let", "n": i, "id": u, "e": {"k": "int", "v": 0}},
                                       {"k": "while", "c": cond, "b": [inc] + body}]}
        if k == 8 and nested and "for" in self.f and "list" in self.f:
            n = self.bname()
            u = self.nid()
            it = self.expr("List", 1)
            self.scopes.append({n: ("Int", u)})
            self.loop_depth += 1
            body = self.block(r.randrange(1, 3), d + 1)
            self.loop_depth -= 1
            self.scopes.pop()
            return {"k": "for", "n": n, "id": u, "it": it, "b": body}
        if k == 9 and nested and "match" in self.f:
            s = self.expr("Opt", 1)
            sh = self.shadow_name("Int")
            n = sh or self.bname()
            u = self.nid()
            self.scopes.append({n: ("Int", u)})
            some = self.block(r.randrange(1, 3), d + 1)
            self.scopes.pop()
            saved, self.prefer = self.prefer, (sh or self.prefer)
            none = self.block(1, d + 1)
            self.prefer = saved
            return {"k": "match", "s": s, "n": n, "id": u, "some": some, "none": none, "braces": True, "stmt": True}
        if k == 10 and "closure" in self.f and nested:
            return self.let_stmt(1, "Fn")
        if "print" in self.f:
            return {"k": "println", "e": self.expr("Int", 1)}
        return self.let_stmt(1)

    def fundef(self):
        name = "fn%d" % (len(self.funs) + 1) if self.r.random() < 0.8 else self.pick(self.pool)
        if any(f[0] == name for f in self.funs):
            name = "fn%d" % (len(self.funs) + 1)
        u = self.nid()
        nps = self.r.randrange(0, 3)
        ptys = [self.pick(["Int", "Int", "Bool"]) for _ in range(nps)]
        ret = self.pick(["Int", "Int", "Bool"])
        ps = []
        sc = {}
        for t in ptys:
            n = self.bname()
            while n in sc:
                n = "p%d" % self.nid()
            pu = self.nid()
            sc[n] = (t, pu)
            ps.append((n, pu))
        saved = self.scopes
        self.scopes = [sc]
        pure = self.r.random() < 0.5
        saved_f = self.f
        if pure:
            self.pure_ctx.append(1)
            self.f = self.f - {"print", "dbg"}
        body = [self.stmt(1) for _ in range(self.r.randrange(0, 4))]
        body.append(self.expr(ret, 1))
        if pure:
            self.pure_ctx.pop()
            self.f = saved_f
        self.scopes = saved
        self.funs.append((name, ptys, ret, u, pure))
        ann = None
        if "annot" in self.f and self.r.random() < 0.5:
            ann = ([HINTS[t] for t in ptys], HINTS[ret])
        return {"k": "fundef", "n": name, "id": u, "ps": ps, "body": body, "pure": pure, "ann": ann}

    def program(self):
        items = []
        if "fundef" in self.f:
            for _ in range(self.r.randrange(0, 3)):
                items.append(self.fundef())
        n = max(1, self.size + self.r.randrange(-2, 3))
        for _ in range(n):
            items.append(self.stmt(0))
        if "generic" in self.f and self.r.random() < 0.4:
            # generic helper functions whose results (types that mention the instantiated parameter in nested
            # positions) are bound by un-annotated lets
            items.insert(0, {"k": "raw", "src": GENERIC_HELPERS})
            for _ in range(self.r.randrange(1, 4)):
                v = "g%d" % self.nid()
                u = self.nid()
                call = self.pick(["gsplit([1, 2, 3])", "gsplit([\"a\"])", "gfirst([4, 5])", "gid((1, [2]))", "gpairs(7)", "gopt(Some(3))",
                                  "gsplit([[1], [2]])"])
                items.insert(self.r.randrange(1, len(items) + 1), {"k": "let", "n": v, "id": u, "e": {"k": "rawexpr", "src": call}, "hint": None})
        items.append(self.expr(self.pick([t for t in self.types() if t != "Fn"]), 1))
        return flatten(items)


def flatten(ss):
    out = []
    for s in ss:
        if s["k"] == "seq":
            out += flatten(s["ss"])
        else:
            out.append(s)
    for s in out:
        for key in ("t", "e", "b", "some", "none", "body"):
            if isinstance(s.get(key), list):
                s[key] = flatten(s[key])
        for key in ("e", "c", "l", "r", "s", "f", "it"):
            if isinstance(s.get(key), dict):
                flatten_expr(s[key])
        for a in s.get("args", []) + s.get("es", []):
            flatten_expr(a)
    return out


def flatten_expr(e):
    flatten([e])


# ---------------------------------------------------------------------------------------------------------------
# Printer: source text + byte offsets of every occurrence and of every expression node

class Printer:
    def __init__(self, rng=None):
        self.parts = []
        self.n = 0
        self.occ = {}       # occurrence id -> (start, end, name)
        self.exprs = []     # (start, end, node) for expression nodes (incl. statement-like ones)
        self.r = rng

    def w(self, s):
        self.parts.append(s)
        self.n += len(s.encode("utf-8"))

    def name(self, n, uid):
        st = self.n
        self.w(n)
        self.occ[uid] = (st, self.n, n)

    def block(self, ss, ind):
        one_line = self.r is not None and len(ss) <= 2 and self.r.random() < 0.25 and all(
            s["k"] in ("var", "int", "bool", "let", "println", "bin", "call") for s in ss)
        blk = {"open": self.n}
        self.w("{")
        if one_line:
            for s in ss:
                self.w(" ")
                self.stmt(s, ind + 1)
            self.w(" ")
        else:
            self.w("\n")
            for s in ss:
                self.w("  " * (ind + 1))
                self.stmt(s, ind + 1)
                self.w("\n")
            self.w("  " * ind)
        self.w("}")
        blk["close"] = self.n
        return blk

    def stmt(self, s, ind):
        self.expr(s, ind)

    def expr(self, e, ind):
        st = self.n
        k = e["k"]
        if k == "int":
            self.w(str(e["v"]))
        elif k == "bool":
            self.w("True" if e["v"] else "False")
        elif k == "str":
            self.w(json.dumps(e["v"], ensure_ascii=False))
        elif k == "var":
            self.name(e["n"], e["id"])
        elif k == "paren":
            self.w("(")
            self.expr(e["e"], ind)
            self.w(")")
        elif k == "bin":
            self.expr(e["l"], ind)
            self.w(" %s " % e["op"])
            self.expr(e["r"], ind)
        elif k == "call":
            self.expr(e["f"], ind)
            self.w("(")
            for i, a in enumerate(e["args"]):
                if i:
                    self.w(", ")
                self.expr(a, ind)
            self.w(")")
        elif k == "fun":
            self.w("fun(")
            for i, (n, u) in enumerate(e["ps"]):
                if i:
                    self.w(", ")
                self.name(n, u)
                if (e.get("phints") or [False] * (i + 1))[i]:
                    self.w(": Int")
            self.w(") ")
            e["blk"] = self.block(e["body"], ind)
        elif k == "if":
            self.w("if ")
            self.expr(e["c"], ind)
            self.w(" ")
            self.block(e["t"], ind)
            if e["e"] is not None:
                self.w(" else ")
                self.block(e["e"], ind)
        elif k == "while":
            self.w("while ")
            self.expr(e["c"], ind)
            self.w(" ")
            self.block(e["b"], ind)
        elif k == "for":
            self.w("for ")
            self.name(e["n"], e["id"])
            self.w(" in ")
            self.expr(e["it"], ind)
            self.w(" ")
            self.block(e["b"], ind)
        elif k == "match":
            self.w("match ")
            self.expr(e["s"], ind)
            self.w(" {\n" + "  " * (ind + 1) + "Some(")
            self.name(e["n"], e["id"])
            self.w(") => ")
            if e["braces"]:
                self.block(e["some"], ind + 1)
            else:
                self.expr(e["some"][0], ind + 1)
                self.w(",")
            self.w("\n" + "  " * (ind + 1) + "None => ")
            if e["braces"]:
                self.block(e["none"], ind + 1)
            else:
                self.expr(e["none"][0], ind + 1)
                self.w(",")
            self.w("\n" + "  " * ind + "}")
        elif k == "let":
            self.w("let ")
            self.name(e["n"], e["id"])
            if e.get("hint"):
                self.w(": " + e["hint"])
            self.w(" = ")
            self.expr(e["e"], ind)
        elif k == "assign":
            self.name(e["n"], e["id"])
            self.w(" %s " % e["op"])
            self.expr(e["e"], ind)
        elif k == "println":
            self.w("println(string_repr(")
            self.expr(e["e"], ind)
            self.w("))")
            e["inner"] = (st + 8, self.n - 1)
        elif k == "dbg":
            self.w("dbg(")
            self.expr(e["e"], ind)
            self.w(")")
        elif k == "list":
            self.w("[")
            for i, a in enumerate(e["es"]):
                if i:
                    self.w(", ")
                self.expr(a, ind)
            self.w("]")
        elif k == "tuple":
            self.w("(")
            for i, a in enumerate(e["es"]):
                if i:
                    self.w(", ")
                self.expr(a, ind)
            self.w(")")
        elif k == "some":
            self.w("Some(")
            self.expr(e["e"], ind)
            self.w(")")
        elif k == "none":
            self.w("None")
        elif k in ("break", "continue"):
            self.w(k)
        elif k in ("raw", "rawexpr"):
            self.w(e["src"])
            if k == "raw":              # definitions, not an expression position
                e["sp"] = (st, self.n)
                return
        elif k == "fundef":
            self.w("fun ")
            self.name(e["n"], e["id"])
            self.w("(")
            ann = e.get("ann")
            for i, (n, u) in enumerate(e["ps"]):
                if i:
                    self.w(", ")
                self.name(n, u)
                if ann:
                    self.w(": " + ann[0][i])
            self.w("): %s " % ann[1] if ann else ") ")
            e["blk"] = self.block(e["body"], ind)
            e["sp"] = (st, self.n)
            return
        else:
            raise ValueError(k)
        e["sp"] = (st, self.n)
        self.exprs.append((st, self.n, e))


def render(prog, rng=None):
    p = Printer(rng)
    for it in prog:
        it["top"] = True
        p.expr(it, 0)
        p.w("\n")
    return "".join(p.parts), p


# ---------------------------------------------------------------------------------------------------------------
# Independent resolver: lexical scoping as Garden does it (use -> binder occurrence id)

def children_blocks(e):
    return []


class Resolver:
    """Walks the tree with a stack of scopes. A `let` is visible after its statement, in its own block only;
    blocks of if/while/for/match and closure bodies open a scope; closure parameters, for and match binders are
    visible in their body; top-level function names are visible everywhere unless a local shadows them; top-level
    function bodies do not see top-level lets at run time (the generator never relies on it)."""

    def __init__(self, prog):
        self.res = {}       # use id -> binder id or None
        self.binders = {}   # binder id -> name
        self.uses = {}      # use id -> name
        self.globals = {}
        for it in prog:
            if it["k"] == "fundef":
                self.globals[it["n"]] = it["id"]
                self.binders[it["id"]] = it["n"]
        self.scopes = [{}]
        for it in prog:
            if it["k"] == "fundef":
                saved = self.scopes
                self.scopes = [{}]
                sc = {}
                for n, u in it["ps"]:
                    sc[n] = u
                    self.binders[u] = n
                self.scopes.append(sc)
                self.stmts(it["body"], push=False)
                self.scopes = saved
            else:
                self.expr(it)

    def use(self, n, uid):
        self.uses[uid] = n
        for sc in reversed(self.scopes):
            if n in sc:
                self.res[uid] = sc[n]
                return
        self.res[uid] = self.globals.get(n)

    def stmts(self, ss, push=True, extra=None):
        if push:
            self.scopes.append(dict(extra or {}))
        for s in ss:
            self.expr(s)
        if push:
            self.scopes.pop()

    def expr(self, e):
        k = e["k"]
        if k == "var":
            self.use(e["n"], e["id"])
        elif k in ("paren", "println", "dbg", "some"):
            self.expr(e["e"])
        elif k == "bin":
            self.expr(e["l"])
            self.expr(e["r"])
        elif k == "call":
            self.expr(e["f"])
            for a in e["args"]:
                self.expr(a)
        elif k in ("list", "tuple"):
            for a in e["es"]:
                self.expr(a)
        elif k == "fun":
            sc = {}
            for n, u in e["ps"]:
                sc[n] = u
                self.binders[u] = n
            self.stmts(e["body"], extra=sc)
        elif k == "if":
            self.expr(e["c"])
            self.stmts(e["t"])
            if e["e"] is not None:
                self.stmts(e["e"])
        elif k == "while":
            self.expr(e["c"])
            self.stmts(e["b"])
        elif k == "for":
            self.expr(e["it"])
            self.binders[e["id"]] = e["n"]
            self.stmts(e["b"], extra={e["n"]: e["id"]})
        elif k == "match":
            self.expr(e["s"])
            self.binders[e["id"]] = e["n"]
            self.stmts(e["some"], extra={e["n"]: e["id"]})
            self.stmts(e["none"])
        elif k == "let":
            self.expr(e["e"])
            self.binders[e["id"]] = e["n"]
            self.scopes[-1][e["n"]] = e["id"]
        elif k == "assign":
            self.use(e["n"], e["id"])
            self.expr(e["e"])
        elif k in ("int", "bool", "str", "none", "break", "continue", "raw", "rawexpr"):
            pass
        else:
            raise ValueError(k)


def walk(e, f):
    """Pre-order walk over every node (statements and expressions)."""
    if isinstance(e, list):
        for x in e:
            walk(x, f)
        return
    f(e)
    for key in ("e", "c", "l", "r", "s", "f", "it"):
        v = e.get(key)
        if isinstance(v, dict):
            walk(v, f)
    for key in ("args", "es", "t", "b", "some", "none", "body"):
        v = e.get(key)
        if isinstance(v, list):
            walk(v, f)
    if e["k"] == "if" and isinstance(e.get("e"), list):
        walk(e["e"], f)


def gen_program(rng, size=8, features=ALL_FEATURES, pool=POOL):
    g = Gen(rng, size=size, features=features, pool=pool)
    g.clo_pure = {}
    g.clo_arity = {}
    prog = g.program()
    return prog


# ---------------------------------------------------------------------------------------------------------------
# Running the refactoring commands of the real CLI

def cli_args(cmd, off, end, name):
    if cmd == "rename":
        return [str(off), "--new-name", name]
    if cmd in ("extract-variable", "extract-function"):
        return [str(off), str(end), "--name", name]
    return [str(off), str(end)]


def refactor_cli(exe, cmd, src, off, end=None, name=None, timeout=60):
    """One `garden reftest-<cmd> file args...` process. Returns (rc, stdout, stderr)."""
    d = tempfile.mkdtemp(dir=oracle.scratch_dir())
    try:
        p = os.path.join(d, "prog.gdn")
        with open(p, "wb") as f:
            f.write(src.encode("utf-8"))
        rc, out, err = oracle.garden_cli(exe, ["reftest-" + cmd, p] + cli_args(cmd, off, end, name), timeout=timeout, cwd=d)
    finally:
        shutil.rmtree(d, ignore_errors=True)
    return rc, out, err


_HOOK = {}


def hook_supported(exe):
    if exe not in _HOOK:
        r = oracle.batch(exe, [{"op": "refactor", "kind": "rename", "src": "let a = 1\n", "offset": 4, "name": "b"}])[0]
        _HOOK[exe] = r.get("ok") == "let b = 1\n"
    return _HOOK[exe]


def refactor_many(exe, jobs, ctx=None, cli_sample=12):
    """jobs: list of (cmd, src, offset, end_offset, name). Returns list of (rc, out, err).
    Uses the in-process hook op `refactor` (the same Rust functions the reftest-* subcommands call) when the binary has
    it, and the plain CLI otherwise; with the hook, every cli_sample-th job is also run through the CLI and compared."""
    def cli(j):
        return refactor_cli(exe, j[0], j[1], j[2], j[3], j[4])
    if not hook_supported(exe):
        if ctx:
            ctx.stat("refactoring requests through the CLI", len(jobs))
        with concurrent.futures.ThreadPoolExecutor(common.NCPU) as ex:
            return list(ex.map(cli, jobs))
    reqs = [{"op": "refactor", "kind": j[0], "src": j[1], "offset": j[2], "end_offset": j[3] if j[3] is not None else j[2],
             "name": j[4] or ""} for j in jobs]
    res = oracle.batch(exe, reqs, timeout=1800)
    out = []
    for r in res:
        if "ok" in r:
            out.append((0, r["ok"], ""))
        elif "err" in r:
            out.append((10, "", r["err"] + "\n"))
        else:
            out.append((101, "", json.dumps(r)[:300]))
    idx = list(range(0, len(jobs), cli_sample))
    with concurrent.futures.ThreadPoolExecutor(common.NCPU) as ex:
        cl = list(ex.map(lambda i: cli(jobs[i]), idx))
    for i, c in zip(idx, cl):
        if ctx:
            ctx.stat("refactoring requests cross-checked through the CLI")
        if (c[0], c[1]) != (out[i][0], out[i][1]) and not (c[0] == 101 and out[i][0] == 101):
            if ctx:
                ctx.broken("hook-vs-cli:" + jobs[i][0], "hook and CLI disagree on %s: %s vs %s" % (jobs[i][2:], out[i], c))
            out[i] = c
    if ctx:
        ctx.stat("refactoring requests through the hook", len(jobs))
    return out


def confirm_cli(exe, job):
    """Re-run one job through the plain CLI (the oracle of record)."""
    return refactor_cli(exe, job[0], job[1], job[2], job[3], job[4])


def run_many(exe, srcs, tick_limit=20000):
    """Hook op `run` on each source -> list of (kind, value-or-message, stdout, stderr)."""
    res = oracle.batch(exe, [{"op": "run", "src": s, "tick_limit": tick_limit} for s in srcs], timeout=900)
    out = []
    for r in res:
        out.append(summarise_run(r))
    return out


def summarise_run(r):
    if "panic" in r:
        return ("crashed", r["panic"][:200], "", "")
    if "parse_errors" in r:
        return ("parse_error", json.dumps(r["parse_errors"])[:200], "", "")
    if "outcomes" not in r:
        return ("no_response", json.dumps(r)[:200], "", "")
    o = r["outcomes"][0]
    if o["kind"] == "ok":
        return ("ok", o.get("value"), r["stdout"], r["stderr"])
    return (o["kind"], o.get("message", ""), r["stdout"], r["stderr"])


def apply_rename(src_bytes, spans, new):
    out = bytearray()
    i = 0
    for (s, e) in sorted(spans):
        out += src_bytes[i:s]
        out += new.encode()
        i = e
    out += src_bytes[i:]
    return bytes(out)


# ---------------------------------------------------------------------------------------------------------------
# Encoding of programs of the Coq model's fragment for ocaml/ops_refactor.ml

class Encoder:
    def __init__(self):
        self.names = {}

    def nm(self, n):
        if n not in self.names:
            self.names[n] = len(self.names)
        return str(self.names[n])

    def block(self, ss):
        return "%d %s" % (len(ss), " ".join(self.stmt(s) for s in ss))

    def stmt(self, s):
        k = s["k"]
        if k == "let":
            return "L %d %s %s" % (s["id"], self.nm(s["n"]), self.expr(s["e"]))
        if k == "assign":
            if s["op"] != "=":
                raise ValueError("update assignment is outside the model")
            return "A %d %s %s" % (s["id"], self.nm(s["n"]), self.expr(s["e"]))
        if k == "while":
            return "W %s %s" % (self.expr(s["c"]), self.block(s["b"]))
        return "E " + self.expr(s)

    def expr(self, e):
        k = e["k"]
        if k == "int":
            return "I %d" % e["v"]
        if k == "bool":
            return "B %d" % (1 if e["v"] else 0)
        if k == "var":
            return "V %d %s" % (e["id"], self.nm(e["n"]))
        if k == "paren":
            return self.expr(e["e"])
        if k == "bin":
            return "O %s %s %s" % (e["op"], self.expr(e["l"]), self.expr(e["r"]))
        if k == "call":
            return "C %d %s %s" % (len(e["args"]), self.expr(e["f"]), " ".join(self.expr(a) for a in e["args"]))
        if k == "fun":
            return "F %d %s %s" % (len(e["ps"]), " ".join("%d %s" % (u, self.nm(n)) for n, u in e["ps"]), self.block(e["body"]))
        if k == "if":
            return "IF %s %s %s" % (self.expr(e["c"]), self.block(e["t"]), self.block(e["e"] or []))
        if k == "dbg":
            return "D " + self.expr(e["e"])
        if k == "println":
            return "P " + self.expr(e["e"])
        raise ValueError("outside the model: " + k)

    def program(self, prog):
        funs = [it for it in prog if it["k"] == "fundef"]
        main = [it for it in prog if it["k"] != "fundef"]
        fs = []
        for f in funs:
            fs.append("%s %d %d %s %s" % (self.nm(f["n"]), f["id"], len(f["ps"]),
                                         " ".join("%d %s" % (u, self.nm(n)) for n, u in f["ps"]), self.block(f["body"])))
        return "%d %s %s" % (len(funs), " ".join(fs), self.block(main))


def model_part(ctx, exe, rng):
    """Programs inside the Coq model's fragment: the extracted `rename` / `res_prog` / `run` against the binary."""
    mdl = ctx.model("refactor")
    if not mdl:
        return
    n = 300 if ctx.thorough else 20
    progs = []
    while len(progs) < n:
        prog = gen_program(rng, size=5, features=MODEL_FEATURES)
        if prog[0]["k"] != "fundef" and any(it["k"] == "fundef" for it in prog):
            continue
        progs.append(prog)
    lines, jobs, meta = [], [], []
    res_lines, run_lines = [], []
    rendered = []
    for prog in progs:
        src, pr = render(prog, rng)
        enc = Encoder()
        text = enc.program(prog)
        fresh_no = 100000
        rs, groups = occurrences(prog)
        kinds = binder_kinds(prog)
        rendered.append((src, pr, enc, rs))
        res_lines.append("rf_resolve\t" + text)
        run_lines.append("rf_run\t400\t" + text)
        for b, occs in groups.items():
            lines.append("rf_rename\t%d\t%d\t%s" % (b, fresh_no, text))
            st, en, nm = pr.occ[b]
            jobs.append(("rename", src, st, None, FRESH))
            meta.append((src, pr, enc, b, fresh_no, kinds.get(b, "?")))
    rc, mres, err = common.run_lines(mdl, [], lines + res_lines + run_lines, timeout=900, shards=common.NCPU)
    m_rename, m_res, m_run = mres[:len(lines)], mres[len(lines):len(lines) + len(res_lines)], mres[len(lines) + len(res_lines):]
    outs = refactor_many(exe, jobs, ctx)
    bad = []
    for (src, pr, enc, b, fresh_no, kind), mline, (rc, out, err) in zip(meta, m_rename, outs):
        ctx.stat("model rename compared (%s)" % kind)
        inv = {v: k for k, v in enc.names.items()}
        try:
            spans = []
            sb = src.encode("utf-8")
            pieces = []
            for tok in mline.split():
                o, x = tok.split(":")
                st, en, nm = pr.occ[int(o)]
                pieces.append((st, en, FRESH if int(x) == fresh_no else inv[int(x)]))
            pieces.sort()
            outb, i = bytearray(), 0
            for st, en, nm in pieces:
                outb += sb[i:st] + nm.encode()
                i = en
            outb += sb[i:]
            expected = outb.decode("utf-8")
        except Exception as ex:      # the model answered something unparsable
            expected = "<model: %s>" % mline[:100]
        if rc != 0 or out != expected:
            bad.append({"src": src, "binder": b, "model": expected, "impl": out if rc == 0 else err})
    if bad:
        ctx.broken("correspondence:rename", "%d of %d renames differ between the extracted model and reftest-rename, e.g. %s"
                   % (len(bad), len(meta), json.dumps(bad[0])[:1200]))
    # resolution table of the model vs the Python resolver (the independent oracle of the search)
    badr = 0
    for (src, pr, enc, rs), line in zip(rendered, m_res):
        ctx.stat("model resolution compared")
        table = {}
        for tok in line.split():
            o, d = tok.split(":")
            table[int(o)] = None if d == "-" else int(d)
        mine = dict(rs.res)
        for b_ in rs.binders:
            mine[b_] = b_
        if table != mine:
            badr += 1
            ctx.cov.setdefault("resolver_mismatch", {"src": src, "model": line[:300]})
    if badr:
        ctx.broken("correspondence:resolve", "%d resolution tables differ between Scope.res_prog and the Python resolver" % badr)
    # reference semantics vs the evaluator: stdout lines and final value
    runs = run_many(exe, [r[0] for r in rendered])
    badrun = []
    for (src, pr, enc, rs), line, rr in zip(rendered, m_run, runs):
        if line == "oom" or " | " not in (" " + line):
            ctx.stat("model run: out of fuel / no answer")
            continue
        evs, _, res = (" " + line).rpartition(" | ")
        evs = evs.split()
        if any(t[1:] in ("closure",) or t[1:].startswith("fun") for t in evs):
            ctx.stat("model run: prints a function (not compared)")
            continue
        m_out = "".join(t[1:] + "\n" for t in evs if t[0] == "o")
        m_dbg = [t[1:] for t in evs if t[0] == "d"]
        ok = True
        if res.startswith("ok"):
            ok = rr[0] == "ok" and rr[2] == m_out
            val = res[3:]
            if ok and val not in ("closure",) and not val.startswith("fun"):
                ok = (rr[1] or "Unit") == val
            i_dbg = [l.rsplit("//-> ", 1)[-1] for l in rr[3].splitlines() if "//-> " in l]
            ok = ok and i_dbg == m_dbg
        else:
            ok = rr[0] != "ok" and rr[2] == m_out
        ctx.stat("model run compared")
        if not ok:
            badrun.append({"src": src, "model": line, "impl": rr})
    if badrun:
        ctx.broken("correspondence:run", "%d of %d programs run differently in Scope.run and in garden, e.g. %s"
                   % (len(badrun), len(rendered), json.dumps(badrun[0], default=str)[:1200]))


# ---------------------------------------------------------------------------------------------------------------
# The search on the real binary

def occurrences(prog):
    """(resolver, {binder id: [occurrence ids (binder first)]})."""
    rs = Resolver(prog)
    groups = {b: [b] for b in rs.binders}
    for u, b in rs.res.items():
        if b is not None:
            groups[b].append(u)
    return rs, groups


def binder_kinds(prog):
    kinds = {}

    def f(e):
        k = e["k"]
        if k == "let":
            kinds[e["id"]] = "let"
        elif k == "for":
            kinds[e["id"]] = "for"
        elif k == "match":
            kinds[e["id"]] = "match"
        elif k == "fun":
            for n, u in e["ps"]:
                kinds[u] = "closure-param"
        elif k == "fundef":
            kinds[e["id"]] = "fundef"
            for n, u in e["ps"]:
                kinds[u] = "param"
    walk(prog, f)
    return kinds


def search_rename(ctx, exe, progs, label, nonfresh=True):
    """Every occurrence of every program through `garden reftest-rename` with a fresh name."""
    jobs, meta = [], []
    for pi, prog in enumerate(progs):
        src, pr = render(prog, ctx.rng)
        sb = src.encode("utf-8")
        rs, groups = occurrences(prog)
        kinds = binder_kinds(prog)
        names = [rs.binders[b] for b in groups]
        for b, occs in groups.items():
            spans = [pr.occ[o][:2] for o in occs]
            expected = apply_rename(sb, spans, FRESH).decode("utf-8")
            shadowed = names.count(rs.binders[b]) > 1
            for o in occs:
                st, en, nm = pr.occ[o]
                # a caret anywhere inside the name must work: alternate first / last byte of the name
                off = st if (o % 2 == 0) else en - 1
                jobs.append(("rename", src, off, None, FRESH))
                meta.append({"src": src, "offset": off, "name": nm, "binder": b, "kind": kinds.get(b, "?"),
                             "is_binder": o == b, "expected": expected, "shadowed": shadowed, "n_occ": len(occs)})
    ctx.log("%s: %d rename requests on %d programs" % (label, len(jobs), len(progs)))
    outs = refactor_many(exe, jobs, ctx)
    # run original programs once, renamed programs once per distinct output
    distinct = {}
    for m, (rc, out, err) in zip(meta, outs):
        distinct.setdefault(m["src"], None)
        if rc == 0:
            distinct.setdefault(out, None)
    keys = list(distinct)
    runs = dict(zip(keys, run_many(exe, keys)))
    for m, (rc, out, err) in zip(meta, outs):
        ctx.case({"src": m["src"], "offset": m["offset"]}, m["shadowed"])
        ctx.stat("%s rename %s %s" % (label, m["kind"], "at-binder" if m["is_binder"] else "at-use"))
        if m["shadowed"]:
            ctx.stat(label + " renamed name has a namesake binder")
        rep = {"input": m["src"], "offset": m["offset"], "new_name": FRESH,
               "cli_command": "garden reftest-rename <file with the input> %d --new-name %s" % (m["offset"], FRESH)}
        cls = "%s:%s" % (m["kind"], "binder" if m["is_binder"] else "use")
        if rc != 0:
            ctx.violation("C19:rename-refused:" + cls,
                          "reftest-rename on the `%s` occurrence at offset %d fails: %s" % (m["name"], m["offset"], err.strip()[:200]),
                          dict(rep, expected=m["expected"], observed={"rc": rc, "stderr": err[:300]}))
            continue
        if out != m["expected"]:
            ctx.violation("C19:rename-wrong-occurrences:" + cls,
                          "renaming `%s` at offset %d does not rewrite exactly its binder and the uses that refer to it"
                          % (m["name"], m["offset"]), dict(rep, expected=m["expected"], observed=out))
        r0, r1 = runs[m["src"]], runs[out]
        if r1[0] in ("parse_error", "crashed", "no_response"):
            ctx.violation("C19:renamed-program-broken:" + cls, "the renamed program does not parse/run: %s" % (r1[:2],),
                          dict(rep, observed=out, run=r1[:2]))
        elif r0[:3] != r1[:3]:
            ctx.violation("C19:rename-changes-behaviour:" + cls,
                          "the renamed program behaves differently: %s vs %s" % (r0[:3], r1[:3]),
                          dict(rep, observed=out, original_run=r0[:3], renamed_run=r1[:3]))
    if nonfresh:
        # NON-fresh names: rename to a name that is used elsewhere in the program; capture is possible and is only
        # counted (the property speaks about fresh names).
        jobs2, meta2 = [], []
        for m in meta:
            if not m["is_binder"] or m["kind"] == "fundef":
                continue
            others = sorted(set(POOL) - {m["name"]})
            new = others[m["binder"] % len(others)]
            jobs2.append(("rename", m["src"], m["offset"], None, new))
            meta2.append(m)
        jobs2, meta2 = jobs2[:len(jobs) // 6], meta2[:len(jobs) // 6]
        outs2 = refactor_many(exe, jobs2, ctx)
        keys = sorted(set(o[1] for o in outs2 if o[0] == 0))
        runs2 = dict(zip(keys, run_many(exe, keys)))
        for m, (rc, out, err) in zip(meta2, outs2):
            if rc != 0:
                ctx.stat(label + " non-fresh: refused")
            elif runs2[out][:3] != runs[m["src"]][:3]:
                ctx.stat(label + " non-fresh: behaviour changed (capture; not a violation of the property)")
            else:
                ctx.stat(label + " non-fresh: same behaviour")
    return meta, outs


SWEEP_BODY = ('let total = 1\n'
              'let f = fun(n) { if n > total { True } else { False } }\n'
              'let r = match Some(total) { Some(v) => Ok(v + total), None => Err("none") }\n'
              'println(string_repr((f(2), not(f(0)), r, [total].len(), Unit, max(total, 2))))\n'
              'dbg(total)\n'
              'total\n')


def offset_sweep(ctx, exe, max_pad):
    """A definition is identified by FILE and offset. The same small program (one local `total`, uses of prelude
    definitions: True, False, not, Unit, Ok, Err, Some, None, dbg, max, println, methods) is shifted byte by byte with a
    leading comment, so that the local's definition takes every byte offset from 4 to max_pad + 4, among them the offsets
    at which the prelude defines the names the program uses. Renaming the local must rewrite exactly its occurrences."""
    jobs, meta = [], []
    for pad in range(0, max_pad + 1):
        src = "//" + "-" * pad + "\n" + SWEEP_BODY
        off = src.index("let total") + 4
        jobs.append(("rename", src, off, None, FRESH))
        meta.append((src, off, re.sub(r"\btotal\b", FRESH, src)))
    outs = refactor_many(exe, jobs, ctx, cli_sample=150)
    for (src, off, want), (rc, out, err) in zip(meta, outs):
        ctx.case({"sweep_offset": off}, True)
        ctx.stat("offset sweep positions")
        if rc != 0 or out != want:
            ctx.violation("C19:rename-wrong-occurrences:definition-offset-collision",
                          "renaming the local `total` defined at byte offset %d rewrites other symbols (or fails): a definition "
                          "in another file (the prelude) at the same offset is taken for the local" % off,
                          {"input": src, "offset": off, "new_name": FRESH, "expected": want, "observed": out if rc == 0 else err,
                           "cli_command": "garden reftest-rename <file with the input> %d --new-name %s" % (off, FRESH)})
            break


TRUSTED = [
    "Coq 8.16.1 kernel (coqc); vm_compute only in Examples",
    "coq/Scope.v and coq/Refactor.v are HAND-WRITTEN models (lexical resolution, reference semantics, rename); tied to "
    "src/rename.rs + src/checks/type_checker.rs + src/eval.rs by differential execution only (extracted rename vs "
    "`garden reftest-rename`, Scope.res_prog vs the Python resolver, Scope.run vs the evaluator)",
    "the Python generator / printer / resolver of tools/props/C19.py (occurrence id -> byte offset map)",
    "Extraction (ExtrOcamlBasic) + ocaml/ops_refactor.ml",
    "cfg-gated hook `garden verif-batch` op run (src/verif_hooks.rs); the refactorings themselves are run through the plain CLI",
]


def run(ctx):
    ctx.trusted = TRUSTED
    ctx.coq("Properties/C19.v")
    exe = ctx.impl()
    if not exe:
        return
    rng = ctx.rng
    n = 400 if ctx.thorough else 50
    progs = [gen_program(rng, size=6) for _ in range(n)]
    search_rename(ctx, exe, progs, "full")
    offset_sweep(ctx, exe, 3000 if ctx.thorough else 1100)
    model_part(ctx, exe, rng)


def replay(ctx, rp):
    exe = ctx.impl()
    rc, out, err = refactor_cli(exe, "rename", rp["input"], rp["offset"], None, rp.get("new_name", FRESH))
    print("rc=%d\n%s%s" % (rc, out, err))
    if "expected" in rp:
        print("as expected" if out == rp["expected"] else "DIFFERS from expected:\n" + str(rp["expected"]))
    print(run_many(exe, [rp["input"], out]))
    return 0 if (rc == 0 and out == rp.get("expected", out)) else 1
