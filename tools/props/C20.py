"""C20 -- Extract variable and extract function preserve behaviour."""
import json

from vplib import common, oracle
from props import C19 as R

LEVEL = "proof"
CLAIMED = True
RULE = ("Coq: Properties/C20.v (extract_var_preserves_partial over Scope.v / Refactor.extract_var: extracting a pure "
        "sub-expression at a covered position of a top-level statement into `let x = e` with a fresh x keeps every event and "
        "the result). Dynamic, on the real binary: (1) tie of the model: on generated programs, for every position that the "
        "theorem covers (Python mirror of Refactor.covered_stmt / pure), `garden reftest-extract-variable` must produce "
        "exactly the text of the model's transformation (the `let` right before the top-level statement, the occurrence "
        "replaced); (2) search: generated ASSIGNMENT-FREE programs (no `=`/`+=`, no while; lets that shadow, if/for/match "
        "blocks, closures, top-level functions) -> every PURE sub-expression (no println/dbg, calls only of "
        "functions/closures whose bodies are pure), wherever it is, by exact byte range through extract-variable and "
        "extract-function with a fresh name, and runs of sibling statements of a block through extract-function: the output "
        "must parse, print the same stdout and end with the same result as the original (all generated programs run without "
        "error). Refusals are counted. Non-trivial: the extracted expression contains a variable.")
META = {
    "technique": "Coq proof over a hand-written model (reference semantics + extract_var) for a stated fragment of positions + "
                 "text-level tie of the model's transformation to `garden reftest-extract-variable` + property-directed "
                 "search on the binary (extract-variable / extract-function at every pure sub-expression and "
                 "sibling-statement run of generated assignment-free programs)",
    "level_text": ("Coq theorem extract_var_preserves_partial: for a program of the model language (Scope.v), a top-level "
                   "statement s (let / assignment / expression statement), a PURE selected sub-expression e (literals, "
                   "variables, operators) at a COVERED position (reached through operator operands, callee, call arguments, "
                   "dbg/println arguments or an if-condition, with everything Garden evaluates before it inside s pure: "
                   "operands to the left, the callee, arguments to the right) and a name x that occurs nowhere in the "
                   "program: if the original ends without error with events out and result v, the program "
                   "`.. let x = e; s[e := x] ..` ends with the same events and result. PARTIAL: positions inside nested "
                   "blocks, closure bodies, loops and function bodies, positions after an impure sub-expression, and all of "
                   "extract-function are covered by the search on the binary only."),
    "level_note": ("Trusted: Coq kernel; the hand-written model Scope.v/Refactor.v (the semantics is tied to the evaluator by "
                   "differential execution in C19's driver; extract_var is tied to extract_variable.rs by comparing the "
                   "refactoring's output text with the model's transformation re-implemented on the source text in this "
                   "driver, NOT by running the extracted Coq function); hook ops run / refactor (violations are re-run "
                   "through the plain CLI). extract-function has no theorem. Known finding: "
                   "C20:extract-function:local-shadows-function."),
    "design_ref": "DESIGN.md section 5 C20",
}
TRUSTED = [
    "Coq 8.16.1 kernel (coqc); vm_compute only in the Example",
    "coq/Scope.v (reference semantics) and coq/Refactor.v (extract_var, pure, covered_*) are HAND-WRITTEN models; the "
    "semantics is tied to the evaluator by C19's differential runs, extract_var by the text-level comparison of this driver",
    "tools/props/C19.py generator / printer / purity analysis; the Python mirror of covered_stmt in tools/props/C20.py",
    "cfg-gated hook ops run, refactor (src/verif_hooks.rs); reported violations are confirmed through the plain CLI",
]
FEATURES = R.ALL_FEATURES - {"assign", "update", "while", "dbg"}


def pure_binders(prog):
    """Binder ids of functions / closure variables whose call is side-effect free (least fixed point from below is
    wrong for recursion-free programs only; the generator produces no recursion)."""
    defs = {}

    def collect(e):
        if e["k"] == "fundef":
            defs[e["id"]] = e["body"]
        elif e["k"] == "let" and e["e"]["k"] == "fun":
            defs[e["id"]] = e["e"]["body"]
        elif e["k"] == "let" and e["e"]["k"] == "var":
            defs[e["id"]] = ("alias", e["e"]["b"])
    R.walk(prog, collect)
    pure = set()
    changed = True
    while changed:
        changed = False
        for b, body in defs.items():
            if b in pure:
                continue
            if isinstance(body, tuple):
                ok = body[1] in pure
            else:
                ok = all(is_pure(s, pure) for s in body)
            if ok:
                pure.add(b)
                changed = True
    return pure


def is_pure(e, pure):
    ok = [True]

    def f(n):
        k = n["k"]
        if k in ("println", "dbg", "assign", "while", "break", "continue"):
            ok[0] = False
        elif k == "call":
            c = n["f"]
            if c["k"] != "var" or c.get("b") not in pure:
                ok[0] = False
    R.walk(e, f)
    return ok[0]


def local_shadows_function(e, prog):
    """Does e use a LOCAL variable whose name is also the name of a top-level function?"""
    fnames = set(it["n"] for it in prog if it["k"] == "fundef")
    fids = set(it["id"] for it in prog if it["k"] == "fundef")
    r = [False]

    def f(n):
        if n["k"] == "var" and n["n"] in fnames and n.get("b") not in fids:
            r[0] = True
    R.walk(e, f)
    return r[0]


def nested_binders(prog):
    """Binder ids of lets / pattern / loop / parameter variables that live inside a nested block (not at top level)."""
    out = set()

    def visit(e, depth):
        if isinstance(e, list):
            for x in e:
                visit(x, depth)
            return
        k = e["k"]
        if depth > 0 and k == "let":
            out.add(e["id"])
        if k in ("for", "match") and "id" in e:
            out.add(e["id"])
        for key in ("e", "c", "l", "r", "s", "f", "it"):
            v = e.get(key)
            if isinstance(v, dict):
                visit(v, depth)
        for key in ("args", "es"):
            for x in e.get(key, []) or []:
                visit(x, depth)
        for key in ("t", "b", "some", "none", "body"):
            v = e.get(key)
            if isinstance(v, list):
                visit(v, depth + 1)
        if k == "if" and isinstance(e.get("e"), list):
            visit(e["e"], depth + 1)
    visit(prog, 0)
    return out


def uses_any(e, binders):
    hit = [False]

    def f(n):
        if n["k"] == "var" and n.get("b") in binders:
            hit[0] = True
    R.walk(e, f)
    return hit[0]


def extracted_uses_shadowing_local(src, out):
    """The known class judged on the text that was ACTUALLY extracted (garden may widen the selection to the enclosing
    expression): does the body of the new function mention a name that is both a top-level function and a local binder
    (let / pattern / parameter / loop variable) of the original program?"""
    import re
    m = re.search(r"(?m)^fun %s\(.*?^}\n" % re.escape(R.FRESH), out, re.S)
    if not m:
        return False
    body = m.group(0)
    fnames = set(re.findall(r"(?m)^fun (\w+)\(", src))
    locals_ = set(re.findall(r"\blet (\w+)", src)) | set(re.findall(r"\bSome\((\w+)\) =>", src)) | \
        set(re.findall(r"\bfor (\w+) in\b", src)) | set(x for ps in re.findall(r"\bfun\w*\s*\w*\(([^)]*)\)", src)
                                                          for x in re.findall(r"(\w+)(?:\s*:[^,]*)?", ps))
    both = fnames & locals_
    return any(re.search(r"\b%s\b" % re.escape(n), body.split("{", 1)[1]) for n in both)


def has_var(e):
    r = [False]

    def f(n):
        if n["k"] == "var":
            r[0] = True
    R.walk(e, f)
    return r[0]


def blocks_of(prog):
    out = [[it for it in prog if it["k"] != "fundef"]] if False else []

    def f(n):
        for key in ("t", "b", "some", "none", "body"):
            v = n.get(key)
            if isinstance(v, list) and v and not (n["k"] == "match" and not n.get("braces", True)):
                out.append(v)
        if n["k"] == "if" and isinstance(n.get("e"), list) and n["e"]:
            out.append(n["e"])
    R.walk(prog, f)
    return out


def uses_after(block, j, binder_ids, prog):
    """Is any of binder_ids referenced by a statement after index j of the block?"""
    hit = [False]

    def f(n):
        if n["k"] in ("var", "assign") and n.get("b") in binder_ids:
            hit[0] = True
    for s in block[j + 1:]:
        R.walk(s, f)
    return hit[0]


MODEL_OPS = ("+", "-", "*", "<", "<=", ">", ">=", "==", "!=", "&&", "||")


def m_pure(e):
    """Mirror of Refactor.pure (parentheses are not a node of the model)."""
    k = e["k"]
    if k in ("int", "bool", "var"):
        return True
    if k == "paren":
        return m_pure(e["e"])
    if k == "bin":
        return e["op"] in MODEL_OPS and m_pure(e["l"]) and m_pure(e["r"])
    return False


def m_covered(e, out, paren=None):
    """Mirror of Refactor.covered_expr: collects (node, enclosing parenthesis node or None) for every covered position."""
    k = e["k"]
    if k == "paren":
        m_covered(e["e"], out, e)
        return
    out.append((e, paren))
    if k == "bin" and e["op"] in MODEL_OPS:
        m_covered(e["l"], out)
        if m_pure(e["l"]):
            m_covered(e["r"], out)
    elif k == "call":
        m_covered(e["f"], out)
        if m_pure(e["f"]):
            args = e["args"]
            for j, a in enumerate(args):
                if all(m_pure(b) for b in args[j + 1:]):
                    m_covered(a, out)
    elif k == "if":
        m_covered(e["c"], out)
    elif k in ("dbg", "println"):
        m_covered(e["e"], out)


def model_tie(ctx, exe, progs):
    """Positions covered by extract_var_preserves_partial: garden's output must be the text of the model's transformation."""
    jobs, meta = [], []
    for prog in progs:
        src, pr = R.render(prog, ctx.rng)
        sb = src.encode("utf-8")
        for it in prog:
            k = it["k"]
            if k == "fundef" or k in ("while", "for", "match") or (k == "assign" and it["op"] != "="):
                continue
            nodes = []
            m_covered(it["e"] if k in ("let", "assign") else it, nodes)
            st0 = it["sp"][0]
            for n, paren in nodes:
                if not m_pure(n):
                    continue
                rs, re_ = (paren or n)["sp"]
                ns, ne = n["sp"]
                exp = (sb[:st0] + b"let " + R.FRESH.encode() + b" = " + sb[ns:ne] + b"\n" + sb[st0:rs] + R.FRESH.encode()
                       + sb[re_:]).decode("utf-8")
                jobs.append(("extract-variable", src, ns, ne, R.FRESH))
                meta.append({"src": src, "range": [ns, ne], "expected": exp, "kind": n["k"]})
    ctx.log("model tie: %d covered positions" % len(jobs))
    outs = R.refactor_many(exe, jobs, ctx)
    bad = []
    for m, (rc, out, err) in zip(meta, outs):
        ctx.stat("model-covered position compared (%s)" % m["kind"])
        if rc != 0 or out != m["expected"]:
            bad.append({"src": m["src"], "range": m["range"], "model": m["expected"], "impl": out if rc == 0 else err})
    if bad:
        ctx.broken("correspondence:extract_var", "%d of %d covered positions: reftest-extract-variable differs from the model's "
                   "transformation, e.g. %s" % (len(bad), len(meta), json.dumps(bad[0])[:1500]))


def search(ctx, exe, progs, per_prog):
    jobs, meta = [], []
    for prog in progs:
        src, pr = R.render(prog, ctx.rng)
        pure = pure_binders(prog)
        nodes = [(st, en, e) for (st, en, e) in pr.exprs
                 if e["k"] not in ("let", "assign", "while", "for") and is_pure(e, pure)]
        ctx.rng.shuffle(nodes)
        # selections that contain binders of their own (match patterns, closure parameters) first: free-variable
        # analysis has to get their scopes right
        prio = [x for x in nodes if x[2]["k"] in ("match", "fun")][:max(2, per_prog // 4)]
        nb = nested_binders(prog)
        prio += [x for x in nodes if uses_any(x[2], nb) and not any(x is y for y in prio)][:max(3, per_prog // 2)]
        rest = [x for x in nodes if not any(x is y for y in prio)]
        # expressions inside else / match-arm / loop blocks that use a block-local binding next (the insertion point
        # of the new `let` has to be inside that block)
        for st, en, e in prio + rest[:per_prog - len(prio)]:
            for cmd in ("extract-variable", "extract-function"):
                jobs.append((cmd, src, st, en, R.FRESH))
                meta.append({"src": src, "st": st, "en": en, "kind": e["k"], "cmd": cmd, "var": has_var(e),
                             "shadow": local_shadows_function(e, prog)})
        # runs of sibling statements
        runs_ = []
        for blk in blocks_of(prog):
            for i in range(len(blk)):
                for j in range(i + 1, min(len(blk), i + 3)):
                    sel = blk[i:j + 1]
                    if not all(is_pure(s, pure) and s["k"] not in ("for",) for s in sel):
                        continue
                    lets = set(s["id"] for s in sel if s["k"] == "let")
                    if uses_after(blk, j, lets, prog):
                        continue
                    runs_.append((sel[0]["sp"][0], sel[-1]["sp"][1], len(sel), any(local_shadows_function(x, prog) for x in sel)))
        ctx.rng.shuffle(runs_)
        for st, en, n, sh in runs_[:max(2, per_prog // 4)]:
            jobs.append(("extract-function", src, st, en, R.FRESH))
            meta.append({"src": src, "st": st, "en": en, "kind": "run-of-%d-statements" % n, "cmd": "extract-function", "var": True,
                         "shadow": sh})
    ctx.log("extract: %d requests" % len(jobs))
    outs = R.refactor_many(exe, jobs, ctx)
    keys = list(dict.fromkeys([m["src"] for m in meta] + [o[1] for o in outs if o[0] == 0]))
    runs = dict(zip(keys, R.run_many(exe, keys)))
    for job, m, (rc, out, err) in zip(jobs, meta, outs):
        short = "var" if m["cmd"] == "extract-variable" else "fun"
        rep = {"input": m["src"], "offset": m["st"], "end_offset": m["en"], "node": m["kind"], "command": m["cmd"],
               "cli_command": "garden reftest-%s <file with the input> %d %d --name %s" % (m["cmd"], m["st"], m["en"], R.FRESH)}
        r0 = runs[m["src"]]
        if r0[0] != "ok":
            ctx.stat("original program does not run ok (skipped)")
            continue
        ctx.case({"src": m["src"], "range": [m["st"], m["en"]], "cmd": m["cmd"]}, m["var"])
        if rc == 10:
            ctx.stat("%s %s: refused (%s)" % (m["cmd"], m["kind"], err.strip()[:60]))
            continue

        def viol(key, what, **kw):
            c = R.confirm_cli(exe, job)
            ctx.violation(key, what, dict(rep, cli_confirms=(c[0], c[1]) == (rc, out), **kw))
        if rc != 0:
            viol("C20:extract-%s-crash:%s" % (short, m["kind"]), "%s fails: %s" % (m["cmd"], err[:200]), observed=err[:300])
            continue
        ctx.stat("%s %s: extracted" % (m["cmd"], m["kind"]))
        r1 = runs[out]
        if r1[0] in ("parse_error", "crashed", "no_response"):
            viol("C20:extract-%s-unparsable:%s" % (short, m["kind"]),
                 "%s on the pure %s expression gives a program that does not parse: %s" % (m["cmd"], m["kind"], r1[1]),
                 observed=out)
        elif r0[:3] != r1[:3] and m["cmd"] == "extract-function" and (m.get("shadow") or extracted_uses_shadowing_local(m["src"], out)):
            # FreeVarsVisitor treats every name that is also a top-level function as global, even when a local shadows it
            viol("C20:extract-function:local-shadows-function",
                 "extract-function does not pass a local variable that has the name of a top-level function as a parameter: "
                 "%s vs %s" % (r0[:3], r1[:3]), observed=out, original_run=r0[:3], extracted_run=r1[:3])
        elif r0[:3] != r1[:3]:
            viol("C20:extract-%s-changes-behaviour:%s" % (short, m["kind"]),
                 "%s on the pure %s expression changes the run: %s vs %s" % (m["cmd"], m["kind"], r0[:3], r1[:3]),
                 observed=out, original_run=r0[:3], extracted_run=r1[:3])


def run(ctx):
    ctx.trusted = TRUSTED
    ctx.coq("Properties/C20.v")
    exe = ctx.impl()
    if not exe:
        return
    rng = ctx.rng
    fast = R.hook_supported(exe)
    n = (300 if ctx.thorough else 60) if fast else (50 if ctx.thorough else 6)
    progs = [R.gen_program(rng, size=6, features=FEATURES) for _ in range(n)]
    model_tie(ctx, exe, progs + [R.gen_program(rng, size=6, features=R.MODEL_FEATURES) for _ in range(n // 2)])
    search(ctx, exe, progs, (10 ** 6 if ctx.thorough else 14) if fast else 16)


def replay(ctx, rp):
    exe = ctx.impl()
    rc, out, err = R.refactor_cli(exe, rp["command"], rp["input"], rp["offset"], rp["end_offset"], R.FRESH)
    print("rc=%d\n%s%s" % (rc, out, err))
    print(R.run_many(exe, [rp["input"], out]))
    return 0
