"""C21 -- Wrap-in-dbg and add-type-annotation preserve behaviour."""
import json
import re

from vplib import common, oracle
from props import C19 as R

LEVEL = "proof"
CLAIMED = True
RULE = ("Coq: Properties/C21.v (dbg_transparent over Scope.v / Refactor.v: wrapping any sub-expression in dbg(..) keeps "
        "stdout and the result and only inserts debug lines into stderr). Dynamic, on the real binary: generated programs "
        "(shadowing, closures, if/while/for/match blocks, strings with multi-byte characters) -> EVERY expression node "
        "(by exact byte range) through wrap-in-dbg: the output must be the source with exactly that range wrapped, must "
        "parse, print the same stdout, end with the same result, and its stderr must contain the original stderr lines in "
        "order (lines are only added); every let binder, parameter, closure parameter and function header through "
        "add-type-annotation: the output must parse, `check` must report no error that was not reported before, and it "
        "must run the same. Statement-like nodes (let, assignment, while, for) are counted separately: wrapping them is "
        "outside the property. Non-trivial: the wrapped expression is not a literal / the annotated binder has a "
        "non-primitive inferred type.")
META = {
    "technique": "Coq proof over the reference semantics of Scope.v + property-directed search on the binary at every "
                 "expression position / annotatable position",
    "level_text": ("Coq theorem dbg_transparent: for every program of the model language (Scope.v) and every position, if "
                   "the original program ends (value or Garden error) with result r having produced the events out, the "
                   "wrapped program ends with the same r and its events are out with dbg lines inserted (same stdout, "
                   "stderr only gains lines). The converse direction (the wrapped program ends => the original ends) is "
                   "not proved. add-type-annotation is covered by the search on the binary only (parse, no new check errors, "
                   "same run)."),
    "level_note": ("Trusted: Coq kernel; the hand-written model Scope.v/Refactor.v (tied to the evaluator by differential "
                   "execution in C19's driver: Scope.run vs garden on generated programs, incl. dbg lines); hook ops run / "
                   "check / refactor (violations are re-run through the plain CLI). The type-annotation half has no "
                   "theorem: annotation_is_supertype is not stated."),
    "design_ref": "DESIGN.md section 5 C21",
}
TRUSTED = [
    "Coq 8.16.1 kernel (coqc)",
    "coq/Scope.v (reference semantics incl. dbg/println events) and coq/Refactor.v (wrap_dbg) are HAND-WRITTEN models, tied "
    "to the code by differential execution (C19 driver: Scope.run vs the evaluator)",
    "tools/props/C19.py generator / printer (byte ranges of expression nodes)",
    "cfg-gated hook ops run, check, refactor (src/verif_hooks.rs); reported violations are confirmed through the plain CLI",
]

STMT_LIKE = ("let", "assign", "break", "continue")      # not expressions with a value; loops ARE (they evaluate to Unit)


def dbg_values(stderr):
    """The values of the debug lines (`[file:line:col] source //-> value`); positions and the quoted source text
    legitimately change when an expression is wrapped, the values and their order must not."""
    return [l.rsplit("//-> ", 1)[1] for l in stderr.splitlines() if "//-> " in l]


def is_subseq(a, b):
    it = iter(b)
    return all(x in it for x in a)


def escapes_loop(e):
    """Does e contain a break/continue that belongs to a loop OUTSIDE e?"""
    def go(n, depth):
        if isinstance(n, list):
            return any(go(x, depth) for x in n)
        k = n["k"]
        if k in ("break", "continue"):
            return depth == 0
        if k == "fun":
            return False
        d2 = depth + 1 if k in ("while", "for") else depth
        for key in ("e", "c", "l", "r", "s", "f", "it"):
            v = n.get(key)
            if isinstance(v, dict) and go(v, depth):
                return True
        for key in ("args", "es"):
            if any(go(x, depth) for x in n.get(key, []) or []):
                return True
        for key in ("t", "b", "some", "none", "body"):
            v = n.get(key)
            if isinstance(v, list) and go(v, d2):
                return True
        if k == "if" and isinstance(n.get("e"), list) and go(n["e"], d2):
            return True
        return False
    return go(e, 0)


def search_dbg(ctx, exe, progs, per_prog):
    jobs, meta = [], []
    for prog in progs:
        src, pr = R.render(prog, ctx.rng)
        sb = src.encode("utf-8")
        nodes = [(st, en, e) for (st, en, e) in pr.exprs]
        ctx.rng.shuffle(nodes)
        for st, en, e in nodes[:per_prog]:
            exp = (sb[:st] + b"dbg(" + sb[st:en] + b")" + sb[en:]).decode("utf-8")
            jobs.append(("wrap-in-dbg", src, st, en, None))
            meta.append({"src": src, "st": st, "en": en, "kind": e["k"], "expected": exp, "escapes": escapes_loop(e)})
    ctx.log("wrap-in-dbg: %d requests" % len(jobs))
    outs = R.refactor_many(exe, jobs, ctx)
    keys = list(dict.fromkeys([m["src"] for m in meta] + [o[1] for o in outs if o[0] == 0]))
    runs = dict(zip(keys, R.run_many(exe, keys)))
    for job, m, (rc, out, err) in zip(jobs, meta, outs):
        stmt_like = m["kind"] in STMT_LIKE
        ctx.stat("wrap-in-dbg %s%s" % (m["kind"], " (statement-like, outside the property)" if stmt_like else ""))
        if stmt_like:
            if rc == 0 and runs[out][0] in ("parse_error",):
                ctx.stat("wrap-in-dbg on a statement-like node gives an unparsable program (counted only)")
            continue
        ctx.case({"src": m["src"], "range": [m["st"], m["en"]]}, m["kind"] not in ("int", "bool", "str", "none"))
        rep = {"input": m["src"], "offset": m["st"], "end_offset": m["en"], "node": m["kind"],
               "cli_command": "garden reftest-wrap-in-dbg <file with the input> %d %d" % (m["st"], m["en"])}

        def viol(key, what, **kw):
            c = R.confirm_cli(exe, job)
            ctx.violation(key, what, dict(rep, cli_confirms=(c[0], c[1]) == (rc, out), **kw))
        if rc != 0:
            viol("C21:dbg-refused:" + m["kind"], "wrap-in-dbg refuses the %s expression at %d..%d: %s"
                 % (m["kind"], m["st"], m["en"], err.strip()[:200]), observed=err[:300])
            continue
        if out != m["expected"]:
            viol("C21:dbg-wrong-range:" + m["kind"], "wrap-in-dbg wrapped a different range than the selected %s expression"
                 % m["kind"], expected=m["expected"], observed=out)
        r0, r1 = runs[m["src"]], runs[out]
        if r1[0] in ("parse_error", "crashed", "no_response"):
            viol("C21:dbg-breaks-program:" + m["kind"], "the wrapped program does not parse/run: %s" % (r1[:2],),
                 observed=out, run=r1[:2])
        elif r0[:3] != r1[:3] and m.get("escapes"):
            # the wrapped expression contains a break/continue of an ENCLOSING loop: inside dbg(...) it is in operand
            # position, where the evaluator leaks operand values (the known finding of C05)
            viol("C21:dbg-changes-behaviour:break-leaves-wrapped-expression",
                 "wrapping an expression that contains a `break`/`continue` of an enclosing loop: %s vs %s" % (r0[:3], r1[:3]),
                 observed=out, original_run=r0[:3], wrapped_run=r1[:3])
        elif r0[:3] != r1[:3]:
            viol("C21:dbg-changes-behaviour:" + m["kind"], "stdout/result differ: %s vs %s" % (r0[:3], r1[:3]),
                 observed=out, original_run=r0[:3], wrapped_run=r1[:3])
        elif not is_subseq(dbg_values(r0[3]), dbg_values(r1[3])) or len(dbg_values(r1[3])) <= len(dbg_values(r0[3])) - 1:
            viol("C21:dbg-stderr-lost-lines:" + m["kind"], "stderr of the wrapped program lost or reordered lines",
                 observed=out, original_stderr=r0[3], wrapped_stderr=r1[3])


def error_msgs(resp):
    if "parse_errors" in resp:
        return None
    return sorted(d["message"] for d in resp.get("diagnostics", []) if d["severity"] == "error")


def check_many(exe, srcs):
    if R.hook_supported(exe):
        res = oracle.batch(exe, [{"op": "check", "src": s} for s in srcs], timeout=900)
        return [error_msgs(r) for r in res]
    out = []
    import concurrent.futures
    import os
    import shutil
    import tempfile

    def one(src):
        d = tempfile.mkdtemp(dir=oracle.scratch_dir())
        try:
            p = os.path.join(d, "prog.gdn")
            with open(p, "wb") as f:
                f.write(src.encode("utf-8"))
            rc, o, e = oracle.garden_cli(exe, ["check", "--json", p], cwd=d)
        finally:
            shutil.rmtree(d, ignore_errors=True)
        msgs = []
        for line in o.splitlines():
            try:
                dd = json.loads(line)
            except Exception:
                continue
            if str(dd.get("severity", "")).lower() == "error":
                if "Parse error" in dd.get("message", "") or "Expected" in dd.get("message", "")[:0]:
                    pass
                msgs.append(dd.get("message", ""))
        return sorted(msgs)
    with concurrent.futures.ThreadPoolExecutor(common.NCPU) as ex:
        out = list(ex.map(one, srcs))
    return out


def search_annot(ctx, exe, progs):
    jobs, meta = [], []
    for prog in progs:
        src, pr = R.render(prog, ctx.rng)
        kinds = R.binder_kinds(prog)
        for b, kind in kinds.items():
            if kind in ("for", "match"):
                continue
            st, en, nm = pr.occ[b]
            jobs.append(("add-type-annotation", src, st, st, None))
            meta.append({"src": src, "offset": st, "kind": "return" if kind == "fundef" else kind, "name": nm})
    ctx.log("add-type-annotation: %d requests" % len(jobs))
    outs = R.refactor_many(exe, jobs, ctx)
    keys = list(dict.fromkeys([m["src"] for m in meta] + [o[1] for o in outs if o[0] == 0]))
    runs = dict(zip(keys, R.run_many(exe, keys)))
    checks = dict(zip(keys, check_many(exe, keys)))
    for job, m, (rc, out, err) in zip(jobs, meta, outs):
        rep = {"input": m["src"], "offset": m["offset"], "position_kind": m["kind"],
               "cli_command": "garden reftest-add-type-annotation <file with the input> %d %d" % (m["offset"], m["offset"])}
        if rc == 10:
            ctx.stat("add-type-annotation %s: nothing suggested" % m["kind"])
            continue

        def viol(key, what, **kw):
            c = R.confirm_cli(exe, job)
            ctx.violation(key, what, dict(rep, cli_confirms=(c[0], c[1]) == (rc, out), **kw))
        if rc != 0:
            viol("C21:annotation-crash:" + m["kind"], "add-type-annotation fails: %s" % err[:200], observed=err[:300])
            continue
        added = out[len(m["src"][:0]):]
        ann = ""
        # the inserted text
        i = 0
        while i < len(m["src"]) and i < len(out) and m["src"][i] == out[i]:
            i += 1
        ann = out[i:i + len(out) - len(m["src"])]
        prim = ann.strip(": ") in ("Int", "Bool", "String", "Unit")
        ctx.case({"src": m["src"], "offset": m["offset"]}, not prim)
        ctx.stat("add-type-annotation %s: annotated (%s)" % (m["kind"], "primitive" if prim else "other"))
        r0, r1 = runs[m["src"]], runs[out]
        c0, c1 = checks[m["src"]], checks[out]
        if r1[0] in ("parse_error", "crashed", "no_response") or c1 is None:
            viol("C21:annotation-breaks-program:" + m["kind"], "the annotated program does not parse: %s" % (r1[:2],),
                 observed=out, inserted=ann)
            continue
        # an error that was there before may mention other types now (the annotation changes inferred types): compare
        # the errors as a multiset of message SHAPES (text in backticks blanked), not of exact texts
        shape = lambda msg: re.sub(r"`[^`]*`", "`_`", msg)
        new_errs = list(c1)
        old_shapes = [shape(e) for e in (c0 or [])]
        for e in list(new_errs):
            if shape(e) in old_shapes:
                old_shapes.remove(shape(e))
                new_errs.remove(e)
        if new_errs and all(e.startswith("Expected `NoValue` but got") for e in new_errs):
            # a variable whose inferred type is the bottom type (the payload of `match None { Some(a) => .. }`, the result
            # of an unannotated function) is assigned the result of the function that has just been annotated
            viol("C21:annotation-new-check-error:value-for-NoValue-variable",
                 "`check` reports new errors after inserting `%s`: %s" % (ann, new_errs[:2]), observed=out, inserted=ann,
                 new_errors=new_errs[:5])
        elif new_errs:
            viol("C21:annotation-new-check-error:" + m["kind"],
                 "`check` reports new errors after inserting `%s`: %s" % (ann, new_errs[:2]), observed=out, inserted=ann,
                 new_errors=new_errs[:5])
        if r0[:3] != r1[:3]:
            viol("C21:annotation-changes-behaviour:" + m["kind"],
                 "after inserting `%s` the program runs differently: %s vs %s" % (ann, r0[:3], r1[:3]),
                 observed=out, inserted=ann, original_run=r0[:3], annotated_run=r1[:3])


def run(ctx):
    ctx.trusted = TRUSTED
    ctx.coq("Properties/C21.v")
    exe = ctx.impl()
    if not exe:
        return
    rng = ctx.rng
    fast = R.hook_supported(exe)
    n = (400 if ctx.thorough else 48) if fast else (60 if ctx.thorough else 8)
    progs = [R.gen_program(rng, size=6) for _ in range(n)]
    search_dbg(ctx, exe, progs, (10 ** 6 if ctx.thorough else 16) if fast else 25)
    search_annot(ctx, exe, progs)


def replay(ctx, rp):
    exe = ctx.impl()
    cmd = "wrap-in-dbg" if "end_offset" in rp and "node" in rp else "add-type-annotation"
    rc, out, err = R.refactor_cli(exe, cmd, rp["input"], rp["offset"], rp.get("end_offset", rp["offset"]))
    print("rc=%d\n%s%s" % (rc, out, err))
    print(R.run_many(exe, [rp["input"], out]))
    return 0
