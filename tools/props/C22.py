"""C22 -- `check --fix` edits are safe."""
import json
import os
import shutil
import tempfile
from concurrent.futures import ThreadPoolExecutor

from vplib import common, oracle, genprog

LEVEL = "proof"
RULE = ("Coq: Properties/C22.v over Fixes.v (model of apply_fixes in src/syntax_check.rs: per-diagnostic fix groups, "
        "greedy selection of groups that do not overlap the ones already chosen, stable sort by descending start, "
        "sequential byte splices; and of get_line_position in src/checks/unused_literals.rs). Dynamic, on the real "
        "binary: programs from the shared generator of valid terminating programs with injected triggers of every "
        "fixable lint (one or several per line, nested, adjacent, at end of file without newline, after non-ASCII "
        "text, with comments, CRLF); for each: the fix groups `check` offers (hook op `fixes`), the text printed by "
        "`garden check --fix --stdout` (CLI), which must (a) equal the extracted model's apply_fixes on the real "
        "fix groups, (b) equal an independent Python simultaneous splice of the groups chosen by a pairwise "
        "overlap test, (c) parse (hook op `sexp`), (d) when the original ran to a value: print the same stdout and "
        "end with the same value (hook op `run`); `--fix` is iterated to a fixed point (<= 8 rounds: a fix can expose the next lint, cascades of 5 were observed) and (c),(d) "
        "are checked after every round. A case is non-trivial when at least one fix was offered.")
META = {
    "technique": "Coq proof over a hand-written model of fix application + differential execution of the extracted "
                 "model vs the CLI on the real fix lists + property-directed search on the real binary with "
                 "generated programs that trigger every fixable lint",
    "level_text": ("THEOREMS (Coq, all sources = lists of Unicode scalar values, all fix lists): apply_fixes_splice "
                   "(applying well-formed fixes whose neighbours in descending start order do not overlap, one after "
                   "the other as the code does, never panics and equals the simultaneous splice: every replaced "
                   "region is replaced, everything else is kept); apply_fixes_total (the fixed apply_fixes, for ANY "
                   "list of in-range fix groups, is the simultaneous splice of the groups it selects, which are "
                   "pairwise non-overlapping, and it never panics when offsets are character boundaries); "
                   "apply_fixes_overlap_refuted (witness: without the selection, overlapping fixes corrupt the "
                   "text / panic); line_removal_only_removes_that_statement (the span returned by the repaired "
                   "get_line_position contains the literal and otherwise only whitespace, for all sources); small "
                   "expression-model lemmas: repeated_bool_and/or (x && x = x, x || y || x = x || y on booleans), "
                   "drop_unused_literal_partial, unnecessary_let_partial. SEARCH ONLY (not theorems): that the "
                   "positions the lints compute denote the intended syntax, that the fixed program parses, runs "
                   "to the same output/value, and that `--fix` converges -- checked on generated programs against "
                   "the real binary."),
    "level_note": ("Trusted: Coq kernel; the reading of Rust std (`str` slicing, `sort_by_key` stability, `rfind`/"
                   "`find`, `char::is_whitespace`, `windows`) written in coq/Fixes.v (modelled, not verified; tied by "
                   "the correspondence on real fix lists); extraction + OCaml glue; the cfg-gated hook op `fixes` "
                   "(re-implements the 10 lines of `check` that collect fixes; its text result is NOT used: the "
                   "fixed text always comes from the CLI); the program generator. The per-lint semantic lemmas are "
                   "over a tiny boolean/block model, not over Machine.v: `_partial`."),
    "design_ref": "DESIGN.md §5 C22, §8 item 16",
}

TICKS = 200000
MAX_ROUNDS = 8       # one fix can expose the next lint (arm removed -> let unused -> value unused -> loop variable unused): cascades of 5 occur


# ---------------------------------------------------------------------------
# Generator: valid terminating programs (genprog) with lint triggers injected

class TrigGen(genprog.Gen):
    """genprog.Gen whose statements are sometimes lint triggers. `self.trig` counts what was injected."""

    def __init__(self, rng, p_trig=0.3, **kw):
        super().__init__(rng, **kw)
        self.p_trig = p_trig
        self.trig = {}
        self.pre = []          # extra toplevel definitions
        self.have_enum = False

    def note(self, k):
        self.trig[k] = self.trig.get(k, 0) + 1

    def pure_bool(self):
        r = self.r
        vs = self.vars_of("Bool")
        iv = self.vars_of("Int")
        k = r.randrange(4)
        if k == 0 and vs:
            return self.pick(vs)
        if k == 1 and iv:
            return "%s %s %d" % (self.pick(iv), self.pick(["<", "==", ">="]), r.randrange(4))
        if k == 2:
            return self.pick(["True", "False"])
        return "%d < %d" % (r.randrange(3), r.randrange(3))

    def repeated_bool(self):
        r = self.r
        op = self.pick(["||", "&&"])
        a, b = self.pure_bool(), self.pure_bool()
        if "<" in a or "=" in a:
            a = "(%s)" % a if r.random() < 0.5 else a
        shape = r.randrange(12)
        self.note("repeated_bool shape %d" % shape)
        pa = a if a.startswith("(") else "(%s)" % a
        pb = "(%s)" % b
        other = "&&" if op == "||" else "||"
        # chains that MIX && and ||: the same operand on both sides of an operator change is not a repetition
        if shape == 8:
            return "%s %s %s %s %s" % (pa, op, pb, other, pa)
        if shape == 9:
            return "(%s %s %s) %s %s" % (pa, op, pb, other, pa)
        if shape == 10:
            return "%s %s (%s %s %s)" % (pa, op, pb, other, pa)
        if shape == 11:
            return "%s %s %s %s %s %s %s" % (pa, op, pb, other, pa, op, pb)
        if shape == 0:
            return "%s %s %s" % (pa, op, pa)
        if shape == 1:
            return "%s %s %s %s %s" % (pa, op, pb, op, pa)
        if shape == 2:
            return "%s %s %s %s %s" % (pa, op, pa, op, pa)
        if shape == 3:
            return "(%s %s %s) %s %s" % (pa, op, pb, op, pa)
        if shape == 4:
            return "%s %s (%s %s %s)" % (pa, op, pb, op, pa)
        if shape == 5:
            return "%s %s (%s %s %s)" % (pa, op, pa, op, pb)
        if shape == 6:
            return "%s %s (%s)" % (pa, op, pa)
        return "%s %s %s %s %s %s %s" % (pa, op, pb, op, pb, op, pa)

    def list_len(self):
        vs = self.vars_of("ListInt")
        xs = self.pick(vs) if vs and self.r.random() < 0.7 else self.pick(["[1, 2]", "[]", "[0]"])
        shape = self.r.randrange(4)
        self.note("list_len shape %d" % shape)
        # the lint rewrites `.len() == 0` / `!= 0` (either operand order); the other comparison operators and constants
        # are near misses it must leave alone or rewrite correctly (`0 > xs.len()` is not `xs.len() > 0`)
        op = self.pick(["==", "!=", "==", "!=", ">", "<", ">=", "<="])
        sp = self.pick([" ", "  ", ""])
        k = "0" if self.r.random() < 0.8 else "1"
        if shape == 0:
            return "%s.len()%s%s%s%s" % (xs, sp, op, sp, k)
        if shape == 1:
            return "%s%s%s%s%s.len()" % (k, sp, op, sp, xs)
        if shape == 2:
            return "(%s.len() %s 0)" % (xs, op)
        return "%s.len() %s 0 %s %s.len() %s 0" % (xs, op, self.pick(["||", "&&"]), xs, op)

    def literal(self):
        r = self.r
        iv = self.vars_of("Int")
        k = r.randrange(10)
        if k == 0:
            return str(r.randrange(100))
        if k == 1:
            return self.pick(['"s"', '"é"', '"\\n"', '"a b"'])
        if k == 2:
            return "[%d, %d]" % (r.randrange(9), r.randrange(9))
        if k == 3:
            return "2.5"
        if k == 4:
            return "(1, \"é\")"
        if k == 5 and iv:
            return "[%s]" % self.pick(iv)
        if k == 6:
            return "[\n  1,\n  2\n]"
        if k == 7:
            self.note("impure literal")
            return '[println("side")]'
        if k == 8:
            self.note("impure literal")
            return '(1, println("side2"))'
        return "[]"

    def trigger(self, d, in_loop, in_fun):
        r = self.r
        k = r.randrange(9)
        if k <= 2:
            self.note("unused literal")
            lit = self.literal()
            j = r.randrange(8)
            if j == 0:
                self.note("unused literal + code on the line")
                return '%s println("after")' % lit
            if j == 1:
                self.note("two unused literals on a line")
                return "%s %s" % (lit, self.literal())
            if j == 2:
                self.note("unused literal + comment")
                return "%s // é comment" % lit
            if j == 3:
                self.note("code + unused literal on the line")
                return 'println("é before") %s' % lit
            return lit
        if k == 3 and (in_fun or d > 0):
            self.note("unused variable")
            return "let %s = %s" % (self.fresh("u"), self.expr(self.pick(genprog.TYPES), 2))
        if k == 4:
            self.note("repeated bool")
            return "if %s { println(\"rb\") }" % self.repeated_bool()
        if k == 5:
            self.note("list len compare")
            return "println(string_repr(%s))" % self.list_len()
        if k == 6 and (in_fun or d > 0):
            self.note("unused variable, impure rhs")
            return "let %s = { println(\"rhs\") 3 }" % self.fresh("u") if False else \
                   "let %s = string_repr(%s)" % (self.fresh("u"), self.expr("Int", 2))
        if k == 7 and d < 3:
            self.note("nested block with triggers")
            body = [self.trigger(d + 1, in_loop, in_fun) for _ in range(r.randrange(1, 3))]
            return "if %s %s" % (self.pure_bool(), self.fmt_block(body, 0))
        if k == 8 and d < 3:
            return self.match_unreachable(d, in_loop, in_fun)
        self.note("unused literal")
        return self.literal()

    def match_unreachable(self, d, in_loop, in_fun):
        if not self.have_enum:
            self.have_enum = True
            self.pre.append("enum Shade { Dark, Light(Int), Mid }")
        self.note("unreachable match arm")
        r = self.r
        arms = []
        arms.append("Dark => { println(\"dark\") }")
        arms.append("_ => { println(\"other\") }")
        for pat in self.r.sample(["Light(_)", "Mid", "Dark"], r.randrange(1, 3)):
            body = [self.trigger(d + 1, in_loop, in_fun) for _ in range(r.randrange(0, 3))] + ['println("never")']
            if r.random() < 0.5:
                arms.append("%s => { %s }" % (pat, " ".join(b.replace("\n", " ") for b in body)))
            else:
                arms.append("%s => %s" % (pat, self.fmt_block(body, 1)))
        sc = self.pick(["Dark", "Light(2)", "Mid"])
        sep = "\n  " if r.random() < 0.7 else " "
        return "match %s {%s%s\n}" % (sc, sep, sep.join(arms))

    def tail_let(self, e):
        self.note("unnecessary let")
        v = self.fresh("t")
        sep = self.pick(["\n", " ", "  // c\n", "\n\n"])
        hint = ""
        return "let %s%s = %s%s%s" % (v, hint, e, sep, v)

    # ---- overrides
    def stmt(self, d, in_loop, in_fun, ret):
        if self.r.random() < self.p_trig:
            return self.trigger(d, in_loop, in_fun)
        return super().stmt(d, in_loop, in_fun, ret)

    def block(self, n, d, in_loop, in_fun, ret=None):
        out = super().block(n, d, in_loop, in_fun, ret)
        if d > 0 and self.r.random() < self.p_trig * 0.5:
            # the value of these blocks is discarded by genprog's statements
            out.append(self.tail_let(self.expr("Int", 2)))
        return out

    def fun(self):
        r = self.r
        src = super().fun()
        name = self.funs[-1][0]
        # the last line of the body is the result expression
        lines = src.split("\n")
        last = lines[-2].strip()
        k = r.randrange(6) if r.random() < self.p_trig * 2 else -1
        if k == 0:
            self.note("unnecessary return")
            lines[-2] = "  return %s" % last
        elif k == 1:
            self.note("unnecessary return")
            lines[-2] = "  return(%s)" % last
        elif k == 2:
            lines[-2] = "  " + self.tail_let(last).replace("\n", "\n  ")
        elif k == 3:
            self.note("unused type params (all)")
            tps = self.pick(["<T>", "<T, U>", "<T,U,V>", "< T >"])
            lines[0] = lines[0].replace("fun %s(" % name, "fun %s%s(" % (name, tps), 1)
        elif k == 4:
            self.note("unused parameter")
            lines[0] = lines[0].replace("fun %s(" % name, "fun %s(%s" % (name, "unusedp, " if self.funs[-1][1] else "unusedp"), 1)
            nm, ptys, rt = self.funs[-1]
            self.funs[-1] = (nm, ["Int"] + ptys, rt)
        elif k == 5:
            self.note("unused variable as the last expression of a block")
            lines.insert(len(lines) - 2, "  if False { let %s = 1 }" % self.fresh("u"))
        return "\n".join(lines)

    def program(self):
        r = self.r
        parts = []
        if "fun" in self.features:
            for _ in range(r.randrange(0, 3)):
                parts.append(self.fun())
        n = max(1, self.size + r.randrange(-3, 4))
        wrap = r.random() < 0.6
        d0 = 1 if wrap else 0
        if wrap:
            self.scopes.append({})
        stmts = [self.stmt(d0, False, wrap, None) for _ in range(n)]
        last = self.expr(self.pick(genprog.TYPES), 1)
        if wrap:
            self.scopes.pop()
            self.note("program body wrapped in a function")
            if r.random() < 0.3:
                last = self.tail_let(last)
            parts.append("fun mainf() " + self.fmt_block(stmts + [last], 0))
            parts.append("println(string_repr(mainf()))")
            parts.append("mainf()")
        else:
            parts += stmts + [last]
        body = "\n".join(parts) + "\n"
        extra = []
        if r.random() < self.p_trig:
            self.note("unused type params (some)")
            extra.append(self.pick([
                "fun tp1<T, U>(x: T): T { x }",
                "fun tp2<T, U, V>(x: V): V { x }",
                "fun tp3<T, U, V>(x: T): T { x }",
                "fun tp4<T, U, V>(x: U): U { x }",
                "fun tp5<A, B>(x: List<B>): List<B> { x }"]))
            extra.append("println(string_repr(%s(1)))" % extra[-1][4:7] if "List" not in extra[-1] else "println(string_repr(tp5([1])))")
        if r.random() < self.p_trig * 0.5:
            self.note("let as the value of a typed function")
            extra.append("fun unitlet(): Unit { let w = 1 }\nunitlet()")
        if r.random() < self.p_trig * 0.5:
            self.note("unused let whose value is a block result")
            extra.append("fun letval() { if True { let w = 2 } }\nprintln(string_repr(letval()))")
        return "\n".join(self.pre + extra) + ("\n" if self.pre or extra else "") + body


ERROR_FIX_SNIPPETS = [
    'let fl = 1.0 + 2.0\n', 'let st = "a" + "b"\n', 'let nn = 1 +. 2\n',
    'enum E2 { P, Q }\nfun mm(e: E2) {\n  match e {\n    P => 1\n  }\n}\n',
    'fun ml(xs: List<Int>) { xs.lenn() }\n', 'fun ml2(xs: List<Int>) { xs.len }\n',
]


def relayout(r, src):
    """Layout variations that keep the token sequence: join lines, CRLF, no final newline."""
    kind = r.randrange(8)
    tag = "plain"
    if kind == 0:
        src = src.rstrip("\n")
        tag = "no final newline"
    elif kind == 1:
        # join some statement lines (only lines that do not end in a comment)
        lines = src.split("\n")
        out = []
        for l in lines:
            if out and r.random() < 0.4 and "//" not in out[-1] and out[-1].strip() and l.strip():
                out[-1] = out[-1] + "  " + l.strip()
            else:
                out.append(l)
        src = "\n".join(out)
        tag = "joined lines"
    elif kind == 2:
        src = src.replace("\n", "\r\n")
        tag = "CRLF"
    elif kind == 3:
        src = " ".join(l.split("//")[0].strip() for l in src.split("\n")) + "\n"
        tag = "one line"
    return src, tag


def gen_programs(rng, n, size=8):
    out = []
    for i in range(n):
        g = TrigGen(rng, p_trig=rng.choice([0.15, 0.3, 0.5]), size=size, annotate=rng.random() < 0.5)
        src = g.program()
        if rng.random() < 0.08:
            src = rng.choice(ERROR_FIX_SNIPPETS) + src
            g.note("error-severity fix (outside the property's quantifier)")
        src, tag = relayout(rng, src)
        out.append((src, g.trig, tag))
    return out


HAND = [
    '1 println("hi")\n',
    'fun f() { 1 println("hi") }\nf()\n',
    'fun f() { 1 2 3 }\nprintln(string_repr(f()))',
    'fun f(b: Bool) { b || b || b }\nprintln(string_repr(f(True)))\n',
    'fun f(a: Bool) { a || (a) }\nprintln(string_repr(f(True)))\n',
    'fun f(a: Bool, b: Bool) { b || (b || a) }\nprintln(string_repr(f(True, False)))\n',
    'fun f(): Unit { let x = 1 }\nf()\n',
    'fun f() { if True { let x = 1 } }\nprintln(string_repr(f()))\n',
    'fun f() { [println("a")] println("b") }\nf()\n',
    'fun f() {\n  [println("a")]\n  println("b")\n}\nf()\n',
    'fun f<T, U>() { 1 }\nprintln(string_repr(f()))\n',
    'fun f<T, U, V>(v: V) { v }\nprintln(string_repr(f(1)))\n',
    'fun f() {\n  1\n  "é" 2\n  [1,\n   2] // x\n  [1,\n   2]\n  3 }\nprintln(string_repr(f()))',
    'enum C { A, B }\nfun f(c: C) { match c { _ => 1  A => { 1 2 }  B => { let x = 2 x } } }\nprintln(string_repr(f(A)))\n',
    'fun f() { while False { 1 } 2 }\nprintln(string_repr(f()))\n',
    'fun f() {\r\n  1\r\n  2\r\n}\r\nprintln(string_repr(f()))\r\n',
    'fun f() {\n  "é"   \n  2}\nprintln(string_repr(f()))',
    'fun f(xs: List<Int>) { 0 == xs.len() }\nprintln(string_repr(f([])))\n',
    'fun f(xs: List<Int>) { let r = xs.len() != 0 // é\n r }\nprintln(string_repr(f([])))\n',
    'fun f() { return 1 }\nprintln(string_repr(f()))\n',
    'fun f() {\n  let x = 1\n  2\n}\nprintln(string_repr(f()))',
]


def normalise(src):
    """What `garden check` does to the file text before checking it (remove_testing_footer in src/main.rs):
    `str::lines` (LF or CRLF ends a line), stop at a line starting `// args: `, every line ends in LF."""
    lines = src.split("\n")
    if lines and lines[-1] == "":
        lines.pop()
    out = []
    for l in lines:
        if l.endswith("\r"):
            l = l[:-1]
        if l.startswith("// args: "):
            break
        out.append(l + "\n")
    return "".join(out)


# ---------------------------------------------------------------------------
# Independent reading of "apply all the fixes": pairwise overlap test + simultaneous splice on bytes

def flat(groups):
    return [f for _, g in groups for f in g]


def overlaps(f, g):
    """Two byte ranges overlap (two edits at the same point, or an insertion at the edge of a range, do not,
    except an insertion strictly inside a range)."""
    return f[0] < g[1] and g[0] < f[1] or (f[0] == f[1] and g[0] < f[0] < g[1]) or (g[0] == g[1] and f[0] < g[0] < f[1])


def select_groups(groups):
    chosen = []
    skipped = 0
    for _, g in groups:
        ok = all(not overlaps(a, b) for i, a in enumerate(g) for b in g[i + 1:]) and \
            all(not overlaps(a, b) for a in g for c in chosen for b in c)
        if ok:
            chosen.append(g)
        else:
            skipped += 1
    return chosen, skipped


def simultaneous_splice(src, fixes):
    """Replace every region at once. None when the edits are not well-formed for this text."""
    b = src.encode()
    fs = sorted(enumerate(fixes), key=lambda t: (t[1][0], t[1][1], t[0]))
    out = []
    pos = 0
    for _, f in fs:
        if f[0] < pos or f[1] < f[0] or f[1] > len(b):
            return None
        out.append(b[pos:f[0]])
        out.append(f[2].encode())
        pos = f[1]
    out.append(b[pos:])
    try:
        return b"".join(out).decode()
    except UnicodeDecodeError:
        return None


def ambiguous_same_point(groups):
    """Two chosen edits that start at the same offset: the order of their texts in the result is decided by
    the sort's stability, so the simple splice above cannot predict it (the model does)."""
    fs = [f for g in groups for f in g]
    starts = [f[0] for f in fs]
    return len(starts) != len(set(starts))


# ---------------------------------------------------------------------------
# Oracles

def cli_fix(exe, srcs):
    """`garden check --fix --stdout <file>` for each source -> [(rc, stdout, stderr)] (the CLI is the oracle of record)."""
    d = tempfile.mkdtemp(dir=oracle.scratch_dir())

    def one(t):
        i, s = t
        sub = os.path.join(d, "p%d" % i)
        os.makedirs(sub)
        p = os.path.join(sub, "prog.gdn")
        with open(p, "w", newline="") as f:
            f.write(s)
        rc, out, err = oracle.garden_cli(exe, ["check", "--fix", "--stdout", p], timeout=60, cwd=sub)
        if isinstance(out, bytes):
            out = out.decode("utf-8", "replace")
        if isinstance(err, bytes):
            err = err.decode("utf-8", "replace")
        return rc, out, err
    try:
        with ThreadPoolExecutor(max_workers=common.NCPU) as ex:
            return list(ex.map(one, list(enumerate(srcs))))
    finally:
        shutil.rmtree(d, ignore_errors=True)


def hook_fixes(exe, srcs):
    rs = oracle.batch(exe, [{"op": "fixes", "src": s} for s in srcs])
    out = []
    for r in rs:
        if "fixes" not in r:
            out.append(None)
        else:
            out.append([(m, [(f[0], f[1], f[2], f[3]) for f in g]) for m, g in r["fixes"]])
    return out, rs


def run_all(exe, srcs):
    return oracle.batch(exe, [{"op": "run", "src": s, "tick_limit": TICKS} for s in srcs])


def parses(exe, srcs):
    rs = oracle.batch(exe, [{"op": "sexp", "src": s} for s in srcs])
    return [r.get("errors") == [] for r in rs], rs


def outcome(r):
    """(kind, value, stdout) of a hook `run` answer; positions dropped."""
    if "outcomes" not in r:
        return ("no-run", json.dumps(r)[:200], "")
    o = r["outcomes"][0]
    return (o.get("kind"), o.get("value") if o.get("kind") == "ok" else o.get("message"), r.get("stdout", ""))


def model_lines(cases):
    lines = []
    for src, groups in cases:
        spec = ";".join(",".join("%d:%d:%s" % (f[0], f[1], common.hexs(f[2])) for f in g) for _, g in groups)
        lines.append("apply_fixes\t%s\t%s" % (common.hexs(src), spec or "-"))
    return lines


def model_apply(mdl, cases):
    rc, res, err = common.run_lines(mdl, [], model_lines(cases), shards=common.NCPU, timeout=900)
    out = []
    for l in res:
        if l.startswith("ok:"):
            out.append(common.unhex(l[3:]).decode("utf-8", "replace"))
        elif l == "panic":
            out.append(None)
        else:
            out.append("?" + l)
    while len(out) < len(cases):
        out.append("?missing " + str(err)[-200:])
    return out


# ---------------------------------------------------------------------------
# The search

def lint_class(groups):
    ds = sorted(set(f[3].split("`")[0].strip() for f in flat(groups)))
    return ",".join(ds)[:80] or "none"


def check_round(ctx, exe, mdl, items):
    """items: list of dict(src, orig (outcome of the very first program or None), round, root).
    Returns (next items, failures) where failures are (key, what, item, detail)."""
    srcs = [it["src"] for it in items]
    for it in items:
        it["seen"] = normalise(it["src"])      # the text `check` works on (offsets refer to it)
    groups_all, raw = hook_fixes(exe, [it["seen"] for it in items])
    cli = cli_fix(exe, srcs)
    fails = []
    fixed = []
    for it, groups, (rc, out, err), hr in zip(items, groups_all, cli, raw):
        it["groups"] = groups
        if groups is None:
            fails.append(("hook-fixes-failed", "the `fixes` hook gave no answer: %s" % json.dumps(hr)[:200], it, None))
            fixed.append(None)
            continue
        if rc != 0:
            key = "fix-panics" if rc == 101 or "panicked" in err else "fix-exit-status"
            fails.append((key, "`garden check --fix --stdout` exits with %d: %s" % (rc, err.strip()[:200]), it, None))
            fixed.append(None)
            continue
        fixed.append(out)
    # model correspondence + independent splice
    mcases = [(it["seen"], it["groups"]) for it, f in zip(items, fixed) if it.get("groups") is not None]
    mres = iter(model_apply(mdl, mcases)) if mdl else None
    for it, f in zip(items, fixed):
        if it.get("groups") is None:
            continue
        m = next(mres) if mres is not None else None
        if f is None:
            continue
        groups = it["groups"]
        nfix = len(flat(groups))
        ctx.stat("fix lists compared with the model")
        if mres is not None and m != f:
            ctx.stat("correspondence_mismatch")
            ctx.cov.setdefault("corr", [])
            if len(ctx.cov["corr"]) < 5:
                ctx.cov["corr"].append({"src": it["seen"], "groups": groups, "cli": f, "model": m})
        chosen, skipped = select_groups(groups)
        if skipped:
            ctx.stat("fix lists with overlapping groups (resolved by skipping a group)")
        elif nfix:
            ctx.stat("fix lists pairwise non-overlapping")
        if not ambiguous_same_point(chosen):
            want = simultaneous_splice(it["seen"], [x for g in chosen for x in g])
            if want != f:
                fails.append(("fix-not-a-splice",
                              "the fixed text is not the simultaneous splice of the non-overlapping fix groups"
                              + (" (offered fixes overlap)" if skipped else ""), it, {"expected": want, "got": f}))
        else:
            ctx.stat("fix lists with two edits at one offset (model only)")
    # parse + run of the fixed programs
    idx = [i for i, f in enumerate(fixed) if f is not None and f != items[i]["seen"]]
    okp, rawp = parses(exe, [fixed[i] for i in idx])
    runs = run_all(exe, [fixed[i] for i in idx])
    nxt = []
    for i, p, rp, rr in zip(idx, okp, rawp, runs):
        it = items[i]
        f = fixed[i]
        if not p:
            fails.append(("fixed-program-does-not-parse", "the program printed by --fix has parse errors: %s"
                          % json.dumps(rp.get("errors", rp))[:200], it, {"fixed": f}))
            continue
        if it["orig"] is not None and it["orig"][0] == "ok":
            o = outcome(rr)
            if o[0] == "no-run" and "panic" in rr:
                fails.append(("fixed-program-panics-the-evaluator",
                              "original: %r; the program after --fix crashes the interpreter: %s"
                              % (it["orig"], rr["panic"][:200]), it, {"fixed": f}))
                continue
            if o != it["orig"]:
                fails.append(("fixed-program-behaves-differently",
                              "original: %r; after --fix: %r" % (it["orig"], o), it, {"fixed": f}))
                continue
            ctx.stat("fixed programs run and compared")
        nxt.append({"src": f, "orig": it["orig"], "round": it["round"] + 1, "root": it["root"],
                    "trig": it.get("trig"), "tag": it.get("tag"),
                    "opswap": it.get("opswap") or any(x[3].startswith("Replace `") for x in flat(it["groups"]))})
    for i, f in enumerate(fixed):
        if f is not None and f == items[i]["seen"]:
            ctx.stat("fixed point reached after %d round(s)" % items[i]["round"])
    return nxt, fails


def violating(exe, srcs, key):
    """Which of these programs (each decided from scratch) violate `key`?  One batch per round for all of them."""
    ctx = common.Ctx("C22", "quick", 0)
    okp, _ = parses(exe, srcs)
    runs = run_all(exe, srcs)
    items = [{"src": s, "orig": outcome(r), "round": 0, "root": i} for i, (s, p, r) in enumerate(zip(srcs, okp, runs)) if p]
    bad = set()
    for rnd in range(MAX_ROUNDS + 1):
        items = [it for it in items if it["root"] not in bad]
        if not items:
            break
        if rnd == MAX_ROUNDS:
            if key == "no-fixed-point":
                bad |= set(it["root"] for it in items if not it.get("opswap"))
            break
        items, fails = check_round(ctx, exe, None, items)
        bad |= set(it["root"] for k, _, it, _ in fails if k == key)
    return bad


def violates(exe, src, key):
    return {key} if violating(exe, [src], key) else set()


def shrink(exe, src, key, rounds=14):
    """Line/chunk deletion keeping the violation; every round tries all deletions of one size in one batch."""
    lines = src.split("\n")
    chunk = max(1, len(lines) // 2)
    for _ in range(rounds):
        cands = [lines[:i] + lines[i + chunk:] for i in range(0, len(lines), chunk)]
        cands = [c for c in cands if c and c != lines]
        if not cands:
            break
        bad = violating(exe, ["\n".join(c) for c in cands], key)
        if bad:
            lines = min((cands[i] for i in bad), key=len)
        elif chunk == 1:
            break
        else:
            chunk = max(1, chunk // 2)
    return "\n".join(lines)


def report(ctx, exe, key, what, it, detail):
    seen = ctx.cov.setdefault("reported_keys", {})
    seen[key] = seen.get(key, 0) + 1
    ctx.stat("failing inputs " + key)
    if seen[key] > 1:
        return
    src = it["root"]
    small = shrink(exe, src, key) if key != "hook-fixes-failed" else src
    rc, out, err = cli_fix(exe, [small])[0]
    replay = {"program": small, "original_program": src, "round": it["round"],
              "command": "garden check --fix --stdout prog.gdn   (then `garden run` on both)",
              "cli_exit": rc, "cli_stdout": out, "cli_stderr": err[-500:], "detail": detail,
              "fixes_offered": it.get("groups")}
    ctx.violation("C22:" + key, what, replay)


def search(ctx, exe, mdl, progs, label):
    srcs = [p[0] for p in progs]
    okp, _ = parses(exe, srcs)
    runs = run_all(exe, srcs)
    items = []
    for (src, trig, tag), p, r in zip(progs, okp, runs):
        if not p:
            ctx.stat("generated programs that do not parse (skipped)")
            continue
        o = outcome(r)
        ctx.stat("original outcome " + str(o[0]))
        ctx.stat("layout " + tag)
        for k, v in trig.items():
            ctx.stat("trigger " + k, v)
        items.append({"src": src, "orig": o, "round": 0, "root": src, "trig": trig, "tag": tag})
    ctx.log("%s: %d programs" % (label, len(items)))
    first = True
    for rnd in range(MAX_ROUNDS + 1):
        if not items:
            break
        if rnd == MAX_ROUNDS:
            for it in items:
                if it.get("opswap"):
                    # error-severity suggestion (`*` <-> `*.` on a value of the empty type), not one of the lints
                    # the property quantifies over: counted and described in the notes, not a C22 violation
                    ctx.stat("outside the quantifier: int/float operator suggestion oscillates")
                    continue
                report(ctx, exe, "no-fixed-point", "`--fix` has not reached a fixed point after %d rounds" % MAX_ROUNDS, it, None)
            break
        nxt, fails = check_round(ctx, exe, mdl, items)
        if first:
            for it in items:
                g = it.get("groups") or []
                ctx.case({"src": it["src"]}, nontrivial=bool(flat(g)))
                ctx.stat("fixes offered " + ("0" if not flat(g) else "1" if len(flat(g)) == 1 else "2-4" if len(flat(g)) <= 4 else "5+"))
                for f in flat(g):
                    ctx.stat("fix kind: " + f[3].split("`")[0].strip()[:40])
            first = False
        for key, what, it, detail in fails:
            report(ctx, exe, key, what, it, detail)
        ctx.log("%s round %d: %d programs, %d changed, %d failures" % (label, rnd + 1, len(items), len(nxt), len(fails)))
        items = nxt


def run(ctx):
    ctx.trusted = [
        "Coq 8.16.1 kernel",
        "coq/Fixes.v as a reading of apply_fixes (src/syntax_check.rs) and get_line_position (src/checks/unused_literals.rs); Rust std str slicing / sort stability / char::is_whitespace modelled, not verified",
        "extraction (ExtrOcamlBasic) + ocaml/ops_fixes.ml glue (UTF-8 decoding, hex)",
        "cfg-gated hook ops fixes / run / sexp in src/verif_hooks.rs; the fixed text itself comes from the plain CLI",
        "generator tools/vplib/genprog.py + the trigger injection in tools/props/C22.py",
    ]
    coq_ok = ctx.coq("Properties/C22.v")
    exe = ctx.impl()
    if not exe:
        return
    mdl = ctx.model("fixes")
    probe = oracle.batch(exe, [{"op": "fixes", "src": "1\n"}], shards=1)
    if "fixes" not in probe[0]:
        ctx.broken("hook:fixes", "the `fixes` hook op is not available: %s" % json.dumps(probe[0])[:200])
        return
    n = int(os.environ.get("VERIF_C22_N", 4000 if ctx.thorough else 300))   # VERIF_C22_N: smoke runs only
    progs = [(s, {}, "hand") for s in HAND] + gen_programs(ctx.rng, n, size=6)
    if ctx.thorough:
        progs += gen_programs(ctx.rng, 1500, size=14)
    search(ctx, exe, mdl, progs, "generated")
    if ctx.stats.get("correspondence_mismatch"):
        ctx.broken("correspondence:apply_fixes", "model and `check --fix --stdout` differ on %d fix lists, e.g. %s"
                   % (ctx.stats["correspondence_mismatch"], json.dumps(ctx.cov.get("corr", [])[:1])[:1500]))
    if not coq_ok:
        ctx.log("Coq obligations not discharged; the search above is the source of replays")
    ctx.notes.append("theorems: apply_fixes_* and line_removal_* are over Fixes.v; parse/run/convergence are search only")


def replay(ctx, rp):
    exe = ctx.impl()
    src = rp.get("program") or rp.get("original_program")
    key = rp.get("key", "").replace("C22:", "")
    keys = violates(exe, src, key)
    print("program:\n" + src)
    print("violated:", sorted(keys))
    return 1 if keys else 0
