"""C23 -- Reported source positions are consistent (lexer part: proof; AST / diagnostics / runtime positions: search)."""
import json
import os
import re
import shutil
import tempfile

from vplib import common, oracle
from props import C01 as L

LEVEL = "proof"
RULE = ("Coq: Properties/C23.v (lex_positions_wf for ALL sources, merge_wf, from_offset_correct over coq/Lex.v). "
        "Dynamic: (1) extracted lexer model vs hook op `lex`: identical token texts, all six position fields, comments, "
        "errors on generated sources (programs, token/char mutations, all strings of length <= 3 over a 20-symbol "
        "alphabet); (2) for EVERY position the implementation reports -- lexer hook (tokens, comments, errors), hook "
        "`sexp` with positions (every AST node and parse error), `garden check --json` diagnostics, JSON-session "
        "runtime error positions -- line/column are recomputed from the byte offsets independently in Python "
        "(count of LF before the offset; bytes since the last LF) and offsets are checked to be ordered, inside the "
        "file and on char boundaries. Inputs contain multi-line strings and non-ASCII text. A case is non-trivial "
        "when its source has a multi-line token or a non-ASCII character.")
META = {
    "technique": ("Coq proof over an executable model of lex.rs and Position::merge + differential execution of the "
                  "extracted model vs the real lexer + independent recomputation of every reported position"),
    "level_text": ("LEXER PART (proved): Coq theorem lex_positions_wf: for ALL sources every token, comment and lex-error "
                   "position has start <= end <= file length, both offsets on char boundaries, (line, column) and "
                   "(end_line, end_column) equal to the line/column of the start/end offset computed independently "
                   "from the text; merge_wf: Position::merge of two consistent positions is consistent (no ordering "
                   "hypothesis needed); from_offset_correct. AST-LEVEL PART (positions built by the parser, checker "
                   "diagnostics, runtime errors): NOT proved here -- it belongs to the parser model; this check covers "
                   "it by recomputing every reported position on generated inputs."),
    "level_note": ("Trusted: Coq kernel; the meaning given to Rust str/regex/line_numbers operations in coq/Lex.v "
                   "(modelled, not verified); extraction + ocaml/ops_lex.ml; the cfg-gated hook ops lex/sexp; the "
                   "Python recomputation of line/column. `garden check --json` reports no offsets: only "
                   "(line, column) pairs can be checked there (exist in the file, on a char boundary, start <= end)."),
    "design_ref": "DESIGN.md §5 C23, §8 item 17",
}

POS_RE = re.compile(r"@(\d+):(\d+):(\d+):(\d+):(\d+):(\d+) ")


def pos_class(src, p, problem):
    b = src.encode("utf-8")
    multi = b"\n" in b[p[0]:p[1]] if 0 <= p[0] <= p[1] <= len(b) else False
    what = "end-line-column" if problem.startswith("end line") else "line-column" if problem.startswith("line") else \
        "char-boundary" if "inside a character" in problem else "offsets"
    return "%s:%s" % (what, "multi-line-span" if multi else "non-ascii" if not src.isascii() else "ascii")


def linecol_problem(b, line, col):
    """(0-based line, byte column) must designate a char boundary of an existing line."""
    lines = b.split(b"\n")
    if line < 0 or line >= len(lines):
        return "line %d does not exist (file has %d lines)" % (line, len(lines))
    if col > len(lines[line]):
        return "column %d past the end of line %d (length %d)" % (col, line, len(lines[line]))
    off = sum(len(x) + 1 for x in lines[:line]) + col
    if not L.is_boundary(b, off):
        return "column %d of line %d is inside a character" % (col, line)
    return None


RUNTIME_TAILS = ["s + 1", "undefined_fn(s)", "[1, 2].get(\n 5)", "1 / 0", "assert(s == 1)", "s.no_such_method()",
                 "foo(\"é\n\")", "let (a, b) = s", "\"x\ny\" + 1", "(1 + \"é\n€\")", "[s, \"q\nr\" - 2]", "None.or_throw()"]
RUNTIME_HEADS = ["let s = \"é\n€\"\n", "// é €\nlet s = \"a\nb\nc\" ", "let s = 1\n", "let s = \"😀\" \"multi\n\nline\" ",
                 "let s = \"a\\\\\"\n\n", "\tlet s = \"é\"\n  "]


def lsp_definition_stage(ctx, exe, rng, n_projects):
    """Positions that cross files: go-to-definition over LSP on symbols defined in an IMPORTED file (and in the file itself).
    The returned location must name the defining file and its range must cover exactly the definition's name there, in
    UTF-16 columns of THAT file's text (both files contain non-ASCII text of different lengths)."""
    import json as _json
    import os
    import shutil
    import tempfile
    from vplib import oracle
    wide = ["é", "я", "€", "語", "\U0001F600"]

    def u16(s):
        return sum(2 if ord(c) > 0xFFFF else 1 for c in s)
    for pi in range(n_projects):
        d = tempfile.mkdtemp(dir=oracle.scratch_dir())
        try:
            pad = lambda k: "".join(rng.choice(wide) for _ in range(k))
            names = ["libfun%d_%d" % (pi, i) for i in range(rng.randrange(2, 5))]
            lib_lines, where = [], {}
            for nm in names:
                lib_lines.append("// " + pad(rng.randrange(0, 30)))
                pre = rng.choice(["public fun ", "public fun ", "/* x */ public fun ".replace("/* x */ ", "")])
                where[nm] = (len(lib_lines), pre)
                lib_lines.append("%s%s(x: Int): Int { x + %d } // %s" % (pre, nm, rng.randrange(9), pad(rng.randrange(0, 8))))
            lib = "\n".join(lib_lines) + "\n"
            main_lines = ['import "./lib.gdn"', "// " + pad(rng.randrange(0, 60))]
            calls = []
            for nm in names:
                lead = 'let s%d = "%s" ' % (len(main_lines), pad(rng.randrange(0, 10)))
                calls.append((len(main_lines), u16(lead), nm))
                main_lines.append(lead + "%s(1)" % nm)
            main_lines += ["fun local_fn%d(): Int { 1 }" % pi]
            calls.append((len(main_lines), 0, "local_fn%d" % pi))
            main_lines.append("local_fn%d()" % pi)
            main = "\n".join(main_lines) + "\n"
            open(os.path.join(d, "lib.gdn"), "w").write(lib)
            open(os.path.join(d, "main.gdn"), "w").write(main)
            uri = "file://" + os.path.join(d, "main.gdn")
            msgs = [{"jsonrpc": "2.0", "method": "textDocument/didOpen",
                     "params": {"textDocument": {"uri": uri, "languageId": "garden", "version": 1, "text": main}}}]
            for i, (ln, col, nm) in enumerate(calls):
                msgs.append({"jsonrpc": "2.0", "id": i + 1, "method": "textDocument/definition",
                             "params": {"textDocument": {"uri": uri}, "position": {"line": ln, "character": col + 1}}})
            rq = os.path.join(d, "req.jsonl")
            open(rq, "w").write("".join(_json.dumps(m) + "\n" for m in msgs))
            rc, out, err = oracle.garden_cli(exe, ["reftest-lsp", rq], timeout=60, cwd=d)
            dec, idx, resp = _json.JSONDecoder(), 0, {}
            while idx < len(out):
                while idx < len(out) and out[idx].isspace():
                    idx += 1
                if idx >= len(out):
                    break
                try:
                    obj, idx = dec.raw_decode(out, idx)
                except ValueError:
                    break
                if isinstance(obj, dict) and "id" in obj:
                    resp[obj["id"]] = obj
            for i, (ln, col, nm) in enumerate(calls):
                ctx.case({"lsp_definition": nm}, not nm.startswith("local"))
                ctx.stat("lsp definition " + ("same file" if nm.startswith("local") else "imported file"))
                r = (resp.get(i + 1) or {}).get("result")
                loc = r[0] if isinstance(r, list) and r else r
                if nm.startswith("local"):
                    text, fname = main, "main.gdn"
                    dl = [k for k, l in enumerate(main_lines) if l.startswith("fun " + nm)][0]
                    dc = u16("fun ")
                else:
                    text, fname = lib, "lib.gdn"
                    dl = where[nm][0]
                    dc = u16(where[nm][1])
                want = {"start": {"line": dl, "character": dc}, "end": {"line": dl, "character": dc + u16(nm)}}
                ok = isinstance(loc, dict) and str(loc.get("uri", "")).endswith("/" + fname) and loc.get("range") == want
                if not ok:
                    ctx.violation("C23:lsp-definition-range:" + ("same-file" if nm.startswith("local") else "imported-file"),
                                  "go-to-definition on `%s` answers %s; the definition's name is at %s of %s (stderr: %s)"
                                  % (nm, _json.dumps(loc)[:200], _json.dumps(want), fname, err.strip()[-200:]),
                                  {"files": {"main.gdn": main, "lib.gdn": lib}, "requests": msgs, "observed": loc, "expected": {"file": fname, "range": want},
                                   "cli_command": "garden reftest-lsp <requests.jsonl> (uris point at the directory holding the two files)"})
                    return
        finally:
            shutil.rmtree(d, ignore_errors=True)


def run(ctx):
    ctx.trusted = L.TRUSTED + ["tools/props/C01.py line_col / pos_problem (independent recomputation of positions)"]
    ctx.coq("Properties/C23.v")
    exe = ctx.impl()
    mdl = ctx.model()
    if not exe:
        return
    rng = ctx.rng
    b = L.budgets(ctx)
    if not ctx.thorough:
        b.update(n_prog=400, n_tokmut=600, n_charmut=1200)
    sources = L.gen_sources(rng, **b)
    impl, model = L.lex_correspondence(ctx, exe, mdl, sources)

    def nontrivial(s):
        return (not s.isascii()) or ("\"" in s and "\n" in s)

    def report(where, src, p, problem, cli):
        ctx.violation("C23:%s:%s" % (where, pos_class(src, p, problem)),
                      "%s reports position %s for %r: %s" % (where, p, src[:120], problem),
                      {"input": src, "observed": {"position": p, "problem": problem},
                       "expected": "start<=end<=len, char boundaries, line/column of the offsets", "cli_command": cli})

    # ---- lexer positions -----------------------------------------------------------
    for (kind, s), c in zip(sources, impl):
        r = L.parse_canon(c)
        ctx.case({"lex": s}, nontrivial(s))
        if r is None:
            ctx.stat("lexer no-result")      # a crash: C01's business, but a position cannot be checked
            continue
        bs = s.encode("utf-8")
        allp = [t[0] for t in r["tokens"]] + [cp for t in r["tokens"] for (cp, _) in t[2]] + \
               [cp for (cp, _) in r["trailing"]] + [e[0] for e in r["errors"]]
        for p in allp:
            ctx.stat("lexer positions")
            pr = L.pos_problem(bs, p)
            if pr:
                report("lexer", s, p, pr, "echo '{\"op\":\"lex\",\"src\":...}' | garden verif-batch")
        for (p, text, _) in r["tokens"]:
            if bs[p[0]:p[1]] != text:
                report("lexer-text", s, p, "token text differs from the source between its offsets",
                       "echo '{\"op\":\"lex\",\"src\":...}' | garden verif-batch")

    # ---- AST node positions (hook sexp with positions) -------------------------------
    srcs = [s for (k, s) in sources if k != "small"] + [s for (k, s) in sources if k == "small"][::7]
    ctx.log("parsing %d sources with positions" % len(srcs))
    pr_ = oracle.batch(exe, [{"op": "sexp", "src": s, "positions": True} for s in srcs])
    for s, r in zip(srcs, pr_):
        if "items" not in r:
            ctx.stat("ast no-result")
            continue
        bs = s.encode("utf-8")
        ctx.case({"ast": s}, nontrivial(s))
        for it in r["items"]:
            for m in POS_RE.finditer(it):
                p = [int(x) for x in m.groups()]
                ctx.stat("ast positions")
                prob = L.pos_problem(bs, p)
                if prob:
                    report("ast", s, p, prob, "echo '{\"op\":\"sexp\",\"positions\":true,\"src\":...}' | garden verif-batch")
        for e in r.get("errors", []):
            ctx.stat("parse-error positions")
            prob = L.pos_problem(bs, e["pos"])
            if prob:
                report("parse-error", s, e["pos"], prob, "garden check --json <file>")

    # ---- garden check --json ------------------------------------------------------------
    pool = [s for (k, s) in sources if k in ("template", "program", "token-mutation", "char-mutation") and nontrivial(s)]
    sample = pool if len(pool) <= (600 if ctx.thorough else 90) else rng.sample(pool, 600 if ctx.thorough else 90)
    ctx.log("garden check --json on %d sources" % len(sample))

    def check_json(s):
        d = tempfile.mkdtemp(dir=oracle.scratch_dir())
        try:
            p = os.path.join(d, "input.gdn")
            with open(p, "wb") as f:
                f.write(s.encode("utf-8"))
            rc, out, err = oracle.garden_cli(exe, ["check", "--json", p], timeout=30, cwd=d)
            return rc, oracle.parse_json_stream(out), err
        finally:
            shutil.rmtree(d, ignore_errors=True)
    import concurrent.futures
    with concurrent.futures.ThreadPoolExecutor(common.NCPU) as ex:
        results = list(ex.map(check_json, sample))
    for s, (rc, diags, err) in zip(sample, results):
        bs = s.encode("utf-8")
        ctx.case({"check": s}, True)
        if rc == 101 or "panicked at" in err:
            ctx.stat("check crashed")
            continue
        for dg in diags:
            if not isinstance(dg, dict) or "line_number" not in dg:
                continue
            ctx.stat("check --json positions")
            l, el, c, ec = dg["line_number"] - 1, dg["end_line_number"] - 1, dg["column"], dg["end_column"]
            prob = linecol_problem(bs, l, c) or linecol_problem(bs, el, ec)
            if not prob and (l, c) > (el, ec):
                prob = "start (line, column) after the end"
            if prob:
                ctx.violation("C23:check-json:%s" % ("non-ascii" if not s.isascii() else "ascii"),
                              "`garden check --json` diagnostic %s for %r: %s" % (dg, s[:120], prob),
                              {"input": s, "observed": dg, "expected": "existing line/column on a char boundary",
                               "cli_command": "garden check --json <file containing input>"})

    # ---- JSON session runtime error positions -----------------------------------------
    rsrc = [h + t for h in RUNTIME_HEADS for t in RUNTIME_TAILS]
    ctx.log("evaluating %d erroring programs in the JSON session" % len(rsrc))
    for i in range(0, len(rsrc), 24):
        chunk = rsrc[i:i + 24]
        todo = list(chunk)
        while todo:
            resps, err, rc = oracle.run_session_raw(exe, [{"method": "run", "input": s} for s in todo], timeout=120)
            g = [x for x in oracle.group_responses(resps)]
            for s, (r, _, _) in zip(todo, g):
                ctx.case({"session": s}, True)
                v = r.get("kind", {}).get("evaluate", {}).get("value", {})
                for e in (v.get("Err") or []):
                    pos = e.get("position")
                    if not pos or pos.get("path") != "__user.gdn":
                        ctx.stat("session error without user position")
                        continue
                    p = [pos["start_offset"], pos["end_offset"], pos["line_number"], pos["end_line_number"],
                         pos["column"], pos["end_column"]]
                    ctx.stat("session error positions")
                    prob = L.pos_problem(s.encode("utf-8"), p)
                    if prob:
                        report("json-session", s, p, prob, "garden json  # {\"method\":\"run\",\"input\":...}")
            done = min(len(g), len(todo))
            if done < len(todo):
                ctx.stat("session died")       # a crash is C02/C09's business
                todo = todo[done + 1:]
            else:
                todo = []
    ctx.notes.append("AST / diagnostic / runtime positions: checked by recomputation on generated inputs, not proved "
                     "(parser model is a separate deliverable); lexer positions and Position::merge: proved")
    ctx.notes.append("go-to-definition positions are not exercised by this driver (LSP: see C29)")
    lsp_definition_stage(ctx, exe, rng, 40 if ctx.thorough else 8)


def replay(ctx, rp):
    exe = ctx.impl()
    s = rp["input"]
    bs = s.encode("utf-8")
    bad = 0
    r = oracle.batch(exe, [{"op": "lex", "src": s}, {"op": "sexp", "src": s, "positions": True}], shards=1)
    c = L.parse_canon(L.canon_hook(r[0]))
    if c:
        for t in c["tokens"]:
            pr = L.pos_problem(bs, t[0])
            if pr:
                bad += 1
                print("lexer:", t[0], pr)
    for it in r[1].get("items", []):
        for m in POS_RE.finditer(it):
            p = [int(x) for x in m.groups()]
            pr = L.pos_problem(bs, p)
            if pr:
                bad += 1
                print("ast:", p, pr)
    print("input:", repr(s), "| inconsistent positions now:", bad, "| recorded:", json.dumps(rp.get("observed"))[:200])
    return 1 if bad else 0
