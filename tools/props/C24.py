"""C24 -- Sandboxed code cannot touch files, processes or stdin."""
import concurrent.futures
import hashlib
import json
import os
import re
import shutil
import subprocess
import sys
import tempfile
import time

from vplib import common, oracle

LEVEL = "proof"
RULE = ("Coq: Properties/C24.v over gen/Builtins.v (one row per BuiltInFunctionKind / BuiltInMethodKind variant, "
        "regenerated from eval.rs by tools/gen_builtins.py on every run) and the audited classification in Sandbox.v. "
        "Dynamic: every built-in audited as effectful is called through the real binary in sandboxed mode "
        "(`garden playground-run` and `garden sandboxed-test`) in 9 + 4 syntactic positions x 4 argument shapes, in a "
        "private temp directory that is snapshotted before/after (path, type, size, mtime, sha256), with canary "
        "executables first on PATH, a secret file, and stdin connected to an open pipe holding a secret line; a case "
        "fails when anything in the directory changed, a canary ran, stdin was consumed or blocked on, a secret shows "
        "up in the output, the process crashed, or a well-formed call was not answered with the sandbox refusal. "
        "Every built-in audited as harmless is also run once under the same harness (validates the audit). A case is "
        "non-trivial when the call is well-formed (it would have had an observable effect outside the sandbox: "
        "checked by a control run of the same program through `garden run`).")
META = {
    "technique": "Coq proof over a translator-generated table of built-in arms (sandbox test dominates first effect) + "
                 "sandboxed execution of every effectful built-in on the real binary under an effect-detecting harness",
    "level_text": ("Coq theorems all_kinds_classified / effectful_guarded / pure_rows_have_no_effect_call: in the "
                   "CURRENT source every built-in function and method (table exhaustive over both enums by the "
                   "translator's self-check, re-counted in Coq) is audited; every one that can touch files, processes "
                   "or stdin tests env.enforce_sandbox in a top-level `if` returning ForbiddenInSandbox as its first "
                   "statement (or before its first effectful Rust call); every other arm contains no std::fs / File / "
                   "Command / stdin / chdir / path-probe call and reaches none through free helper functions; both sandbox entry points set enforce_sandbox before "
                   "evaluating. Abstract lemma: a guard preceding all effects makes a sandboxed arm emit none."),
    "level_note": ("Trusted: Coq kernel; tools/gen_builtins.py (textual arm analysis; dominance approximated by textual "
                   "order of top-level statements; effectful Rust calls recognised by a pattern list, in the arm itself and "
                   "transitively through crate-level free helper functions -- associated functions and methods called "
                   "from an arm are NOT followed); the hand audit "
                   "in coq/Sandbox.v of what each built-in can do (ReflectSourceFile's std::fs::canonicalize of the "
                   "program's own path, ShellGetEnv, set/get working_directory which only touch Env fields, are audited "
                   "as NOT file/process/stdin effects). Not modelled: effects reachable other than through a built-in "
                   "arm (`import` of a user file reads it from disk even in sandboxed mode; nothing else was found by "
                   "grep of std::fs/process/stdin in src/). The step-level statement `sandbox_no_effect` on the "
                   "machine model (DESIGN section 5) is not proved; the search covers it dynamically."),
    "design_ref": "DESIGN.md §5 C24",
}

REFUSAL = "Tried to execute unsafe code in sandboxed mode"
SECRET_FILE = "FILE-SECRET-7f3a"
SECRET_STDIN = "STDIN-SECRET-91c2"
CANARY_NAMES = ["canary-cmd", "ls", "sh", "echo", "true", "cat", "touch", "rm", "env", "bash"]


# --------------------------------------------------------------------------
# table + audit

def load_table(ctx):
    d = tempfile.mkdtemp(dir=oracle.scratch_dir())
    try:
        jf = os.path.join(d, "table.json")
        rc, out, err = common.sh([sys.executable, os.path.join(common.VERIF, "tools", "gen_builtins.py"),
                                  "--repo", common.REPO, "--out", d, "--json", jf], timeout=120)
        if rc != 0:
            ctx.broken("translator:gen_builtins", (out + err)[-1500:])
            return None
        return json.load(open(jf))
    finally:
        shutil.rmtree(d, ignore_errors=True)


def load_audit():
    src = open(os.path.join(common.COQ, "Sandbox.v")).read()
    res = {}
    for m in re.finditer(r'\((KFunction|KMethod),\s*"(\w+)",\s*(Effectful|NoOsEffect)\)', src):
        res[(m.group(1), m.group(2))] = m.group(3)
    return res


# --------------------------------------------------------------------------
# how each built-in is called

NS_ALIAS = {"__fs.gdn": "fs", "__shell.gdn": "shell", "__reflect.gdn": "reflect", "__random.gdn": "random",
            "__time.gdn": "time", "__prelude.gdn": None}


def gstr(s):
    return '"' + s.replace("\\", "\\\\").replace('"', '\\"') + '"'


def path_lit(p):
    return "Path{ p: %s }" % gstr(p)


def good_args(variant, d):
    """Well-formed arguments that WOULD have an observable effect inside directory d."""
    j = lambda n: os.path.join(d, n)
    t = {
        "FsWriteFile": [gstr("written"), path_lit(j("created.txt"))],
        "FsWriteBytes": ["[104, 105]", path_lit(j("created.bin"))],
        "FsCreateDir": [path_lit(j("newdir"))],
        "FsRemoveDir": [path_lit(j("emptydir"))],
        "FsRemoveFile": [path_lit(j("victim.txt"))],
        "FsCopyFile": [path_lit(j("secret.txt")), path_lit(j("copy.txt"))],
        "FsReadFile": [path_lit(j("secret.txt"))],
        "FsReadFileBytes": [path_lit(j("secret.txt"))],
        "FsListDirectory": [path_lit(d)],
        "ShellRun": [gstr("canary-cmd"), "[%s]" % gstr("x")],
        "PreludeReadLine": [],
        # checking the snippet loads its import: a FIFO blocks the reader, a missing file is reported
        "ReflectCheckSnippet": ['"import \\"%s\\" as s  1"' % j("fifo.gdn"), path_lit(j("snippet.gdn"))],
    }
    return t.get(variant)


def good_receiver(variant, d):
    j = lambda n: os.path.join(d, n)
    return {"PathExists": path_lit(j("secret.txt")), "PathInfo": path_lit(j("secret.txt"))}.get(variant)


HARMLESS_CALLS = {     # NoOsEffect built-ins: one plausible call each (audit validation)
    "PreludeDbg": "dbg(1)", "PreludeEprint": 'eprint("e")', "PreludeEprintln": 'eprintln("e")',
    "PreludePrint": 'print("p")', "PreludePrintln": 'println("p")', "PreludeShellArguments": "shell_arguments()",
    "PreludeStringRepr": "string_repr([1])", "PreludeThrow": 'throw("boom")',
    "ShellGetEnv": 'shell::get_env("PATH")', "ShellIsTty": "shell::is_tty()",
    "FsSetWorkingDirectory": "fs::set_working_directory(Path{ p: \"/\" })", "FsWorkingDirectory": "fs::working_directory()",
    "RandomRandomInt": "random::int()", "ReflectBuiltInFiles": "reflect::built_in_files()",
    "ReflectDocComment": 'reflect::doc_comment(reflect, "lex")',
    "ReflectDocCommentForMethod": 'reflect::doc_comment_for_method("String", "len")',
    "ReflectDocCommentForType": 'reflect::doc_comment_for_type("String")', "ReflectKeywords": "reflect::keywords()",
    "ReflectLex": 'reflect::lex("1 + 2")', "ReflectMethodsForType": 'reflect::methods_for_type("String")',
    "ReflectNamespaceFunctions": "reflect::namespace_functions(reflect)", "ReflectPreludeTypes": "reflect::prelude_types()",
    "ReflectSourceFile": "reflect::source_file()", "ReflectSourceForFun": 'reflect::source_for_fun(reflect, "lex")',
    "ReflectSourceForMethod": 'reflect::source_for_method("String", "len")',
    "ReflectSourceForType": 'reflect::source_for_type("Option")', "TimeUnixtime": "time::unixtime()",
    "DictGet": 'Dict["a" => 1].get("a")', "DictItems": 'Dict["a" => 1].items()',
    "DictRemove": 'Dict["a" => 1].remove("a")', "DictSet": 'Dict["a" => 1].set("b", 2)', "FloatCeil": "1.5.ceil()", "FloatFloor": "1.5.floor()", "IntAsFloat": "1.as_float()",
    "ListAppend": "[1].append(2)", "ListContains": "[1].contains(1)", "ListGet": "[1].get(0)", "ListLen": "[1].len()",
    "ListSlice": "[1, 2].slice(0, 1)", "StringAsInt": '"12".as_int()', "StringChars": '"ab".chars()',
    "StringIndexOf": '"ab".index_of("b")', "StringJoin": '",".join(["a", "b"])', "StringLen": '"ab".len()',
    "StringLines": '"a\\nb".lines()', "StringStartsWith": '"ab".starts_with("a")', "StringEndsWith": '"ab".ends_with("b")',
    "StringSubstring": '"abc".substring(0, 1)',
}

IMPORTS = ('import "__fs.gdn" as fs\nimport "__shell.gdn" as shell\nimport "__reflect.gdn" as reflect\n'
           'import "__random.gdn" as random\nimport "__time.gdn" as time\n')


def call_text(row, kind, args, receiver=None):
    if kind == "KMethod":
        return "%s.%s(%s)" % (receiver, row["name"], ", ".join(args))
    alias = NS_ALIAS.get(row["ns"], None)
    fn = row["name"] if alias is None else "%s::%s" % (alias, row["name"])
    return "%s(%s)" % (fn, ", ".join(args))


def arg_shapes(row, kind, d):
    """[(label, call_text, wellformed)]"""
    v = row["variant"]
    if kind == "KMethod":
        recv = good_receiver(v, d) or path_lit(os.path.join(d, "secret.txt"))
        good = []
    else:
        recv = None
        good = good_args(v, d)
        if good is None:        # an effectful built-in this driver has no template for: strings of the right arity
            good = [path_lit(os.path.join(d, "secret.txt"))] * (row.get("arity") or 0)
    res = [("good", call_text(row, kind, good, recv), True)]
    res.append(("extra-arg", call_text(row, kind, good + ["1"], recv), False))
    if good:
        res.append(("missing-arg", call_text(row, kind, good[:-1], recv), False))
        res.append(("wrong-type", call_text(row, kind, ["Unit"] + good[1:], recv), False))
    else:
        res.append(("two-extra-args", call_text(row, kind, ["1", gstr("x")], recv), False))
        if kind == "KMethod":
            res.append(("relative-path", call_text(row, kind, [], path_lit("secret.txt")), True))
    return res


PLAY_POSITIONS = [
    ("toplevel", "%(call)s\n"),
    ("toplevel-let", "let r = %(call)s\nr\n"),
    ("in-function", "fun f() {\n  %(call)s\n}\nf()\n"),
    ("in-closure-map", "[1, 2].map(fun(_x) { %(call)s })\n"),
    ("in-test-block", "test t {\n  %(call)s\n}\n"),
    ("in-method", "struct S { n: Int }\nmethod go(this: S) {\n  %(call)s\n}\nS{ n: 1 }.go()\n"),
    ("as-argument", "println(string_repr(%(call)s))\n"),
    ("in-loop-and-if", "let i = 0\nwhile i < 2 {\n  if True {\n    %(call)s\n  }\n  i += 1\n}\n"),
    ("after-output", "println(\"before\")\nlet v = [%(call)s]\nprintln(\"after\")\nv\n"),
    # the sandbox must still be on after an earlier item of the same run has completed
    ("toplevel-after-passing-test", "test p0 {\n  assert(1 == 1)\n}\n%(call)s\n"),
    ("second-test-block", "test p0 {\n  assert(1 == 1)\n}\ntest t {\n  %(call)s\n}\n"),
]
TEST_POSITIONS = [      # (label, body, where the offset points: 'test' or 'fun')
    ("test-direct", "test t {\n  %(call)s\n}\n", "test"),
    ("test-calls-function", "fun f() {\n  %(call)s\n}\n\ntest t {\n  f()\n}\n", "test"),
    ("test-closure-map", "test t {\n  [1, 2].map(fun(_x) { %(call)s })\n}\n", "test"),
    ("offset-in-function", "fun f() {\n  %(call)s\n}\n\ntest t {\n  f()\n}\n", "fun"),
    # cursor outside every test: all tests of the file run, the one with the call after a completed one
    ("all-tests-second", "// all tests\ntest p0 {\n  assert(1 == 1)\n}\n\ntest t {\n  %(call)s\n}\n", "outside"),
]


# --------------------------------------------------------------------------
# the harness

def snapshot(d):
    snap = {}
    for root, dirs, files in os.walk(d):
        for n in dirs + files:
            p = os.path.join(root, n)
            rel = os.path.relpath(p, d)
            try:
                st = os.lstat(p)
            except OSError:
                continue
            if os.path.isfile(p) and not os.path.islink(p):
                try:
                    h = hashlib.sha256(open(p, "rb").read()).hexdigest()[:16]
                except OSError:
                    h = "unreadable"
                snap[rel] = ("file", st.st_size, st.st_mtime_ns, st.st_mode, h)
            else:
                snap[rel] = ("dir" if os.path.isdir(p) else "other", 0, 0, st.st_mode, "")
    return snap


def prepare_dir():
    d = tempfile.mkdtemp(prefix="c24-", dir=oracle.scratch_dir())
    os.mkdir(os.path.join(d, "bin"))
    os.mkdir(os.path.join(d, "emptydir"))
    with open(os.path.join(d, "secret.txt"), "w") as f:
        f.write(SECRET_FILE + "\n")
    with open(os.path.join(d, "victim.txt"), "w") as f:
        f.write("victim\n")
    os.mkfifo(os.path.join(d, "fifo.gdn"))      # reading it blocks: detects hidden file reads
    for n in CANARY_NAMES:
        p = os.path.join(d, "bin", n)
        with open(p, "w") as f:
            f.write("#!/bin/sh\necho ran-%s >> '%s'\n" % (n, os.path.join(d, "CANARY_RAN")))
        os.chmod(p, 0o755)
    return d


def run_case(exe, mode, prog_template, offset_kind, timeout):
    """Run one program in a fresh directory. Returns a dict of observations."""
    d = prepare_dir()
    try:
        src = prog_template.replace("@DIR@", d)
        pth = os.path.join(d, "prog.gdn")
        with open(pth, "w") as f:
            f.write(src)
        if mode == "playground":
            cmd = [exe, "playground-run", pth]
        elif mode == "control":
            cmd = [exe, "run", pth]
        else:
            key = "test t" if offset_kind == "test" else "fun f"
            off = src.index(key) + 2 if (key in src and offset_kind != "outside") else 0
            cmd = [exe, "sandboxed-test", pth, str(off)]
        before = snapshot(d)
        env = dict(os.environ)
        env["PATH"] = os.path.join(d, "bin") + os.pathsep + env.get("PATH", "")
        env["RUST_BACKTRACE"] = "0"
        r, w = os.pipe()
        payload = (SECRET_STDIN + "\nsecond line\n").encode()
        os.write(w, payload)
        t0 = time.time()
        timed_out = False
        try:
            p = subprocess.run(cmd, stdin=r, capture_output=True, timeout=timeout, cwd=d, env=env)
            rc, out, err = p.returncode, p.stdout.decode("utf-8", "replace"), p.stderr.decode("utf-8", "replace")
        except subprocess.TimeoutExpired as e:
            timed_out = True
            rc, out, err = 124, (e.stdout or b"").decode("utf-8", "replace"), (e.stderr or b"").decode("utf-8", "replace")
        os.set_blocking(r, False)
        try:
            left = os.read(r, 65536)
        except BlockingIOError:
            left = b""
        os.close(r)
        os.close(w)
        after = snapshot(d)
        changes = []
        for k in sorted(set(before) | set(after)):
            if before.get(k) != after.get(k):
                changes.append("%s: %s -> %s" % (k, "absent" if k not in before else before[k][0],
                                                 "absent" if k not in after else after[k][0] + (" (modified)" if k in before else "")))
        return {"rc": rc, "stdout": out, "stderr": err, "timeout": timed_out, "wall": time.time() - t0,
                "fs_changes": changes, "canary": os.path.exists(os.path.join(d, "CANARY_RAN")),
                "stdin_consumed": left != payload, "src": src, "cmd": " ".join(["garden"] + cmd[1:]).replace(d, "<dir>"),
                "dir": d}
    finally:
        shutil.rmtree(d, ignore_errors=True)


def effects_of(o):
    """List of observed forbidden effects."""
    eff = []
    if o["fs_changes"]:
        eff.append("directory changed: " + "; ".join(o["fs_changes"][:4]))
    if o["canary"]:
        eff.append("a process was started (canary ran)")
    if o["stdin_consumed"]:
        eff.append("standard input was read")
    if o["timeout"]:
        eff.append("did not finish within the timeout (blocked?)")
    text = o["stdout"] + o["stderr"]
    if SECRET_FILE in text or ", ".join(str(b) for b in SECRET_FILE.encode()[:6]) in text:
        eff.append("file content appears in the output")
    if SECRET_STDIN in text:
        eff.append("stdin content appears in the output")
    if "victim.txt" in text and "secret.txt" in text:
        eff.append("directory listing appears in the output")
    if o["rc"] in (101, 134, 139) or o["rc"] < 0 or "panicked at" in o["stderr"]:
        eff.append("the interpreter crashed (rc %s)" % o["rc"])
    return eff


def refused(mode, label, o):
    """Did the run end with the sandbox refusal?"""
    out = o["stdout"]
    if mode == "playground":
        if label in ("in-test-block", "second-test-block"):
            # a test that hits the sandbox is reported as failed and the run goes on
            return '"error":null' in out and "Failed: t" in out
        lines = [l for l in out.strip().split("\n") if l.strip()]
        if not lines:
            return False
        try:
            last = json.loads(lines[-1])
        except ValueError:
            return False
        return last.get("error") == REFUSAL
    try:
        j = json.loads(out.strip().split("\n")[-1])
    except (ValueError, IndexError):
        return False
    t = j.get("tests", {}).get("t", {})
    return t.get("description") == "sandboxed"


def run(ctx):
    ctx.trusted = [
        "Coq 8.16.1 kernel (coqc); vm_compute over the finite generated table",
        "tools/gen_builtins.py translator (textual analysis of the arms of eval_built_in_call / eval_built_in_method_call; "
        "dominance = textual order of top-level statements; effect-call pattern list)",
        "coq/Sandbox.v hand audit of which built-ins can touch files/processes/stdin",
        "the harness of this driver (directory snapshot, PATH canaries, stdin pipe accounting) and the OS",
    ]
    ctx.coq("Properties/C24.v")
    exe = ctx.impl()
    if not exe:
        return
    table = load_table(ctx)
    if table is None:
        return
    audit = load_audit()
    rows = [("KFunction", r) for r in table["functions"]] + [("KMethod", r) for r in table["methods"]]
    unknown = [r["variant"] for k, r in rows if (k, r["variant"]) not in audit]
    if unknown:
        ctx.broken("audit:unclassified-built-ins", "not in coq/Sandbox.v audited list: " + ", ".join(unknown))
    effectful = [(k, r) for k, r in rows if audit.get((k, r["variant"])) == "Effectful" or (k, r["variant"]) not in audit]
    harmless = [(k, r) for k, r in rows if audit.get((k, r["variant"])) == "NoOsEffect"]
    ctx.cov["effectful_builtins"] = [r["variant"] for _, r in effectful]
    timeout = 12

    cases = []      # (key parts, mode, label, template, offkind, wellformed, call)
    for k, r in effectful:
        for alabel, call, wf in arg_shapes(r, k, "@DIR@"):
            positions = PLAY_POSITIONS if (wf or ctx.thorough) else PLAY_POSITIONS[:3]
            for plabel, tmpl in positions:
                cases.append((r["variant"], "playground", plabel, alabel, IMPORTS + tmpl % {"call": call}, None, wf, call))
            tpos = TEST_POSITIONS if (wf or ctx.thorough) else TEST_POSITIONS[:1]
            for plabel, tmpl, offk in tpos:
                cases.append((r["variant"], "sandboxed-test", plabel, alabel, IMPORTS + tmpl % {"call": call}, offk, wf, call))
    for k, r in harmless:
        call = HARMLESS_CALLS.get(r["variant"])
        if call is None:
            n = r.get("arity") or 0
            call = call_text(r, k, [gstr("x")] * n, gstr("x") if k == "KMethod" else None)
        cases.append((r["variant"], "playground", "harmless-toplevel", "audit", IMPORTS + call + "\n", None, False, call))
        cases.append((r["variant"], "sandboxed-test", "harmless-test", "audit", IMPORTS + "test t {\n  " + call + "\n}\n", "test", False, call))
    # control: the well-formed calls DO have an effect outside the sandbox (non-vacuity of the harness)
    controls = []
    for k, r in effectful:
        lab, call, wf = arg_shapes(r, k, "@DIR@")[0]
        controls.append((r["variant"], IMPORTS + "println(string_repr(" + call + "))\n"))

    ctx.log("running %d sandboxed cases + %d control runs on the binary" % (len(cases), len(controls)))
    with concurrent.futures.ThreadPoolExecutor(common.NCPU) as ex:
        obs = list(ex.map(lambda c: run_case(exe, c[1], c[4], c[5], timeout), cases))
        cobs = list(ex.map(lambda c: run_case(exe, "control", c[1], None, timeout), controls))

    # a timeout under machine load is not evidence: re-run such cases alone with a longer limit
    for i, o in enumerate(obs):
        if o["timeout"]:
            ctx.stat("timeout re-run alone")
            c = cases[i]
            obs[i] = run_case(exe, c[1], c[4], c[5], 3 * timeout)

    control_effect = {}
    for (v, src), o in zip(controls, cobs):
        eff = [e for e in effects_of(o) if "crashed" not in e]
        control_effect[v] = bool(eff)
        ctx.stat("control " + ("effect-observed" if eff else "NO-effect-observed"))
    ctx.cov["control_runs_without_observable_effect"] = sorted(v for v, e in control_effect.items() if not e)

    for c, o in zip(cases, obs):
        variant, mode, plabel, alabel, src, offk, wf, call = c
        is_eff = alabel != "audit"
        ctx.case({"variant": variant, "mode": mode, "position": plabel, "args": alabel},
                 nontrivial=(wf and control_effect.get(variant, False)) or not is_eff)
        ctx.stat("%s %s" % (mode, "effectful" if is_eff else "harmless"))
        eff = effects_of(o)
        rp = {"input": o["src"].replace(o["dir"], "<dir>"), "cli_command": o["cmd"], "mode": mode, "position": plabel,
              "args": alabel, "call": call, "variant": variant,
              "observed": {"rc": o["rc"], "stdout": o["stdout"][-600:].replace(o["dir"], "<dir>"),
                           "stderr": o["stderr"][-600:].replace(o["dir"], "<dir>"), "effects": eff},
              "expected": "no effect; " + ("'%s'" % REFUSAL if mode == "playground" else "test described as 'sandboxed'")}
        if eff:
            kind = "crash" if any("crashed" in e for e in eff) else "effect"
            ctx.stat("violation " + kind)
            ctx.violation("C24:%s:%s:%s" % (kind, variant, mode),
                          "`%s` in %s (%s, %s arguments): %s" % (call.replace("@DIR@", "<dir>"), mode, plabel, alabel, "; ".join(eff)), rp)
            continue
        if is_eff and wf:
            if refused(mode, plabel, o):
                ctx.stat("refused")
            else:
                ctx.stat("violation not-refused")
                ctx.violation("C24:not-refused:%s:%s" % (variant, mode),
                              "`%s` in %s (%s) was not answered with the sandbox refusal" % (call.replace("@DIR@", "<dir>"), mode, plabel), rp)
        elif is_eff:
            ctx.stat("malformed-call " + ("refused" if refused(mode, plabel, o) else "other-error"))
    ctx.notes.append("`import \"file.gdn\"` reads a user file from disk in sandboxed mode too (src/eval.rs read_src); it is "
                     "not a built-in and not 'the filesystem API' of the property text, so it is outside this check")
    ctx.notes.append("shell::get_env reads environment variables and reflect::source_file resolves the program's own path "
                     "without a sandbox test; audited as outside the property's effects (files/processes/stdin)")


def replay(ctx, rp):
    exe = ctx.impl()
    if not rp.get("input"):
        print("replay has no program (theorem / tie failure): re-run ./check C24")
        print(json.dumps(rp.get("no_longer_checks", rp), indent=1)[:3000])
        return 1
    mode = "playground" if rp["mode"] == "playground" else "sandboxed-test"
    o = run_case(exe, mode, rp["input"].replace("<dir>", "@DIR@"), "fun" if rp.get("position") == "offset-in-function" else "test", 20)
    eff = effects_of(o)
    print("program:\n" + o["src"].replace(o["dir"], "<dir>"))
    print("command:", o["cmd"])
    print("stdout:", o["stdout"].replace(o["dir"], "<dir>"))
    print("observed effects now:", eff or "none", "| refused:", refused(mode, rp.get("position"), o))
    print("recorded:", rp.get("observed", {}).get("effects"))
    return 1 if eff or not refused(mode, rp.get("position"), o) else 0
