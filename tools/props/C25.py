"""C25 -- Sandboxed runs always finish within their step budget."""
import concurrent.futures
import json
import os
import resource
import shutil
import subprocess
import tempfile
import time

from vplib import common, oracle

LEVEL = "proof"
RULE = ("Coq: Properties/C25.v (limits set in both sandbox entry points and loop shape, regenerated from the Rust "
        "source on every run; abstract termination bound for tick-counted machines). Dynamic: generated "
        "non-terminating, deeply recursive, value-nesting and memory-growing programs (while True, nested loops, "
        "unbounded / mutual / non-tail recursion, closures calling themselves, huge list building, list / tuple / "
        "dict / Option / struct values nested by a loop then printed, compared, hashed into strings or dropped, string "
        "and list doubling) run through `garden playground-run` and `garden sandboxed-test` under a wall-clock timeout "
        "and an address-space limit; every run must end with a result, an error or a limit error in well-formed JSON. "
        "A signal, exit 101/134/139, `panicked`, `stack overflow`, an allocation failure or a timeout is a failure. "
        "Non-trivial = the program does not terminate by itself or nests values deeper than 1000 levels.")
META = {
    "technique": "Coq proof that the sandbox limits are set and of the abstract tick-bound termination argument + "
                 "generated non-terminating / deep-recursion / deep-nesting programs run on the real binary in sandboxed mode",
    "level_text": ("PARTIAL. Coq theorems sandbox_limits_set / eval_loop_counts_and_checks: in the CURRENT source both "
                   "sandbox entry points (playground-run, sandboxed-test) assign Some(positive) tick and stack limits "
                   "before evaluating, `fn eval` increments ticks on every expression step and tests both limits before "
                   "eval_expr, and nothing else writes ticks (except a per-test reset in eval_tests) or the limits; "
                   "ticks_bound_terminates / ticks_and_frames_bound_run_length: for ANY machine whose steps increment a "
                   "counter (or pop a frame) and which stops at the limit, a run takes at most limit (resp. "
                   "2*limit + depth) steps. NOT proved: that a single step terminates and fits the native stack or "
                   "memory (built-ins in Rust, recursive display / equality / drop of deeply nested values, blocking "
                   "reads -- the latter is C24): search only." " On the evaluator model itself (Machine.v): theorems sandbox_terminates / sandbox_run_length -- under a tick limit L every run of every program ends (value, error or limit error) within 2*L+1 iterations of the eval loop."),
    "level_note": ("Trusted: Coq kernel; tools/gen_builtins.py (regex recognition of the limit assignments and of the "
                   "eval loop shape); the reading of `fn eval` as the abstract step function of the lemma (not "
                   "mechanically derived: the machine model of DESIGN section 2.1 is not built yet, so "
                   "`sandbox_terminates` over the machine is NOT proved -- hence `partial`). The search runs under "
                   "RLIMIT_AS so that memory blow-ups end as allocation failures instead of exhausting the host."),
    "design_ref": "DESIGN.md §5 C25",
}

AS_LIMIT = 1024 ** 3      # address-space limit (1 GiB) for the interpreter under test


def programs(rng, thorough):
    """[(label, defs, body, nontrivial)]"""
    P = []
    add = lambda label, defs, body, nt=True: P.append((label, defs, body, nt))
    # --- loops
    add("while-true-empty", "", "while True {}")
    add("while-true-counter", "", "let i = 0\nwhile True { i += 1 }")
    add("while-nested", "", "while True { let j = 0 while j < 10 { j += 1 } }")
    add("for-in-loop-growing", "", "let l = [1]\nwhile True { for x in l { x } l = l.append(1) }")
    add("while-condition-call", "fun yes(): Bool { True }", "while yes() { 1 }")
    add("loop-with-print", "", "while True { println(\"x\") }")
    # --- recursion
    add("recursion-tail", "fun f(n: Int): Int { f(n + 1) }", "f(0)")
    add("recursion-non-tail", "fun f(n: Int): Int { 1 + f(n + 1) }", "f(0)")
    add("recursion-mutual", "fun f(n: Int): Int { g(n + 1) }\nfun g(n: Int): Int { f(n + 1) }", "f(0)")
    add("recursion-in-argument", "fun f(n: Int): Int { f(f(n)) }", "f(0)")
    add("recursion-closure", "", "let h = fun(k) { k(k) }\nh(h)")
    add("recursion-method", "struct S { n: Int }\nmethod go(this: S): Int { S{ n: this.n + 1 }.go() }", "S{ n: 0 }.go()")
    add("recursion-in-list-literal", "fun f(n: Int) { [f(n + 1), 1] }", "f(0)")
    add("recursion-map-closure", "fun f(n: Int) { [1, 2].map(fun(x) { f(x) }) }", "f(0)")
    add("recursion-in-match", "fun f(o) { match o { Some(x) => f(Some(Some(x))) None => 0 } }", "f(Some(1))")
    add("recursion-string-build", "fun f(s: String): String { f(s ^ \"a\") }", "f(\"\")")
    # --- growth
    add("list-append-forever", "", "let l = []\nwhile True { l = l.append(1) }")
    add("string-append-forever", "", "let s = \"\"\nwhile True { s = s ^ \"abcdefgh\" }")
    add("dict-growing", "", "let d = Dict[\"a\" => 1]\nlet i = 0\nwhile True {\n d = d.set(string_repr(i), i)\n i += 1\n}")
    # exponential growth inside the tick budget: one `^` step costs one tick whatever the size
    add("string-doubling", "", "let s = \"ab\"\nwhile True { s = s ^ s }")
    if thorough:
        add("string-doubling-bounded-60", "", "let s = \"ab\"\nlet i = 0\nwhile i < 60 {\n s = s ^ s\n i += 1\n}\ns.len()")
        add("list-of-lists-doubling", "", "let l = [1]\nwhile True { l = [l, l] }")
        add("string-repr-doubling", "", "let l = [1]\nlet i = 0\nwhile i < 40 {\n l = [l, l]\n i += 1\n}\nstring_repr(l).len()")
    # --- deep nesting created by loops within the tick budget, then used
    wraps = [("list", "v = [v]", "[]"), ("tuple", "v = (v, 1)", "(0, 0)"), ("option", "v = Some(v)", "None"),
             ("dict", "v = Dict[\"k\" => v]", "Dict[\"k\" => 0]"), ("struct", "v = Box{ inner: Some(v) }", "Box{ inner: None }"),
             ("result", "v = Ok(v)", "Ok(0)")]
    uses = [("print", "string_repr(v).len()"), ("value", "v"), ("dbg", "dbg(v)\n1"),
            ("eqself", "v == v"), ("eqcopy", "SECOND v == w"), ("contains", "[v].contains(v)"), ("drop", "v = 0\n1")]
    plan = []      # (wrap label, depth, use labels)
    all_uses = [u[0] for u in uses]
    for wl, _, _ in wraps:
        plan.append((wl, 300, all_uses if thorough else rng.sample(all_uses, 3)))
    # struct nesting is cheap (no element type to recompute): every use at several depths
    for d in [500, 1000, 2500] + ([5000, 9000] if thorough else []):
        plan.append(("struct", d, all_uses))
    # the other constructors cost seconds per run at depth 2000 (quadratic type bookkeeping): a few
    for wl in ("list", "option", "tuple"):
        plan.append((wl, 2000, all_uses if thorough else ["print"]))
    if thorough:
        for wl in ("list", "option", "tuple", "result", "dict"):
            for d in (1000, 5000, 9000):
                plan.append((wl, d, all_uses))
    for wl, d, ulist in plan:
        wrap, init = [(w[1], w[2]) for w in wraps if w[0] == wl][0]
        for ul, use in uses:
            if ul not in ulist:
                continue
            defs = "struct Box { inner: Option<Box> }" if wl == "struct" else ""
            build = "let v = %s\nlet i = 0\nwhile i < %d {\n %s\n i += 1\n}\n" % (init, d, wrap)
            if use.startswith("SECOND "):
                build += "let w = %s\nlet j = 0\nwhile j < %d {\n %s\n j += 1\n}\n" % (init, d, wrap.replace("v", "w"))
                use = use[len("SECOND "):]
            add("nest-%s-%d-%s" % (wl, d, ul), defs, build + use, d >= 1000)
    # --- deep recursion just under the stack limit, returning nested values
    for d in [900, 999, 1000, 1001]:
        add("recursion-depth-%d" % d, "fun f(n: Int) { if n == 0 { [] } else { [f(n - 1)] } }", "string_repr(f(%d)).len()" % d)
    # --- limits must still bind AFTER an earlier item of the same run has already hit them (playground-run runs the
    # tests of the file, records their errors and goes on with the toplevel expressions on the same evaluator)
    seqs = [("loop-loop", "", "while True {}", "let i = 0\nwhile True { i += 1 }"),
            ("loop-recursion", "fun f(n: Int): Int { f(n + 1) }", "while True {}", "f(0)"),
            ("recursion-loop", "fun f(n: Int): Int { 1 + f(n + 1) }", "f(0)", "while True { 1 }"),
            ("recursion-recursion", "fun f(n: Int): Int { 1 + f(n + 1) }\nfun g(n: Int): Int { g(n + 1) }", "f(0)", "g(0)"),
            ("two-tests-loop", "", "while True {}\n}\ntest t1 {\nlet j = 0\nwhile True { j += 1 }", "while True {}"),
            ("passing-test-loop", "", "assert(1 == 1)", "while True {}")]
    for lab, defs, tbody, top in seqs:
        add("seq-" + lab, defs + "\ntest t0 {\n" + tbody + "\n}\n", top)
    # every test of a file gets the SAME budget: many budget-exhausting tests in a row must cost (number of tests) x budget,
    # not a growing one
    many = "fun spin() { while True {} }\n" + "".join("test s%d { spin() }\n" % i for i in range(24))
    add("seq-many-spinning-tests", many, "1")
    add("seq-many-recursing-tests", "fun rec(n: Int): Int { 1 + rec(n + 1) }\n" + "".join("test r%d { rec(0) }\n" % i for i in range(12))
        + "fun spin() { while True {} }\n" + "".join("test s%d { spin() }\n" % i for i in range(12)), "2")
    # --- blocking built-ins: a sandboxed program that waits for input must be refused, not block
    add("blocking-read-line", "", "let l = read_line()\nl")
    add("blocking-read-line-in-loop", "", "let i = 0\nwhile i < 3 {\n i += 1\n read_line()\n}\ni")
    # --- terminating controls (the harness must accept them)
    add("control-terminates", "", "let i = 0\nwhile i < 100 { i += 1 }\ni", False)
    add("control-error", "", "1 / 0", False)
    return P


USE_GROUP = {"print": "display", "value": "display", "dbg": "display", "eqself": "equality", "eqcopy": "equality",
             "contains": "equality", "drop": "drop"}


EXHAUSTION = ("native-stack-overflow", "allocation-failure", "signal-11", "signal-6")


def failure_class(label):
    """Failing input CLASS for known_findings: deep values by what is done with them, exponentially growing values,
    else the program."""
    parts = label.split("-")
    if parts[0] == "nest":
        return "deep-value-" + USE_GROUP.get(parts[-1], parts[-1])
    if "doubling" in label:
        return "exponential-growth"
    if parts[0] == "recursion" and parts[1] == "depth":
        return "recursion-depth"
    return label


def limit_memory():
    resource.setrlimit(resource.RLIMIT_AS, (AS_LIMIT, AS_LIMIT))
    resource.setrlimit(resource.RLIMIT_CORE, (0, 0))


def run_one(exe, mode, defs, body, timeout):
    d = tempfile.mkdtemp(prefix="c25-", dir=oracle.scratch_dir())
    try:
        if mode == "playground":
            src = defs + "\n" + body + "\n"
            cmd = [exe, "playground-run", os.path.join(d, "prog.gdn")]
        else:
            src = defs + "\ntest t {\n" + body + "\n}\n"
            cmd = [exe, "sandboxed-test", os.path.join(d, "prog.gdn"), str(src.index("test t") + 2)]
        with open(os.path.join(d, "prog.gdn"), "w") as f:
            f.write(src)
        env = dict(os.environ)
        env["RUST_BACKTRACE"] = "0"
        t0 = time.time()
        stdin, keep_open = subprocess.DEVNULL, None
        if "read_line" in body:
            # a blocking built-in: stdin is a pipe whose writer stays silent and open for the whole run
            rfd, keep_open = os.pipe()
            stdin = rfd
        try:
            p = subprocess.run(cmd, stdin=stdin, capture_output=True, timeout=timeout, cwd=d, env=env,
                               preexec_fn=limit_memory)
            rc, out, err, to = p.returncode, p.stdout, p.stderr, False
        except subprocess.TimeoutExpired as e:
            rc, out, err, to = 124, e.stdout or b"", e.stderr or b"", True
        if keep_open is not None:
            os.close(keep_open)
            os.close(stdin)
        full = out.decode("utf-8", "replace")
        lines = [l for l in full.strip().split("\n") if l.strip()]
        last = None
        if lines:
            try:
                last = json.loads(lines[-1])
            except ValueError:
                last = "unparsable"
        out = full[-1500:]
        err = err[-2000:].decode("utf-8", "replace")
        return {"rc": rc, "stdout": out, "last": last, "stderr": err, "timeout": to, "wall": time.time() - t0, "src": src,
                "cmd": "garden " + " ".join(cmd[1:]).replace(d, "<dir>")}
    finally:
        shutil.rmtree(d, ignore_errors=True)


def verdict(mode, o):
    """('ok', outcome label) or ('bad', reason)."""
    if o["timeout"]:
        return "bad", "timeout"
    err = o["stderr"]
    if "stack overflow" in err or "has overflowed its stack" in err:
        return "bad", "native-stack-overflow"
    if "memory allocation of" in err:
        return "bad", "allocation-failure"
    if o["rc"] < 0:
        return "bad", "signal-%d" % -o["rc"]
    if o["rc"] in (101, 134, 139) or "panicked at" in err:
        return "bad", "crash-rc-%d" % o["rc"]
    last = o["last"]
    if last is None:
        return "bad", "no-output-rc-%d" % o["rc"]
    if not isinstance(last, dict):
        return "bad", "malformed-output"
    if mode == "playground":
        if "error" not in last:
            return "bad", "malformed-output"
        e = last.get("error")
        if e is None:
            return "ok", "value"
        if "tick limit" in e:
            return "ok", "tick-limit"
        if "stack limit" in e:
            return "ok", "stack-limit"
        return "ok", "error"
    t = last.get("tests", {}).get("t")
    if t is None:
        return "bad", "test-not-reported"
    return "ok", t.get("description", "?")[:30].replace(" ", "-")


def run(ctx):
    ctx.trusted = [
        "Coq 8.16.1 kernel (coqc)",
        "tools/gen_builtins.py translator (limit assignments in sandboxed_playground.rs / test_runner.rs, shape of `fn eval`, "
        "writes to ticks / limits anywhere in src/)",
        "the reading of the interpreter loop as the abstract step function of ticks_bound_terminates (not derived mechanically)",
        "the OS for wall-clock timeouts and RLIMIT_AS",
    ]
    ctx.coq("Properties/C25.v")
    exe = ctx.impl()
    if not exe:
        return
    progs = programs(ctx.rng, ctx.thorough)
    timeout = 120 if ctx.thorough else 60
    jobs = [(lab, mode, defs, body, nt) for (lab, defs, body, nt) in progs for mode in ("playground", "sandboxed-test")
            if not (lab.startswith("seq-") and mode != "playground")]      # seq-* programs have test items of their own
    ctx.log("running %d sandboxed programs under a %ds timeout" % (len(jobs), timeout))
    with concurrent.futures.ThreadPoolExecutor(max(2, common.NCPU // 2)) as ex:
        obs = list(ex.map(lambda j: run_one(exe, j[1], j[2], j[3], timeout), jobs))
    # a timeout under machine load is not evidence: re-run alone with a longer limit
    retried = 0
    for i, o in enumerate(obs):
        if o["timeout"] and retried < 3:
            retried += 1
            ctx.stat("timeout re-run alone")
            j = jobs[i]
            obs[i] = run_one(exe, j[1], j[2], j[3], timeout)
    walls = []
    for (lab, mode, defs, body, nt), o in zip(jobs, obs):
        ctx.case({"program": lab, "mode": mode}, nontrivial=nt)
        v, why = verdict(mode, o)
        walls.append(o["wall"])
        fam = lab.split("-")[0]
        ctx.stat("%s %s" % (mode, fam))
        ctx.stat("outcome " + (why if v == "ok" else "BAD " + why))
        if v == "bad":
            klass = failure_class(lab)
            # memory and native-stack exhaustion show up as an allocation failure, a Rust stack-overflow message, SIGSEGV
            # or SIGABRT depending on where the process happens to be: one failure kind
            kind = "memory-or-stack-exhaustion" if why in EXHAUSTION else why.split("-rc-")[0]
            ctx.violation("C25:%s:%s" % (kind, klass),
                          "sandboxed run of `%s` (%s) ended with %s instead of a result / error / limit error: %s"
                          % (lab, mode, why, (o["stderr"].strip().replace("\n", " | ") or o["stdout"].strip())[-300:]),
                          {"input": o["src"], "cli_command": o["cmd"], "mode": mode, "program": lab,
                           "observed": {"rc": o["rc"], "why": why, "stderr": o["stderr"][-600:], "stdout": o["stdout"][-300:],
                                        "wall_s": round(o["wall"], 2)},
                           "expected": "JSON result, error or 'Reached the tick/stack limit' within the timeout"})
    ctx.cov["max_wall_s"] = round(max(walls), 2) if walls else None
    ctx.cov["address_space_limit_bytes"] = AS_LIMIT
    if not any(k.startswith("outcome tick-limit") for k in ctx.stats) or \
            not any(k.startswith("outcome stack-limit") for k in ctx.stats):
        ctx.broken("search:limits-never-hit", "no generated program reached the tick / stack limit: the generator lost its point")


def replay(ctx, rp):
    exe = ctx.impl()
    if not rp.get("input"):
        print("replay has no program (theorem / tie failure): re-run ./check C25")
        print(json.dumps(rp.get("no_longer_checks", rp), indent=1)[:3000])
        return 1
    src = rp["input"]
    mode = rp.get("mode", "playground")
    if mode == "playground":
        defs, body = "", src
    else:
        i = src.index("\ntest t {\n")
        defs, body = src[:i], src[i + len("\ntest t {\n"):src.rindex("\n}")]
    o = run_one(exe, mode, defs, body, 120)
    print("program:\n" + o["src"])
    print("command:", o["cmd"])
    print("rc:", o["rc"], "stdout:", o["stdout"][-300:], "stderr:", o["stderr"][-300:])
    v, why = verdict(mode, o)
    print("verdict now:", v, why, "| recorded:", rp.get("observed", {}).get("why"))
    return 0 if v == "ok" else 1
