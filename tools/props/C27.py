"""C27 -- Eval-up-to reports the value the expression takes when run."""
import concurrent.futures
import os
import re
import shutil
import tempfile

from vplib import common, oracle, machine, genprog

LEVEL = "proof"
RULE = ("Coq: Properties/C27.v (stop_never_changes_earlier_steps, stop_from_initial_state, stop_at_first_value_partial, call_target_stops_at_return, for_target_stops_in_first_iteration, paren target examples) over "
        "MachineStop.v = Machine.step + the stop_at_expr_id checks of `eval`. Dynamic: for generated programs (functions + "
        "one top-level block) and EVERY expression node of the block (spans from the hook op `sexp`): "
        "`garden reftest-eval-up-to` at an offset whose innermost expression is that node, compared with (a) the FIRST "
        "dbg line of a run of the same program with that expression wrapped in dbg(...) and (b) the extracted model "
        "(op evalupto). Non-trivial = the target is not a literal.")
META = {
    "technique": "Coq proof on a hand-written model of the stop_at_expr_id logic + differential execution (extracted model vs "
                 "reftest-eval-up-to) + dbg()-instrumented search at every expression position",
    "level_text": ("Coq theorems over MachineStop.v (Machine.step extended with the three stop checks of `eval`, "
                   "set_observed_expr_value_used, eval_up_to for a position in a top-level expression/block). For ANY program: "
                   "stop_never_changes_earlier_steps -- a run that stops at step n went through exactly the plain run's states "
                   "for n-1 steps and its n-th step is the plain n-th step; stop_from_initial_state -- started in init_state, a "
                   "stopped run EITHER (A) stopped after an expression with the target span whose evaluation BEGAN at a step m "
                   "that is the first step of the run at which such an evaluation begins (nonfresh_entries_have_begun: the "
                   "history invariant behind it), and when that expression is in the fragment (literals, variables, fun "
                   "literals, operators, let, assign, update, parentheses, if / if-else, match, list and tuple literals -- "
                   "wherever it sits: inside loops, function bodies, closures) the stop is EXACTLY the completion of that first "
                   "evaluation: continuation back to what it was, value stack = reported value :: old stack, stopped state = "
                   "plain n-th state, work pending at every step in between (stop_at_first_value_partial, "
                   "target_evaluation_completes_or_fails); OR (B) stopped at the return of a call whose call expression has "
                   "the target span (call_target_stops_at_return, no restriction on the callee: loops, recursion, closures): "
                   "the call was made at a step m, from m+1 to n-1 the callee's frames stay above the untouched caller stack, "
                   "the reported value is the value the callee's own frame returns and the plain run's n-th step pushes "
                   "exactly it onto the caller's frame. for_target_stops_in_first_iteration: a `for` target stops with Unit "
                   "right after entering the first iteration, with the loop variable bound to the first element (what "
                   "eval_up_to reports). A parenthesised target never stops (Example paren_target_runs_to_the_end: the genuine "
                   "defect, fixed), so eval_up_to looks through parentheses."),
    "level_note": ("PARTIAL: in case (A) the exact-completion statement needs the target expression itself to be in the fragment: "
                   "a target that CONTAINS a loop or a call of a user function, or is a while / return / break / continue, gets "
                   "only 'its evaluation began at the first such step m and the run is the plain run' from the theorems and is "
                   "covered beyond that by the differential check and the dbg search; under recursion (B) identifies the "
                   "completed call (the innermost one that returns first), and `uses` of the callee frame is shown equal to the "
                   "call's used flag only at creation. The statements are about the program with the target marked used "
                   "(set_observed_expr_value_used) and assume nothing about span uniqueness (the first expression met with the "
                   "span is the one spoken about). Trusted: Coq kernel; Machine.v/MachineStop.v are hand-written models tied to "
                   "eval.rs by differential execution only; extraction + OCaml glue; the hook ops sexp / eval_up_to / run. "
                   "reftest-eval-up-to runs the whole file first and re-evaluates the item, so generated programs keep all "
                   "statements in ONE top-level block or test (re-evaluation is then idempotent); positions inside top-level "
                   "function bodies (prev_call_args) are not exercised."),
    "design_ref": "DESIGN.md section 5 C27, section 6 minimal theorem stop_at_first_value",
}

WRAPPABLE = {"int", "str", "var", "bin", "if", "list", "tuple", "call", "funlit", "paren", "match"}


# ---------------------------------------------------------------- S-expressions with positions
def read_sexp(s):
    pos = [0]
    n = len(s)

    def skip():
        while pos[0] < n and s[pos[0]] in " \n":
            pos[0] += 1

    def one():
        skip()
        if s[pos[0]] == "(":
            pos[0] += 1
            items = []
            while True:
                skip()
                if s[pos[0]] == ")":
                    pos[0] += 1
                    return items
                items.append(one())
        if s[pos[0]] == '"':
            pos[0] += 1
            b = []
            while s[pos[0]] != '"':
                if s[pos[0]] == "\\":
                    b.append(s[pos[0] + 1])
                    pos[0] += 2
                else:
                    b.append(s[pos[0]])
                    pos[0] += 1
            pos[0] += 1
            return ("str", "".join(b))
        st = pos[0]
        while pos[0] < n and s[pos[0]] not in " ()\n":
            pos[0] += 1
        return s[st:pos[0]]
    return one()


def span_of(atom):
    a = atom[1:].split(":")
    return int(a[0]), int(a[1])


def collect(x, nodes, syms):
    """nodes: (start, end, kind); syms: symbol spans (bare @pos atoms inside a node)."""
    if not isinstance(x, list):
        return
    if x and isinstance(x[0], str) and x[0].startswith("@") and len(x) > 1 and isinstance(x[1], str):
        s, e = span_of(x[0])
        if x[1] != "hint":
            nodes.append((s, e, x[1]))
    for i, y in enumerate(x):
        if (i > 0 and isinstance(y, str) and y.startswith("@") and i + 1 < len(x)
                and isinstance(x[i + 1], list) and x[i + 1][:1] == ["sym"] and x[0] != "test"):
            syms.append(span_of(y))
        collect(y, nodes, syms)


def targets(src, block_item):
    """[(start, end, kind, offset)] for every expression node of the top-level block."""
    nodes, syms = [], []
    collect(read_sexp(block_item), nodes, syms)
    srcb = src.encode()         # positions are BYTE offsets
    out = []
    for (s, e, k) in nodes:
        off = None
        for o in range(s, e):
            if srcb[o] in b" \n" or srcb[o] >= 0x80:
                continue
            if any(a <= o < b for (a, b) in syms):
                continue
            inner = [nd for nd in nodes if nd[0] <= o < nd[1]]
            best = min(inner, key=lambda nd: (nd[1] - nd[0], -nd[0]))
            if best == (s, e, k):
                off = o
                break
        out.append((s, e, k, off))
    return out


# ---------------------------------------------------------------- programs
def gen_program(rng, size):
    g = genprog.Gen(rng, size=size)
    funs = [g.fun() for _ in range(rng.randrange(0, 3))]
    n = max(1, size + rng.randrange(-2, 3))
    stmts = [g.stmt(0, False, False, None) for _ in range(n)]
    stmts.append(g.expr(g.pick(genprog.TYPES), 1))
    body = "\n".join(stmts)
    body = "\n".join("    " + l for l in body.split("\n"))
    return "\n".join(funs) + ("\n" if funs else "") + "{\n" + body + "\n}\n"


HAND = [
    "{\n    let y = 2\n    let z = (y + 1)\n    z * 2\n}\n",
    "{\n    let a = ((1))\n    [a, (a + 1)]\n}\n",
    "fun f(n) { if n == 0 { 0 } else { f(n - 1) + 1 } }\n{\n    let r = f(3)\n    (r)\n}\n",
    "{\n    let t = 0\n    for x in [1, 2, 3] {\n        t += x\n    }\n    t\n}\n",
    "{\n    let i = 0\n    while i < 3 {\n        i += 1\n    }\n    if i > 2 {\n        \"big\"\n    } else {\n        \"small\"\n    }\n}\n",
    "{\n    let o = Some(4)\n    match o {\n      Some(q) => {\n        q + 1\n      }\n      None => {\n        0\n      }\n    }\n}\n",
]


def with_caret(src, off):
    """Insert a `// ^` comment line under the line that contains BYTE offset `off` (needs byte column >= 2)."""
    b = src.encode()
    ls = b.rfind(b"\n", 0, off) + 1
    col = off - ls
    if col < 2:
        return None
    le = b.find(b"\n", off)
    if le < 0:
        return None
    return (b[:le + 1] + b"//" + b" " * (col - 2) + b"^\n" + b[le + 1:]).decode()


def wrap_dbg(src, a, b):
    """The program with the BYTE span [a, b) wrapped in dbg(...)."""
    sb = src.encode()
    return (sb[:a] + b"dbg(" + sb[a:b] + b")" + sb[b:]).decode()


def cli_many(exe, jobs):
    """jobs: list of (args-prefix, src). Runs `garden <args> file` for each; returns (rc, out, err)."""
    d = tempfile.mkdtemp(dir=oracle.scratch_dir())

    def one(ij):
        i, (args, src) = ij
        p = os.path.join(d, "p%d.gdn" % i)
        with open(p, "w") as f:
            f.write(src)
        return oracle.garden_cli(exe, args + [p], timeout=60, cwd=d)
    try:
        with concurrent.futures.ThreadPoolExecutor(common.NCPU) as ex:
            return list(ex.map(one, enumerate(jobs)))
    finally:
        shutil.rmtree(d, ignore_errors=True)


UPTO_RE = re.compile(r"^[^\n]*?p\d+\.gdn:(\d+): (.*)$", re.M)
DBG_RE = re.compile(r"//-> (.*)")


def norm(v):
    v = re.sub(r"<(closure|fun)[^>]*>", "<fn>", v).replace(" (constructor)", "")
    return v.replace("<closure>", "<fn>").replace("<fun>", "<fn>").replace("<builtin>", "<fn>")


def parse_upto(out, err):
    m = None
    for m in UPTO_RE.finditer(out):
        pass
    if m:
        return ("value", m.group(2))
    if "panicked at" in err:
        return ("panic", err[-300:])
    return ("error", err.strip()[-200:])


def have_hook(exe):
    r = oracle.batch(exe, [{"op": "eval_up_to", "src": "{\n    1\n}\n", "offset": 6}])[0]
    return "result" in r


def upto_and_dbg(exe, keep, hook):
    """For every case: (kind, value-or-message) of eval-up-to and the stderr of the dbg-instrumented run."""
    if hook:
        r1 = oracle.batch(exe, [{"op": "eval_up_to", "src": s, "offset": off, "tick_limit": 100000}
                                for (s, items, a, b, k, off) in keep], timeout=900)
        r2 = oracle.batch(exe, [{"op": "run", "src": wrap_dbg(s, a, b), "tick_limit": 100000}
                                for (s, items, a, b, k, off) in keep], timeout=900)
        upto, dbg = [], []
        for x in r1:
            res = x.get("result")
            if "panic" in x:
                upto.append(("panic", str(x["panic"])[:300]))
            elif res is None:
                upto.append(("error", "first run failed: " + str(x)[:200]))
            elif res.get("kind") == "value":
                upto.append(("value", res["value"]))
            else:
                upto.append(("error", "%s %s" % (res.get("kind"), res.get("message", ""))))
        for x in r2:
            dbg.append(x.get("stderr", "") if "outcomes" in x else "error: " + str(x)[:200])
        return upto, dbg
    jobs_upto = [(["reftest-eval-up-to"], with_caret(s, off)) for (s, items, a, b, k, off) in keep]
    jobs_dbg = [(["run"], wrap_dbg(s, a, b)) for (s, items, a, b, k, off) in keep]
    r_upto = cli_many(exe, jobs_upto)
    r_dbg = cli_many(exe, jobs_dbg)
    return [parse_upto(r[1], r[2]) for r in r_upto], [r[2] for r in r_dbg]


def confirm_cli(exe, rep):
    """Re-run a failing case through the plain CLI (the oracle of record)."""
    cs = with_caret(rep["input"], rep["offset"])
    if cs is None:
        return None
    a, b = rep["span"]
    s = rep["input"]
    r = cli_many(exe, [(["reftest-eval-up-to"], cs), (["run"], wrap_dbg(s, a, b))])
    kind, val = parse_upto(r[0][1], r[0][2])
    m = DBG_RE.search(r[1][2])
    return {"eval_up_to": [kind, val], "dbg": m.group(1) if m else None}


REACH_MARK = "@@c27-reached-while@@"


def while_reached_and_left(exe, src, a, hook):
    """Does a normal run reach the `while` at byte offset a (statement position) and finish without an error afterwards?
    Then the loop was left, and its value (Unit) is what eval-up-to must have reported."""
    sb = src.encode()
    inst = (sb[:a] + b"println(\"" + REACH_MARK.encode() + b"\")\n" + sb[a:]).decode()
    if hook:
        x = oracle.batch(exe, [{"op": "run", "src": inst, "tick_limit": 100000}], timeout=120)[0]
        outs = x.get("outcomes") or []
        ok = bool(outs) and all(str(o).startswith("ok") or (isinstance(o, dict) and o.get("kind") == "ok") for o in outs)
        return ok and REACH_MARK in x.get("stdout", "")
    rc, out, err = cli_many(exe, [(["run"], inst)])[0]
    return rc == 0 and REACH_MARK in out and "Error" not in err and "Exception" not in err


def examine(ctx, exe, mdl, srcs, label, hook, item_prefix="(block", use_model=True):
    sx = oracle.batch(exe, [{"op": "sexp", "src": s, "positions": True} for s in srcs], timeout=600)
    keep = []      # (src, item_lines, start, end, kind, offset)
    for s, r in zip(srcs, sx):
        items = r.get("items")
        if not items or r.get("errors"):
            ctx.stat(label + " unparsed")
            continue
        blocks = [it for it in items if it.startswith(item_prefix)]
        if len(blocks) != 1:
            ctx.stat(label + " not-one-block")
            continue
        for (a, b, k, off) in targets(s, blocks[0]):
            if off is None:
                ctx.stat(label + " no-own-offset:" + k)
                continue
            if not hook and with_caret(s, off) is None:
                ctx.stat(label + " no-caret-column")
                continue
            keep.append((s, items, a, b, k, off))
    upto, dbg = upto_and_dbg(exe, keep, hook)
    lines = ["evalupto\t400000\t1\t%d:%d\t%s" % (a, b, common.hexs("\n".join(items))) for (s, items, a, b, k, off) in keep]
    rc, model, err = common.run_lines(mdl, [], lines, timeout=900, shards=common.NCPU)
    bad_corr = []
    confirmed = {}
    for i, (s, items, a, b, k, off) in enumerate(keep):
        kind, val = upto[i]
        ctx.case({"src": s[:120], "span": [a, b], "kind": k}, k not in ("int", "str"))
        ctx.stat("%s target:%s" % (label, k))
        rep = {"input": s, "offset": off, "span": [a, b], "target_kind": k,
               "cli_command": "garden reftest-eval-up-to <file: the input with a `// ^` line under the offset>; "
                              "garden run <file: the input with the span wrapped in dbg(...)>"}

        def report(key, what, extra):
            if key not in confirmed:      # one CLI confirmation per failing class
                confirmed[key] = confirm_cli(exe, rep) if hook else "cli"
            ctx.violation(key, what, dict(rep, cli_confirmation=confirmed[key], **extra))
        if kind == "panic":
            report("C27:panic:" + k, "eval-up-to panicked: " + val, {"observed": val})
            continue
        # (a) dbg-instrumented run
        if k in WRAPPABLE:
            m = DBG_RE.search(dbg[i])
            if m and "rror" in dbg[i].split("//->")[0]:
                m = None        # the instrumented program did not parse/check as intended
            if m:
                ctx.stat(label + " dbg-compared")
                want = m.group(1)
                if kind == "value" and val != want:
                    report("C27:wrong-value:" + k,
                           "eval-up-to reports %s but the expression first evaluates to %s" % (val, want),
                           {"expected": want, "observed": val})
                elif kind == "error":
                    report("C27:error-but-reached:" + k,
                           "eval-up-to reports an error (%s) although the run reaches the expression with value %s" % (val, want),
                           {"expected": want, "observed": val})
            else:
                ctx.stat(label + " dbg-not-reached")
        elif k == "while":
            # a `while` loop cannot be wrapped in dbg(), but its value is known: a loop evaluates to Unit however it ends
            ctx.stat(label + " while-target-compared")
            if kind == "value" and norm(val) != "Unit" and while_reached_and_left(exe, s, a, hook):
                report("C27:wrong-value:while", "eval-up-to on a `while` loop reports %s, but a loop evaluates to Unit (the run went "
                       "past the loop)" % val, {"expected": "Unit", "observed": val})
        else:
            ctx.stat(label + " not-wrappable")
        # (b) the model
        if not use_model:
            continue
        ml = model[i] if i < len(model) else "<missing>"
        if ml.startswith("unsupported"):
            ctx.stat(label + " outside-model")
            continue
        if ml.startswith("outoffuel"):
            ctx.stat(label + " model-out-of-fuel")
            continue
        ctx.stat(label + " model-compared")
        if ml.startswith("value:"):
            mv = bytes.fromhex(ml.split("\t")[0][6:]).decode()
            ok = kind == "value" and norm(val) == norm(mv)
        elif ml.startswith("error:"):
            ok = kind == "error"
        else:
            ok = False
        if not ok:
            bad_corr.append({"src": s, "span": [a, b], "kind": k, "impl": [kind, val], "model": ml[:200]})
    if bad_corr:
        ctx.broken("correspondence:machinestop:" + label,
                   "%d of %d positions differ, e.g. %s" % (len(bad_corr), len(keep), str(bad_corr[:2])[:1500]))
        ctx.cov.setdefault("corr_mismatches", []).extend(bad_corr[:5])


def run(ctx):
    ctx.trusted = machine.TRUSTED + [
        "coq/MachineStop.v is a HAND-WRITTEN model of the stop_at_expr_id logic of `eval`, set_observed_expr_value_used and "
        "eval_up_to (top-level expression/block items only), tied to the code by differential execution against "
        "`garden reftest-eval-up-to`",
        "ocaml/ops_machinestop.ml (same S-expression reader as ops_machine.ml)",
        "the dbg() built-in as the oracle for the value the expression takes (first dbg line on stderr)",
        "cfg-gated hook ops eval_up_to (= what reftest-eval-up-to does, result as JSON) and run; every failing class is re-run through the plain CLI",
    ]
    ctx.coq("Properties/C27.v")
    exe = ctx.impl()
    if not exe:
        return
    mdl = ctx.model("machinestop")
    if not mdl:
        return
    rng = ctx.rng
    hook = have_hook(exe)
    ctx.stat("hook eval_up_to available" if hook else "hook eval_up_to missing: CLI only (fewer programs)")
    n = (300 if ctx.thorough else 8) if hook else (40 if ctx.thorough else 3)
    progs = [gen_program(rng, 6) for _ in range(n)]
    examine(ctx, exe, mdl, HAND, "hand", hook)
    examine(ctx, exe, mdl, progs, "random", hook)
    if hook:
        # the same kind of program with the statements in a `test` instead of a top-level block (search only: the
        # model covers top-level expressions/blocks; `garden run` does not run tests, so no CLI confirmation of dbg)
        tests = []
        for _ in range(60 if ctx.thorough else 3):
            g = gen_program(rng, 5)
            i = g.index("{\n    ") if g.startswith("{") else g.index("\n{\n    ") + 1
            tests.append(g[:i] + "test t " + g[i:])
        examine(ctx, exe, mdl, tests, "test-item", hook, item_prefix="(test", use_model=False)


def replay(ctx, rp):
    exe = ctx.impl()
    src, off = rp["input"], rp["offset"]
    a, b = rp["span"]
    r = cli_many(exe, [(["reftest-eval-up-to"], with_caret(src, off)), (["run"], wrap_dbg(src, a, b))])
    print("eval-up-to:", r[0][1][-300:], r[0][2][-300:])
    print("dbg run   :", r[1][2][-300:])
    return 0
