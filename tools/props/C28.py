"""C28 -- The LSP server answers every request and never dies."""
import concurrent.futures
import json
import os
import re
import shutil
import subprocess
import tempfile
import time

from vplib import common, oracle
import gen_lspdispatch

LEVEL = "proof"
RULE = ("Coq: Properties/C28.v over LspDispatch.v driven by gen/LspDispatch.v (the arms of handle_message, the "
        "envelope-parse failure path, push_request_response / push_response / push_error and the run_lsp loop, all "
        "regenerated from src/lsp.rs on every run). Dynamic: the REAL `garden lsp` process is driven over framed "
        "stdio with generated sessions: initialize / initialized / didOpen / didChange / didClose, every request "
        "method of the generated dispatch table plus unknown methods, notification methods sent with an id and "
        "request methods sent without, positions in range, at the end, far out of range (10^6, u32::MAX) and "
        "ill-typed (negative, fractional, strings), missing / ill-typed params, requests before initialize and after "
        "shutdown, duplicate / string / fractional / structured ids, unopened and non-file URIs, array-encoded and "
        "non-object messages, bodies that are not JSON (truncated, deep nesting, bad escapes), documents taken from "
        "garden's own test corpus and mutated (truncation, CRLF, non-ASCII in strings / comments / code, NUL, BOM, "
        "empty). Checked on every session: the framed output, reduced to response ids / error codes / "
        "publishDiagnostics URIs, equals (a) the prediction of the specification written in Python and (b) the "
        "Coq model evaluated by coqc (vm_compute) on the abstracted message sequence with the freshly generated table; the process exits only at `exit` (status 0 "
        "after shutdown, 1 otherwise; 0 at EOF) and never with a panic. For each opened / changed document the "
        "published diagnostics are compared with `garden check --json` on the same text. A case is one client "
        "message; it is non-trivial unless it is the fixed initialize/initialized/shutdown/exit frame.")
META = {
    "technique": "Coq proof over a translator-generated dispatch table + the real server driven over stdio, compared "
                 "with the Coq model (evaluated by coqc) and with `garden check --json`",
    "level_text": ("Coq theorems over LspDispatch.v instantiated with the table regenerated from src/lsp.rs, for ALL "
                   "message sequences (induction over the list): the responses written are exactly, in order, the ids "
                   "of the requests (any method, known or not) and of the malformed-but-identifiable messages among "
                   "the messages processed; notifications, client responses, unidentifiable and non-JSON messages "
                   "produce no response; an unknown method with an id yields MethodNotFound; the loop processes every "
                   "message up to the first `exit` notification and exits 0 after a shutdown request, 1 otherwise. "
                   "PARTIAL: handler bodies are abstracted to an outcome (returns / panics / result not "
                   "serializable); the theorems assume no processed handler panics -- that part is search only "
                   "(real server, generated documents and positions)."),
    "level_note": ("Trusted: Coq kernel; tools/gen_lspdispatch.py (textual arm-shape recogniser; handler functions "
                   "are taken to produce exactly one response because their declared return type is "
                   "JsonRpcResponse<..>); the abstraction of a JSON body into garbage / malformed / well-formed "
                   "envelope (serde's rules for `Message`, re-implemented in Python and compared with the binary on "
                   "every session); the Python encoding of a session as a Coq term; the Python JSON-RPC client. Not covered: Content-Length "
                   "framing errors (a wrong length desynchronises the stream by protocol design), stdout write "
                   "failures, handler bodies (search only). Diagnostics: compared dynamically only."),
    "design_ref": "DESIGN.md §5 C28",
}

U32MAX = 2 ** 32 - 1

# ---------------------------------------------------------------------------
# documents

SNIPPETS = [
    "",
    "\n",
    "   \n\t\n",
    "// just a comment",
    "// commentaire: é € \U0001F600\n",
    "let x = 1\n",
    "fun foo(x: Int): String { x }\nfoo(1, 2)\n",
    "fun add(x: Int, y: Int): Int {\n  x + y\n}\n\nfun main() {\n  let s = \"hello\"\n  s.len()\n  add(1, 2)\n}\n",
    "struct Point {\n  x: Int,\n  y: Int,\n}\n\nmethod sum(this: Point): Int {\n  this.x + this.y\n}\n\nfun f() {\n  let p = Point{ x: 1, y: 2 }\n  p.sum()\n  p.\n}\n",
    "enum Shape {\n  Circle(Int),\n  Square(Int),\n  Empty,\n}\n\nfun area(s: Shape): Int {\n  match s {\n    Circle(r) => r * r * 3,\n    Square(w) => w * w,\n    Empty => 0,\n  }\n}\n",
    "fun f(items: List<Int>): Int {\n  let total = 0\n  for item in items {\n    total += item\n  }\n  while total > 10 {\n    total -= 1\n    if total == 11 { break }\n  }\n  total\n}\n",
    "/// Doc comment for greet.\nfun greet(name: String): String {\n  \"héllo \" ^ name ^ \" \U0001F600\"\n}\n\ntest greeting {\n  assert(greet(\"wörld\") == \"héllo wörld \U0001F600\")\n}\n",
    "fun g<T>(x: T): Option<T> { Some(x) }\nlet y = g(1)\nlet z = match y { Some(v) => v, None => 0 }\n",
    "import \"./missing.gdn\" as m\nfun f() { m::foo() }\n",
    "fun f() {\n  let f = fun(x: Int) { x + 1 }\n  f(2)\n  let (a, b) = (1, \"two\")\n  let d = Dict{ \"a\": 1 }\n  [1, 2, 3].map(fun(x) { x * 2 })\n}\n",
    "fun f(\n",
    "let s = \"unterminated\n",
    "fun f() { let x = }\n",
    "}}}} ))) {{{\n",
    "fun f() { 1 +. 2.5 }\nfun g(): Float { 1 }\nfun h() { undefined_variable }\n",
    "external fun foo(x: Int): Int\nfun bar(_: Int) { foo(1)\n  \"abc\".substring(0, 1)\n  print(\"x\")\n}\n",
    "#!/usr/bin/env garden\nfun main(_: List<String>) { println(\"hi\") }\n",
]

NONASCII = ["é", "€", "\U0001F600", "ß", " ", " ", "λ", "中", "́", "﻿"]


def load_corpus(repo):
    """Garden sources of the repository's own tests (testing footer removed), sorted for determinism."""
    res = []
    root = os.path.join(repo, "src", "test_files")
    for d in ("check", "runtime", "hover", "complete", "go_to_def", "rename", "highlight", "format", "parser",
              "extract_function", "extract_variable", "destructure", "wrap_in_dbg", "add_type_annotation", "test"):
        dd = os.path.join(root, d)
        if not os.path.isdir(dd):
            continue
        for f in sorted(os.listdir(dd)):
            if not f.endswith(".gdn"):
                continue
            try:
                t = open(os.path.join(dd, f), encoding="utf-8").read()
            except (OSError, UnicodeDecodeError):
                continue
            lines = []
            for line in t.split("\n"):
                if line.startswith("// args: "):
                    break
                lines.append(line)
            t = "\n".join(lines)
            if len(t) < 3000:
                res.append(t)
    for p in ("src/__prelude.gdn", "src/__fs.gdn"):
        try:
            t = open(os.path.join(repo, p), encoding="utf-8").read()
            res.append(t[:6000])
        except OSError:
            pass
    return res


def is_ascii_code_safe(text):
    """True when every non-ASCII character is inside a string literal or a // comment (approximation used
    only to steer generation and to tell lexer crashes apart)."""
    i, n = 0, len(text)
    while i < n:
        c = text[i]
        if c == '"':
            i += 1
            while i < n and text[i] != '"':
                if text[i] == "\\":
                    i += 1
                i += 1
        elif text.startswith("//", i):
            while i < n and text[i] != "\n":
                i += 1
        elif ord(c) > 127:
            return False
        i += 1
    return True


def gen_doc(rng, corpus, allow_code_nonascii):
    base = rng.choice(SNIPPETS) if rng.random() < 0.35 or not corpus else rng.choice(corpus)
    t = base
    k = rng.random()
    if k < 0.30:
        pass
    elif k < 0.45 and t:
        t = t[:rng.randrange(len(t) + 1)]                      # truncate: parse errors
    elif k < 0.55 and t:
        i = rng.randrange(len(t))
        t = t[:i] + t[i + 1:]                                  # delete one char
    elif k < 0.62 and t:
        i, j = sorted((rng.randrange(len(t) + 1), rng.randrange(len(t) + 1)))
        t = t[:j] + t[i:j] + t[j:]                             # duplicate a chunk
    elif k < 0.72:
        t = t.replace("\n", "\r\n")                            # CRLF
    elif k < 0.85:
        # non-ASCII inside string literals and comments
        c = rng.choice(NONASCII)
        if '"' in t and rng.random() < 0.6:
            idx = [m.start() for m in re.finditer('"', t)]
            i = rng.choice(idx) + 1
            t = t[:i] + c + t[i:]
        else:
            t = t + "\n// " + c * rng.randint(1, 3) + " fin"
            if rng.random() < 0.5:
                t = "// " + c + "\n" + t
    elif k < 0.90:
        t = t + "\nlet s = \"" + "".join(rng.choice(NONASCII + ["a", " ", "\\n"]) for _ in range(rng.randint(1, 8))) + "\"\n"
    elif k < 0.93:
        t = rng.choice(["\x00", "﻿" + t, t + "\x00", "\t" + t, t.replace(" ", "\t")]) if allow_code_nonascii else t.replace(" ", "\t")
    elif allow_code_nonascii:
        c = rng.choice(NONASCII)
        i = rng.randrange(len(t) + 1)
        t = t[:i] + c + t[i:]                                  # non-ASCII anywhere (lexer territory)
    if not allow_code_nonascii and not is_ascii_code_safe(t):
        t = base if is_ascii_code_safe(base) else "let x = 1\n"
    return t


def u16len(s):
    return len(s.encode("utf-16-le")) // 2


def gen_position(rng, text):
    """(json text of a Position, valid?)"""
    lines = text.split("\n")
    k = rng.random()
    if k < 0.55:
        ln = rng.randrange(len(lines))
        ch = rng.randint(0, u16len(lines[ln]) + 2)
        return '{"line":%d,"character":%d}' % (ln, ch), True
    if k < 0.65:
        ln = len(lines) - 1 + rng.randint(0, 2)
        return '{"line":%d,"character":%d}' % (ln, rng.choice([0, 1, 10 ** 6])), True
    if k < 0.80:
        return '{"line":%d,"character":%d}' % (rng.choice([0, 10 ** 6, U32MAX, rng.randrange(len(lines))]),
                                                rng.choice([0, 10 ** 6, U32MAX])), True
    bad = ['{"line":-1,"character":0}', '{"line":0,"character":-1}', '{"line":4294967296,"character":0}',
           '{"line":0.5,"character":0}', '{"line":"0","character":0}', '{"line":0}', '{"character":0}', 'null', '[]',
           '{"line":null,"character":0}', '{"line":true,"character":0}', '7', '"0:0"']
    return rng.choice(bad), False


def gen_range(rng, text):
    a, va = gen_position(rng, text)
    b, vb = gen_position(rng, text)
    if rng.random() < 0.1:
        return rng.choice(["null", "{}", '{"start":%s}' % a, "[%s]" % a, '"0:0-1:0"']), False
    return '{"start":%s,"end":%s}' % (a, b), va and vb


def jstr(s):
    return json.dumps(s, ensure_ascii=(False))


# methods whose params shape we know: name -> builder(rng, uri_json, uri_valid, text) -> (params json text, valid?)
def _tdpp(rng, uj, uv, text, extra="", extra_ok=True):
    pos, pv = gen_position(rng, text)
    return '{"textDocument":{"uri":%s},"position":%s%s}' % (uj, pos, extra), uv and pv and extra_ok


def p_position(rng, uj, uv, text):
    return _tdpp(rng, uj, uv, text)


def p_completion(rng, uj, uv, text):
    k = rng.random()
    if k < 0.6:
        return _tdpp(rng, uj, uv, text)
    if k < 0.85:
        return _tdpp(rng, uj, uv, text, ',"context":{"triggerKind":%d,"triggerCharacter":"."}' % rng.choice([1, 2, 3]))
    return _tdpp(rng, uj, uv, text, ',"context":{"triggerCharacter":"."}', False)


def p_sighelp(rng, uj, uv, text):
    k = rng.random()
    if k < 0.7:
        return _tdpp(rng, uj, uv, text)
    if k < 0.9:
        return _tdpp(rng, uj, uv, text, ',"context":{"triggerKind":2,"triggerCharacter":"(","isRetrigger":false}')
    return _tdpp(rng, uj, uv, text, ',"context":{"triggerKind":"x"}', False)


def p_references(rng, uj, uv, text):
    k = rng.random()
    if k < 0.85:
        return _tdpp(rng, uj, uv, text, ',"context":{"includeDeclaration":%s}' % rng.choice(["true", "false"]))
    return _tdpp(rng, uj, uv, text, rng.choice(["", ',"context":{}', ',"context":{"includeDeclaration":1}']), False)


def p_rename(rng, uj, uv, text):
    k = rng.random()
    if k < 0.85:
        nn = rng.choice(["zz", "new_name", "", "é", "a b", "fun", "X" * 50])
        return _tdpp(rng, uj, uv, text, ',"newName":%s' % jstr(nn))
    return _tdpp(rng, uj, uv, text, rng.choice(["", ',"newName":5', ',"newName":null']), False)


def p_docsymbol(rng, uj, uv, text):
    return '{"textDocument":{"uri":%s}}' % uj, uv


def p_formatting(rng, uj, uv, text):
    k = rng.random()
    if k < 0.85:
        return '{"textDocument":{"uri":%s},"options":{"tabSize":%d,"insertSpaces":true}}' % (uj, rng.choice([0, 2, 4, U32MAX])), uv
    return '{"textDocument":{"uri":%s}%s}' % (uj, rng.choice(["", ',"options":{}', ',"options":{"tabSize":-1,"insertSpaces":true}'])), False


def p_codeaction(rng, uj, uv, text):
    r, rv = gen_range(rng, text)
    k = rng.random()
    if k < 0.85:
        ctxt = rng.choice(['{"diagnostics":[]}', '{"diagnostics":[],"only":["quickfix"]}', '{"diagnostics":[],"triggerKind":1}'])
        return '{"textDocument":{"uri":%s},"range":%s,"context":%s}' % (uj, r, ctxt), uv and rv
    return '{"textDocument":{"uri":%s},"range":%s%s}' % (uj, r, rng.choice(["", ',"context":{}', ',"context":null'])), False


def p_initialize(rng, uj, uv, text):
    k = rng.random()
    if k < 0.7:
        return rng.choice(['{"capabilities":{}}', '{"processId":null,"rootUri":null,"capabilities":{}}',
                           '{"processId":1,"capabilities":{"textDocument":{"hover":{"contentFormat":["markdown"]}}},"trace":"off"}']), True
    return rng.choice(['{}', 'null', '[]', '{"capabilities":5}', '"x"']), False


PARAM_BUILDERS = {
    "initialize": p_initialize,
    "textDocument/completion": p_completion,
    "textDocument/definition": p_position,
    "textDocument/hover": p_position,
    "textDocument/signatureHelp": p_sighelp,
    "textDocument/documentHighlight": p_position,
    "textDocument/documentSymbol": p_docsymbol,
    "textDocument/formatting": p_formatting,
    "textDocument/codeAction": p_codeaction,
    "textDocument/references": p_references,
    "textDocument/rename": p_rename,
}

UNKNOWN_METHODS = ["textDocument/prepareRename", "textDocument/semanticTokens/full", "workspace/symbol", "$/cancelRequest",
                   "$/setTrace", "workspace/didChangeConfiguration", "textDocument/didSave", "", "Initialize", "shutdown ",
                   "exit\u0000", "window/workDoneProgress/cancel", "textDocument/hover/", "é", "x" * 300]


# ---------------------------------------------------------------------------
# abstraction of one body (serde's reading of `Message`), used by the specification and fed to the Coq model

def canon(v):
    return json.dumps(v, sort_keys=True, ensure_ascii=True)


def abstract(body, garbage):
    """-> dict(kind: garbage|malformed|ok, raw_id: (present, value), id, method).
    `garbage` is decided by the generator (bodies serde_json rejects), not by Python's more lenient parser."""
    if garbage:
        return {"kind": "garbage"}
    v = json.loads(body)
    if isinstance(v, dict):
        raw = ("id" in v, v.get("id"))
        ok = isinstance(v.get("jsonrpc"), str) and (v.get("method") is None or isinstance(v.get("method"), str))
        if not ok:
            return {"kind": "malformed", "raw_id": raw}
        return {"kind": "ok", "id": v.get("id"), "method": v.get("method"), "has_params": "params" in v}
    if isinstance(v, list):
        # serde-derived structs also accept a sequence: [jsonrpc, id, method, params]
        ok = (3 <= len(v) <= 4 and isinstance(v[0], str) and (v[2] is None or isinstance(v[2], str)))
        if not ok:
            return {"kind": "malformed", "raw_id": (False, None)}
        return {"kind": "ok", "id": v[1], "method": v[2], "has_params": False}
    return {"kind": "malformed", "raw_id": (False, None)}


class Msg:
    """One client message: the body as sent, and what the generator knows about it."""
    __slots__ = ("body", "garbage", "cls", "params_valid", "diag_uri", "text", "path", "abs", "trivial", "model_doc")

    def __init__(self, body, cls, garbage=False, params_valid=None, diag_uri=None, text=None, path=None, trivial=False):
        self.body = body
        self.garbage = garbage
        self.cls = cls                    # generator's label (statistics / violation keys)
        self.params_valid = params_valid  # True / False / None (unknown) for requests of known methods
        self.diag_uri = diag_uri          # did* with valid params: uri of the publishDiagnostics to expect; "?" = optional
        self.text = text                  # document text the server holds after this message (didOpen/didChange)
        self.path = path
        self.trivial = trivial
        # what the did* handler publishes IF the dispatcher invokes it for this message (model input w_doc); differs
        # from diag_uri only for notification methods sent with an id, which the fixed dispatcher never hands over
        self.model_doc = diag_uri
        self.abs = abstract(body, garbage)

    def to_json(self):
        return {"body": self.body, "garbage": self.garbage, "cls": self.cls, "params_valid": self.params_valid,
                "diag_uri": self.diag_uri, "text": self.text, "path": self.path, "model_doc": self.model_doc}

    @staticmethod
    def from_json(d):
        m = Msg(d["body"], d.get("cls", "replayed"), d.get("garbage", False), d.get("params_valid"),
                d.get("diag_uri"), d.get("text"), d.get("path"))
        m.model_doc = d.get("model_doc", m.diag_uri)
        return m


def table_info(facts):
    """method -> 'request' | 'notify' | 'nothing' | 'exit' ...; derived from the generated table."""
    info = {}
    for a in facts["arms"]:
        if a["pattern"][0] == "strs":
            for s in a["pattern"][1]:
                info.setdefault(s, []).append((a["guard"], a["shape"]))
    return info


def expected_skeleton(msgs):
    """The SPECIFICATION (property text): list per processed message of expected outputs, and the exit status.
    Elements: ("resp", canon_id, kind) with kind in result|error:<code>|any ; ("diag", uri|"?")."""
    out = []
    shutdown = False
    for i, m in enumerate(msgs):
        a = m.abs
        exp = []
        if a["kind"] == "garbage":
            pass
        elif a["kind"] == "malformed":
            if a["raw_id"][0]:
                exp.append(("resp", canon(a["raw_id"][1]), "error:-32600"))
        else:
            meth, idv = a["method"], a["id"]
            if meth is not None and idv is not None:
                kind = "any"
                if m.params_valid is True:
                    kind = "result"
                elif m.params_valid is False:
                    kind = "error:-32602"
                if m.cls in ("unknown-method-request",):
                    kind = "error:-32601"
                if m.cls in ("notification-method-with-id",):
                    kind = "error"
                exp.append(("resp", canon(idv), kind))
            elif meth is not None and idv is None:
                if m.diag_uri:
                    exp.append(("diag", m.diag_uri))
            if meth == "shutdown":
                shutdown = True
            if meth == "exit" and idv is None:
                out.append(exp)
                return out, (0 if shutdown else 1), i + 1
        out.append(exp)
    return out, 0, len(msgs)


def observed_skeleton(frames):
    res = []
    for f in frames:
        if not isinstance(f, dict):
            res.append(("junk", repr(f)[:80]))
        elif "method" in f and "id" not in f:
            uri = f.get("params", {}).get("uri") if f.get("method") == "textDocument/publishDiagnostics" else None
            res.append(("diag", uri) if uri is not None else ("notif", f.get("method")))
        elif "id" in f and "method" not in f:
            if "error" in f and "result" not in f:
                res.append(("resp", canon(f["id"]), "error:%s" % f["error"].get("code")))
            elif "result" in f and "error" not in f:
                res.append(("resp", canon(f["id"]), "result"))
            else:
                res.append(("resp", canon(f["id"]), "neither-or-both"))
        else:
            res.append(("junk", canon(f)[:80]))
    return res


def kind_matches(exp_kind, obs_kind):
    if exp_kind == "any":
        return obs_kind == "result" or obs_kind.startswith("error:")
    if exp_kind == "error":
        return obs_kind.startswith("error:")
    return exp_kind == obs_kind


def compare_skeleton(msgs, exp, obs):
    """-> None when equal, else (key_suffix, description, index of the message concerned)."""
    flat = []
    for i, e in enumerate(exp):
        for x in e:
            flat.append((i, x))
    j = 0
    for (i, x) in flat:
        # optional diagnostics ("?") may be absent
        if x[0] == "diag" and x[1] == "?":
            if j < len(obs) and obs[j][0] == "diag":
                j += 1
            continue
        if j >= len(obs):
            what = "missing-response" if x[0] == "resp" else "missing-diagnostics"
            return (what + ":" + msgs[i].cls, "message %d (%s) got no %s" % (i, msgs[i].cls, x[0]), i)
        o = obs[j]
        if x[0] == "resp":
            if o[0] != "resp":
                return ("missing-response:" + msgs[i].cls, "message %d (%s): expected a response with id %s, next output is %s"
                        % (i, msgs[i].cls, x[1], o), i)
            if o[1] != x[1]:
                later = any(y[0] == "resp" and y[1] == o[1] for (_, y) in flat[flat.index((i, x)) + 1:])
                return (("missing-response:" if later else "wrong-id:") + msgs[i].cls,
                        "message %d (%s): expected a response with id %s, the next response has id %s" % (i, msgs[i].cls, x[1], o[1]), i)
            if not kind_matches(x[2], o[2]):
                return ("response-kind:" + msgs[i].cls, "message %d (%s): expected %s, got %s" % (i, msgs[i].cls, x[2], o[2]), i)
        else:
            if o[0] != "diag":
                return ("missing-diagnostics:" + msgs[i].cls, "message %d (%s): expected publishDiagnostics, next output is %s" % (i, msgs[i].cls, o), i)
            if o[1] != x[1]:
                return ("diagnostics-uri:" + msgs[i].cls, "message %d: diagnostics for %s, expected %s" % (i, o[1], x[1]), i)
        j += 1
    if j < len(obs):
        o = obs[j]
        what = {"resp": "extra-response", "diag": "extra-diagnostics"}.get(o[0], "extra-output")
        return (what, "unexpected output %s after the expected ones" % (o,), None)
    return None


# ---------------------------------------------------------------------------
# driving the real server

def frame(body):
    b = body.encode("utf-8", "surrogatepass") if isinstance(body, str) else body
    return b"Content-Length: %d\r\n\r\n" % len(b) + b


def parse_frames(data):
    out = []
    i = 0
    while i < len(data):
        j = data.find(b"\r\n\r\n", i)
        if j < 0:
            out.append("<trailing bytes %r>" % data[i:i + 60])
            break
        n = None
        for h in data[i:j].decode("ascii", "replace").split("\r\n"):
            if h.lower().startswith("content-length:"):
                try:
                    n = int(h.split(":", 1)[1].strip())
                except ValueError:
                    pass
        if n is None:
            out.append("<bad header %r>" % data[i:j][:60])
            break
        body = data[j + 4:j + 4 + n]
        try:
            out.append(json.loads(body.decode("utf-8")))
        except (ValueError, UnicodeDecodeError):
            out.append("<bad body %r>" % body[:60])
        i = j + 4 + n
    return out


def run_server(exe, msgs, timeout=45):
    """-> dict(rc, frames, stderr, timed_out)"""
    inp = b"".join(frame(m.body) for m in msgs)
    env = dict(os.environ)
    env["RUST_BACKTRACE"] = "0"
    env["NO_COLOR"] = "1"
    try:
        p = subprocess.run([exe, "lsp"], input=inp, capture_output=True, timeout=timeout, env=env, cwd=oracle.scratch_dir())
        return {"rc": p.returncode, "frames": parse_frames(p.stdout), "stderr": p.stderr.decode("utf-8", "replace"), "timed_out": False}
    except subprocess.TimeoutExpired as e:
        return {"rc": None, "frames": parse_frames(e.stdout or b""), "stderr": (e.stderr or b"").decode("utf-8", "replace"), "timed_out": True}


PANIC_RE = re.compile(r"panicked at ([^\n:]+):(\d+):\d+:?\s*\n?([^\n]*)")


def judge(msgs, r):
    """Apply the property to one session. -> None | (key, what)"""
    exp, exp_rc, nproc = expected_skeleton(msgs)
    obs = observed_skeleton(r["frames"])
    if r["timed_out"]:
        return ("C28:hang", "the server did not finish a %d-message session within the timeout" % len(msgs))
    if r["rc"] not in (0, 1) or "panicked at" in r["stderr"]:
        m = PANIC_RE.search(r["stderr"])
        loc = "%s:%s" % (m.group(1), m.group(2)) if m else "rc=%s" % r["rc"]
        msg = m.group(3).strip() if m else r["stderr"][-200:]
        prefix = "C28:crash"
        if m and m.group(1).endswith("lex.rs"):
            prefix = "C28:lexer-panic"          # front-end crashes are C01's subject; told apart by the key
        elif m and m.group(1).endswith("src/parser.rs"):
            prefix = "C28:parser-panic"
        return ("%s:%s" % (prefix, loc), "the server died (status %s) at %s: %s" % (r["rc"], loc, msg[:160]))
    d = compare_skeleton(msgs, exp, obs)
    if d:
        return ("C28:" + d[0], d[1])
    if r["rc"] != exp_rc:
        return ("C28:exit-status", "exit status %s, expected %s" % (r["rc"], exp_rc))
    return None


def ddmin(items, fails, budget=80, deadline=None):
    """Delta debugging on a list; `fails(sub)` -> True when the failure is kept."""
    n = 2
    runs = 0
    while len(items) >= 2 and runs < budget and (deadline is None or time.time() < deadline):
        chunk = max(1, len(items) // n)
        reduced = False
        for i in range(0, len(items), chunk):
            sub = items[:i] + items[i + chunk:]
            runs += 1
            if sub and fails(sub):
                items = sub
                n = max(n - 1, 2)
                reduced = True
                break
            if runs >= budget or (deadline is not None and time.time() > deadline):
                break
        if not reduced:
            if chunk == 1:
                break
            n = min(len(items), n * 2)
    return items


def shrink(exe, msgs, key, seconds=25):
    """Smallest sub-sequence (then smallest document) that still fails with the same key (time-boxed)."""
    deadline = time.time() + seconds

    def fails(sub):
        v = judge(sub, run_server(exe, sub, timeout=(8 if key == "C28:hang" else 30)))
        return v is not None and v[0] == key
    msgs = ddmin(list(msgs), fails, budget=120, deadline=deadline)
    # shrink the text of the remaining didOpen/didChange bodies line-wise, then char-wise
    for idx, m in enumerate(msgs):
        if not m.text:
            continue
        for unit in ("\n", ""):
            parts = msgs[idx].text.split("\n") if unit == "\n" else list(msgs[idx].text)
            if len(parts) > 300 or time.time() > deadline:
                continue

            def with_text(ps, idx=idx, unit=unit):
                return msgs[:idx] + [rebuild_did(msgs[idx], unit.join(ps))] + msgs[idx + 1:]
            try:
                best = ddmin(parts, lambda ps: fails(with_text(ps)), budget=80, deadline=deadline)
            except (ValueError, KeyError, TypeError):
                break
            msgs = with_text(best)
    return msgs


def rebuild_did(m, text):
    v = json.loads(m.body)
    p = v["params"]
    if "contentChanges" in p:
        p["contentChanges"][-1]["text"] = text
    else:
        p["textDocument"]["text"] = text
    return Msg(json.dumps(v, ensure_ascii=False), m.cls, False, m.params_valid, m.diag_uri, text, m.path)


# ---------------------------------------------------------------------------
# session generation

class Gen:
    def __init__(self, rng, corpus, methods, notif_methods, docdir):
        self.rng = rng
        self.corpus = corpus
        self.methods = methods            # request methods of the table
        self.notif_methods = notif_methods
        self.docdir = docdir
        self.next_id = 1
        self.used_ids = []

    def fresh_id(self):
        rng = self.rng
        k = rng.random()
        if k < 0.70 or not self.used_ids:
            v = self.next_id
            self.next_id += 1
        elif k < 0.78:
            v = rng.choice(self.used_ids)                       # duplicate id
        elif k < 0.86:
            v = rng.choice(["r%d" % self.next_id, "", "é", "1", "null"])
            self.next_id += 1
        elif k < 0.92:
            v = rng.choice([0, -1, 1.5, 2.25, 2 ** 53, -(2 ** 63), 2 ** 63 - 1])
        else:
            v = rng.choice([True, False, [1, 2], {"a": 1}, [], {}])
        self.used_ids.append(v)
        return v

    def uri_for(self, name):
        return "file://" + os.path.join(self.docdir, name)

    def request(self, method, idv, params_text, cls, params_valid=None):
        body = '{"jsonrpc":"2.0","id":%s,"method":%s%s}' % (json.dumps(idv), jstr(method),
                                                             "" if params_text is None else ',"params":' + params_text)
        return Msg(body, cls, params_valid=params_valid)

    def notification(self, method, params_text, cls, **kw):
        body = '{"jsonrpc":"2.0","method":%s%s}' % (jstr(method), "" if params_text is None else ',"params":' + params_text)
        return Msg(body, cls, **kw)

    def did_open(self, name, text, version=1):
        uri = self.uri_for(name)
        p = '{"textDocument":{"uri":%s,"languageId":"garden","version":%d,"text":%s}}' % (jstr(uri), version, jstr(text))
        return self.notification("textDocument/didOpen", p, "didOpen", diag_uri=uri, text=text, path=uri[7:])

    def did_change(self, name, text, version, style):
        uri = self.uri_for(name)
        if style == "full":
            ch = '[{"text":%s}]' % jstr(text)
        elif style == "two":
            ch = '[{"text":"let ignored = 1"},{"text":%s}]' % jstr(text)
        else:   # incremental-looking change: the server only supports full sync and takes `text` as the document
            ch = '[{"range":{"start":{"line":0,"character":0},"end":{"line":0,"character":1}},"rangeLength":1,"text":%s}]' % jstr(text)
        p = '{"textDocument":{"uri":%s,"version":%d},"contentChanges":%s}' % (jstr(uri), version, ch)
        return self.notification("textDocument/didChange", p, "didChange:" + style, diag_uri=uri, text=text, path=uri[7:])

    def did_close(self, name):
        uri = self.uri_for(name)
        return self.notification("textDocument/didClose", '{"textDocument":{"uri":%s}}' % jstr(uri), "didClose", diag_uri=uri)

    def known_request(self, method, uri, uri_valid, text, cls_prefix="request"):
        rng = self.rng
        b = PARAM_BUILDERS.get(method, p_position)
        known = method in PARAM_BUILDERS
        k = rng.random()
        if k < 0.06:
            ptxt, valid = None, False                     # no params member
        elif k < 0.12:
            ptxt, valid = rng.choice(["null", "[]", "5", '"x"', "{}"]), False
        else:
            ptxt, valid = b(rng, jstr(uri), uri_valid, text)
        if method == "shutdown":
            ptxt, valid = rng.choice([None, "null", "[1,2]", "{}"]), True
        return self.request(method, self.fresh_id(), ptxt, "%s:%s:%s" % (cls_prefix, method, "valid" if valid else "invalid"),
                            params_valid=(valid if known or method == "shutdown" else None))

    def malformed(self):
        rng = self.rng
        idv = json.dumps(self.fresh_id())
        k = rng.randrange(12)
        if k == 0:
            return Msg('{"id":%s,"method":"shutdown"}' % idv, "malformed-with-id:no-jsonrpc")
        if k == 1:
            return Msg('{"jsonrpc":2,"id":%s,"method":"textDocument/hover"}' % idv, "malformed-with-id:jsonrpc-number")
        if k == 2:
            return Msg('{"jsonrpc":"2.0","id":%s,"method":5}' % idv, "malformed-with-id:method-number")
        if k == 3:
            return Msg('{"jsonrpc":"2.0","id":%s,"method":["exit"]}' % idv, "malformed-with-id:method-array")
        if k == 4:
            return Msg('{"jsonrpc":null,"id":null,"method":"exit"}', "malformed-with-id:null-id")
        if k == 5:
            return Msg('{"method":"exit"}', "malformed-without-id:no-jsonrpc")
        if k == 6:
            return Msg(rng.choice(["5", '"exit"', "null", "true", "[]", '["2.0"]', '[1,2,"exit"]', "{}", '["2.0",1,"x",null,5]']),
                       "malformed-without-id:non-object")
        if k == 7:
            return Msg('["2.0",%s,%s,{"x":1}]' % (idv, jstr(rng.choice(self.methods + ["nope"]))), "array-encoded-request")
        if k == 8:
            return Msg('["2.0",null,%s]' % jstr(rng.choice(["initialized", "nope", "textDocument/hover"])), "array-encoded-notification")
        if k == 9:
            return Msg('{"jsonrpc":"2.0","id":%s}' % idv, "client-response")
        if k == 10:
            return Msg('{"jsonrpc":"2.0","id":%s,"result":null,"method":null}' % idv, "client-response")
        return Msg('{"jsonrpc":"2.0","id":%s,"method":"zzz","id":%s}' % (idv, idv), "unknown-method-request")

    def garbage(self):
        rng = self.rng
        g = rng.choice(['{not json', '', ' ', '{"jsonrpc":"2.0","id":1,"method":"shutdown"', "{'jsonrpc':'2.0'}",
                        '{"jsonrpc":"2.0","id":1,"method":"x",}', '[1,2', 'nul', '{"a":1}{"b":2}', '\x00', '{"id":1,"method":"\\ud800"}',
                        '{"jsonrpc":"2.0","id":77,"method":"x","params":' + "[" * 200 + "]" * 200 + "}",
                        "[" * 100000, '{"jsonrpc":"2.0" "id":1}',
                        '﻿{"jsonrpc":"2.0","id":1,"method":"shutdown"}', '{"jsonrpc":"2.0","id":01,"method":"x"}',
                        '{"jsonrpc":"2.0","id":1,"method":"a\tb"}'])
        return Msg(g, "garbage", garbage=True)

    def session(self, size, allow_code_nonascii):
        rng = self.rng
        msgs = []
        docs = {}        # name -> text (open documents)
        versions = {}
        names = ["a.gdn", "b.gdn", "c.gdn", "d.gdn"]

        def any_request(before_init=False):
            meth = rng.choice(self.methods)
            if docs and rng.random() < 0.8:
                name = rng.choice(sorted(docs))
                return self.known_request(meth, self.uri_for(name), True, docs[name])
            k = rng.random()
            if k < 0.4:
                return self.known_request(meth, self.uri_for("never-opened.gdn"), True, "let x = 1\n", "request-unopened")
            if k < 0.55:
                return self.known_request(meth, self.uri_for("ondisk.gdn"), True, ONDISK_TEXT, "request-ondisk")
            if k < 0.8:
                u = rng.choice(["untitled:Untitled-1", "http://example.com/x.gdn", "file://remotehost/x.gdn", "file:///", "mailto:x@y",
                                "file:///dev/null", "file://" + self.docdir])
                return self.known_request(meth, u, True, "let x = 1\n", "request-odd-uri")
            u = rng.choice(["not a uri", "", "/plain/path.gdn", "file", "://"])
            return self.known_request(meth, u, False, "let x = 1\n", "request-bad-uri")

        if rng.random() < 0.3:
            for _ in range(rng.randint(1, 3)):
                msgs.append(any_request(True))
        if rng.random() < 0.9:
            msgs.append(Msg('{"jsonrpc":"2.0","id":0,"method":"initialize","params":{"processId":null,"rootUri":null,"capabilities":{}}}',
                            "request:initialize:valid", params_valid=True, trivial=True))
            msgs.append(Msg('{"jsonrpc":"2.0","method":"initialized","params":{}}', "notification:initialized", trivial=True))
        for _ in range(size):
            k = rng.random()
            if k < 0.14 or (not docs and k < 0.4):
                name = rng.choice(names)
                text = gen_doc(rng, self.corpus, allow_code_nonascii)
                docs[name] = text
                versions[name] = 1
                msgs.append(self.did_open(name, text))
            elif k < 0.24 and docs:
                name = rng.choice(sorted(docs))
                text = gen_doc(rng, self.corpus, allow_code_nonascii)
                docs[name] = text
                versions[name] += 1
                msgs.append(self.did_change(name, text, versions[name], rng.choice(["full", "full", "two", "incremental"])))
            elif k < 0.28 and docs:
                name = rng.choice(sorted(docs))
                del docs[name]
                msgs.append(self.did_close(name))
            elif k < 0.31:
                # did* with unusable params: nothing may come back, nothing may die
                meth = rng.choice(self.notif_methods)
                p = rng.choice([None, "null", "{}", '{"textDocument":null}', '{"textDocument":{"uri":5}}',
                                '{"textDocument":{"uri":"not a uri","text":"x"}}', '{"textDocument":{"uri":"untitled:x","text":"let x = 1"},"contentChanges":[{"text":"y"}]}',
                                '{"textDocument":{"uri":%s,"text":5},"contentChanges":[]}' % jstr(self.uri_for("a.gdn")),
                                '{"textDocument":{"uri":%s},"contentChanges":[{"range":null}]}' % jstr(self.uri_for("a.gdn")),
                                '{"textDocument":{"uri":%s},"contentChanges":"x"}' % jstr(self.uri_for("a.gdn")), "[]", "7"])
                m = self.notification(meth, p, "notification-bad-params:" + meth)
                if meth == "textDocument/didClose" and p and "a.gdn" in p:
                    m.diag_uri = m.model_doc = self.uri_for("a.gdn")
                    docs.pop("a.gdn", None)
                msgs.append(m)
            elif k < 0.75:
                msgs.append(any_request())
            elif k < 0.80:
                meth = rng.choice(UNKNOWN_METHODS)
                msgs.append(self.request(meth, self.fresh_id(), rng.choice([None, "{}", "null", "[1]"]), "unknown-method-request"))
            elif k < 0.83:
                msgs.append(self.notification(rng.choice(UNKNOWN_METHODS), rng.choice([None, "{}", '{"value":"off"}']), "unknown-notification"))
            elif k < 0.87:
                # a notification method sent WITH an id is a request: the client waits for an answer
                meth = rng.choice(self.notif_methods + ["initialized"])
                p = rng.choice([None, "{}", '{"textDocument":{"uri":%s,"text":"let q = 1"}}' % jstr(self.uri_for("n.gdn"))])
                m = self.request(meth, self.fresh_id(), p, "notification-method-with-id")
                if p and "n.gdn" in p and meth in ("textDocument/didOpen", "textDocument/didClose"):
                    m.model_doc = self.uri_for("n.gdn")
                msgs.append(m)
            elif k < 0.90:
                # a request method sent WITHOUT an id is a notification: no answer
                meth = rng.choice(self.methods)
                name = rng.choice(sorted(docs)) if docs else "a.gdn"
                ptxt, _ = PARAM_BUILDERS.get(meth, p_position)(rng, jstr(self.uri_for(name)), True, docs.get(name, ""))
                body = '{"jsonrpc":"2.0",%s"method":%s,"params":%s}' % (rng.choice(["", '"id":null,']), jstr(meth), ptxt)
                msgs.append(Msg(body, "request-method-without-id"))
            elif k < 0.96:
                msgs.append(self.malformed())
            else:
                msgs.append(self.garbage())
        k = rng.random()
        if k < 0.85:
            msgs.append(Msg('{"jsonrpc":"2.0","id":%s,"method":"shutdown"}' % json.dumps(self.fresh_id()), "request:shutdown:valid",
                            params_valid=True, trivial=True))
            if rng.random() < 0.3:
                msgs.append(any_request())                     # requests after shutdown are still answered
        elif k < 0.90:
            msgs.append(Msg('{"jsonrpc":"2.0","method":"shutdown"}', "shutdown-notification"))
        if rng.random() < 0.1:
            msgs.append(Msg('{"jsonrpc":"2.0","id":%s,"method":"exit"}' % json.dumps(self.fresh_id()), "notification-method-with-id"))
        if rng.random() < 0.9:
            msgs.append(Msg('{"jsonrpc":"2.0","method":"exit"}', "notification:exit", trivial=True))
            if rng.random() < 0.15:
                msgs.append(any_request())                     # never processed
        return msgs


ONDISK_TEXT = "fun on_disk(x: Int): Int { x + 1 }\n\nfun caller() { on_disk(2) }\n"


# ---------------------------------------------------------------------------
# diagnostics vs `garden check --json`

def check_json(exe, path, text, tmpdir, n):
    """`garden check --json --override-path <path> <tmp file with text>` -> (list of dicts | None, raw)"""
    f = os.path.join(tmpdir, "chk%d.gdn" % n)
    with open(f, "wb") as fh:
        fh.write(text.encode("utf-8"))
    rc, out, err = common.sh([exe, "check", "--json", "--override-path", path, f], timeout=120,
                             env=dict(os.environ, RUST_BACKTRACE="0"))
    if rc not in (0, 1) or "panicked at" in err:
        return None, "rc=%s %s" % (rc, err[-300:])
    return oracle.parse_json_stream(out), out


def check_normal_form(text):
    """`garden check` drops the testing footer with `lines()`: LF line ends and a final newline."""
    if text == "":
        return True
    return text.endswith("\n") and "\r\n" not in text and not any(l.startswith("// args: ") for l in text.split("\n"))


def check_normalise(text):
    """What `garden check` analyses (main.rs remove_testing_footer): str::lines() joined with LF, stop at `// args: `."""
    out = []
    lines = text.split("\n")
    if lines and lines[-1] == "":
        lines.pop()
    for l in lines:
        if l.endswith("\r"):
            l = l[:-1]
        if l.startswith("// args: "):
            break
        out.append(l + "\n")
    return "".join(out)


def lsp_range_from_check(text, d):
    """The documented conversion: 1-based line -> 0-based; byte column -> UTF-16 units within that line."""
    lines = text.encode("utf-8").split(b"\n")

    def conv(line1, col):
        ln = line1 - 1
        if ln < 0 or ln >= len(lines):
            return {"line": ln, "character": None}
        if col > len(lines[ln]):
            return {"line": ln, "character": None}
        b = lines[ln][:col]
        try:
            return {"line": ln, "character": u16len(b.decode("utf-8"))}
        except UnicodeDecodeError:
            return {"line": ln, "character": None}
    return {"start": conv(d["line_number"], d["column"]), "end": conv(d["end_line_number"], d["end_column"])}


def compare_diagnostics(text, lsp_diags, chk):
    """-> None | (key suffix, description)"""
    if len(lsp_diags) != len(chk):
        return ("count", "the server published %d diagnostics, `garden check` reports %d" % (len(lsp_diags), len(chk)))
    for a, b in zip(lsp_diags, chk):
        if a.get("message") != b.get("message"):
            return ("message", "published %r, check reports %r" % (a.get("message"), b.get("message")))
        sev = {"error": 1, "warning": 2}.get(b.get("severity"))
        if a.get("severity") != sev:
            return ("severity", "published severity %r, check reports %r for %r" % (a.get("severity"), b.get("severity"), a.get("message")))
        want = lsp_range_from_check(text, b)
        got = a.get("range")
        if got["start"] != want["start"]:
            return ("range-start", "%r: published start %s, check position converts to %s" % (a.get("message"), got["start"], want["start"]))
        if want["end"]["character"] is None:
            # `garden check` gave an end column that is not a position of that line (positions of tokens that
            # span lines are C23's subject): the documented conversion is undefined, only line numbers compared
            if got["end"]["line"] != want["end"]["line"]:
                return ("range-end-line", "%r: published end %s, check end line %s" % (a.get("message"), got["end"], want["end"]["line"]))
            return ("inconvertible-end", None)
        if got["end"] != want["end"]:
            return ("range-end", "%r: published end %s, check position converts to %s" % (a.get("message"), got["end"], want["end"]))
    return None


# ---------------------------------------------------------------------------
# the Coq model evaluated by coqc (vm_compute) on the abstracted sequences

ERRNUM = {1: -32601, 2: -32600, 3: -32602, 4: -32700, 5: -32603}

MODEL_PRELUDE = """From Coq Require Import List String Ascii NArith.
Require Import Garden.LspDispatch.
Import ListNotations.
Open Scope N_scope.
Fixpoint mk (l : list N) : string := match l with [] => EmptyString | b :: r => String (ascii_of_N b) (mk r) end.
Definition idn (r : rawid) : N := match r with IdNull => 0 | IdVal n => n + 1 end.
Definition ecode (c : errcode) : N := match c with MethodNotFound => 1 | InvalidRequest => 2 | InvalidParams => 3 | ParseErrorCode => 4 | InternalError => 5 end.
Definition enc (o : omsg) : list N := match o with OResult r => [1; idn r; 0] | OError r c => [2; idn r; ecode c] | ODiag u => [3; u; 0] end.
Definition encf (f : final) : list N := match f with FExit c => [10; c] | FEof => [11; 0] | FCrash => [12; 0] | FStuck => [13; 0] end.
Definition render (ms : list cmsg) : list N := let (o, f) := run dispatch_table init_state ms in encf f ++ flat_map enc o.
Definition W (i : option N) (m : option (list N)) (p : bool) (d : option N) : cmsg :=
  Wellformed {| w_id := i; w_method := option_map mk m; w_params_ok := p; w_outcome := Returns; w_doc := d |}.
Definition G := Garbage.
Definition M0 := Malformed None.
Definition Mn := Malformed (Some IdNull).
Definition Mi (n : N) := Malformed (Some (IdVal n)).
Set Printing Width 200.
Set Printing Depth 100000000.
"""


def model_term(msgs, ids):
    """One session as a Coq term of type list cmsg (ids / uris are numbered per session)."""
    items = []
    for m in msgs:
        a = m.abs
        if a["kind"] == "garbage":
            items.append("G")
        elif a["kind"] == "malformed":
            if a["raw_id"][0]:
                v = a["raw_id"][1]
                items.append("Mn" if v is None else "Mi %d" % ids[canon(v)])
            else:
                items.append("M0")
        else:
            idf = "None" if a["id"] is None else "(Some %d)" % ids[canon(a["id"])]
            mf = "None" if a["method"] is None else "(Some [%s])" % ";".join(str(b) for b in a["method"].encode("utf-8"))
            # params_valid None (method unknown to the generator): the table decides alone (unknown methods never
            # look at params); the flag is then irrelevant
            pv = "true" if m.params_valid is True else "false"
            dv = "None"
            if m.model_doc and m.model_doc != "?":
                dv = "(Some %d)" % ids[canon("uri:" + m.model_doc)]
            items.append("W %s %s %s %s" % (idf, mf, pv, dv))
    return "[" + "; ".join(items) + "]"


def run_model(sessions, table_text):
    """-> (list of (skeleton, final) per session | None, log). Needs coq/LspDispatch.vo; the generated table is
    compiled from `table_text` (the translator's output for the tree under test) inside the scratch file, so a
    concurrent run on another tree cannot interfere."""
    if not os.path.exists(os.path.join(common.COQ, "LspDispatch.vo")):
        return None, "missing LspDispatch.vo"
    maps, terms = [], []
    for ms in sessions:
        ids = {}

        def num(c, ids=ids):
            if c not in ids:
                ids[c] = len(ids) + 1
        for m in ms:
            a = m.abs
            if a["kind"] == "malformed" and a["raw_id"][0] and a["raw_id"][1] is not None:
                num(canon(a["raw_id"][1]))
            if a["kind"] == "ok" and a["id"] is not None:
                num(canon(a["id"]))
            if m.model_doc and m.model_doc != "?":
                num(canon("uri:" + m.model_doc))
        maps.append({v: k for k, v in ids.items()})
        terms.append(model_term(ms, ids))
    d = tempfile.mkdtemp(prefix="c28coq-", dir=oracle.scratch_dir())
    try:
        vf = os.path.join(d, "C28Sessions.v")
        with open(vf, "w") as f:
            f.write(table_text)
            f.write(MODEL_PRELUDE)
            f.write("Definition sessions : list (list cmsg) :=\n  [ " + ";\n    ".join(terms) + " ].\n")
            f.write("Eval vm_compute in (map render sessions).\n")
        rc, out, err = common.sh(["coqc", "-Q", common.COQ, "Garden", vf], timeout=600, cwd=d)
    finally:
        shutil.rmtree(d, ignore_errors=True)
    if rc != 0:
        return None, (out + err)[-1500:]
    mm = re.search(r"=\s*(\[.*\])\s*:\s*list \(list N\)", out, re.S)
    if not mm:
        return None, "cannot parse coqc output: " + out[-500:]
    data = json.loads(re.sub(r"\s+", "", mm.group(1)).replace(";", ","))
    res = []
    for nums, rev in zip(data, maps):
        final = {10: "exit:%d" % nums[1], 11: "eof", 12: "crash", 13: "stuck"}[nums[0]]
        sk = []
        for k in range(2, len(nums), 3):
            t, x, c = nums[k:k + 3]
            if t == 3:
                sk.append(("diag", json.loads(rev[x])[4:]))
            else:
                idc = "null" if x == 0 else rev[x - 1]
                sk.append(("resp", idc, "result" if t == 1 else "error:%d" % ERRNUM[c]))
        res.append((sk, final))
    return res, ""


# ---------------------------------------------------------------------------

def run(ctx):
    ctx.trusted = [
        "Coq 8.16.1 kernel (coqc); vm_compute for the finite check of the generated table",
        "tools/gen_lspdispatch.py translator (arm shapes of handle_message, push helpers, run_lsp loop); handler "
        "functions yield exactly one response because they are declared to return JsonRpcResponse<..>",
        "abstraction of a JSON body into garbage / malformed / well-formed envelope (serde rules for `Message`, "
        "re-implemented in Python; compared with the binary on every session)",
        "evaluation of the model by coqc (vm_compute) on the abstracted sessions; the Python encoding of a session as a Coq term",
        "the Python JSON-RPC client (Content-Length framing, one process per session, all input written up front)",
        "`garden check --json --override-path` as the reference for diagnostics",
    ]
    ctx.coq("Properties/C28.v")
    exe = ctx.impl()
    if not exe:
        return
    try:
        src, _ = gen_lspdispatch.load(common.REPO)
        facts = gen_lspdispatch.parse_dispatch(src)
    except gen_lspdispatch.TranslatorError as e:
        ctx.broken("translator", str(e))
        return
    info = table_info(facts)
    methods = sorted(m for m, rows in info.items() if any(s.startswith("BRespondParams") or s.startswith("BRespondDirect") for (_, s) in rows))
    notif_methods = sorted(m for m, rows in info.items() if any(s.startswith("BNotify") for (_, s) in rows))
    unknown_shapes = [a for a in facts["arms"] if "Unknown" in a["shape"] or a["pattern"][0] == "unknown" or a["guard"] == "GUnknown"]
    ctx.cov["dispatch_methods"] = {"request": methods, "notification_with_handler": notif_methods,
                                   "unrecognised_arms": [a["comment"] for a in unknown_shapes]}
    if "shutdown" not in methods or not notif_methods:
        ctx.broken("translator:table", "the dispatch table has no shutdown / did* arms: %s" % sorted(info))
        return
    corpus = load_corpus(common.REPO)
    ctx.cov["corpus_documents"] = len(corpus)

    # the directory the document URIs point into: a fixed name (the URIs are part of the generated messages, which
    # must be the same for the same seed); it only ever holds ondisk.gdn
    docdir = os.path.join(oracle.scratch_dir(), "c28-docs")
    os.makedirs(docdir, exist_ok=True)
    tmp = os.path.join(docdir, ".ondisk.%d" % os.getpid())
    with open(tmp, "w") as f:
        f.write(ONDISK_TEXT)
    os.replace(tmp, os.path.join(docdir, "ondisk.gdn"))
    _run(ctx, exe, corpus, methods, notif_methods, docdir, gen_lspdispatch.render(facts, ""))


def _run(ctx, exe, corpus, methods, notif_methods, docdir, table_text):
    rng = ctx.rng
    nsessions = int(os.environ.get("C28_SESSIONS", "0")) or (1500 if ctx.thorough else 300)
    gen = None
    sessions = []
    for s in range(nsessions):
        gen = Gen(rng, corpus, methods, notif_methods, docdir)
        allow = (s % 6 == 5)         # one session in six may put non-ASCII characters into code (lexer territory)
        size = rng.choice([4, 8, 15, 30]) if not ctx.thorough else rng.choice([4, 8, 15, 30, 60])
        sessions.append(gen.session(size, allow))
    # a fixed session that sends one request of every method to one document at a grid of positions
    gen = Gen(rng, corpus, methods, notif_methods, docdir)
    grid_doc = SNIPPETS[8]
    grid = [gen.did_open("grid.gdn", grid_doc)]
    for meth in methods:
        for ln in (0, 5, 11, 12, 13, 10 ** 6):
            for ch in (0, 3, 4, 10 ** 6):
                pos = '{"line":%d,"character":%d}' % (ln, ch)
                u = jstr(gen.uri_for("grid.gdn"))
                extra = {"textDocument/references": ',"context":{"includeDeclaration":true}', "textDocument/rename": ',"newName":"zz"',
                         "textDocument/formatting": ',"options":{"tabSize":2,"insertSpaces":true}',
                         "textDocument/codeAction": ',"range":{"start":{"line":0,"character":0},"end":%s},"context":{"diagnostics":[]}' % pos}.get(meth, "")
                if meth == "initialize":
                    continue
                grid.append(gen.request(meth, len(grid), '{"textDocument":{"uri":%s},"position":%s%s}' % (u, pos, extra),
                                        "request:%s:valid" % meth, params_valid=(True if meth in PARAM_BUILDERS or meth == "shutdown" else None)))
    grid.append(Msg('{"jsonrpc":"2.0","method":"exit"}', "notification:exit", trivial=True))
    sessions.append(grid)
    # fixed sessions whose answers point into ANOTHER file (an imported file on disk, the prelude): the open document is full
    # of multi-byte characters, so an offset of the other file is rarely a character boundary of this one
    for k in range(3):
        gen = Gen(rng, corpus, methods, notif_methods, docdir)
        libname = "lib28_%d_%d.gdn" % (os.getpid(), k)
        filler = "".join(rng.choice(["é", "€", "語", "\U0001F600"]) for _ in range(rng.randrange(200, 2000)))
        lib_text = "// " + "x" * rng.randrange(0, 3000) + "\npublic fun helper28(): Int { 1 }\npublic fun other28(n: Int): Int { n }\n"
        with open(os.path.join(docdir, libname), "w") as f:
            f.write(lib_text)
        doc = 'import "./%s"\n// %s\nhelper28()\nprintln(string_repr(other28(2)))\nlet v28 = max(1, 2)\n// %s\n' % (libname, filler, filler)
        cross = [gen.did_open("cross%d.gdn" % k, doc)]
        u = jstr(gen.uri_for("cross%d.gdn" % k))
        for meth in ("textDocument/definition", "textDocument/hover", "textDocument/references", "textDocument/documentHighlight"):
            if meth not in methods:
                continue
            for ln, ch in ((2, 1), (2, 8), (3, 1), (3, 9), (3, 23), (4, 11), (0, 9)):
                pos = '{"line":%d,"character":%d}' % (ln, ch)
                extra = ',"context":{"includeDeclaration":true}' if meth.endswith("references") else ""
                cross.append(gen.request(meth, len(cross), '{"textDocument":{"uri":%s},"position":%s%s}' % (u, pos, extra),
                                         "request:%s:valid" % meth, params_valid=True))
        cross.append(Msg('{"jsonrpc":"2.0","method":"exit"}', "notification:exit", trivial=True))
        sessions.append(cross)

    ctx.log("driving %d sessions (%d messages) through `garden lsp`" % (len(sessions), sum(len(s) for s in sessions)))
    with concurrent.futures.ThreadPoolExecutor(common.NCPU) as ex:
        results = list(ex.map(lambda ms: run_server(exe, ms), sessions))

    # ---- the property, directly -------------------------------------------
    failing = {}
    docs_to_check = {}
    for ms, r in zip(sessions, results):
        exp, exp_rc, nproc = expected_skeleton(ms)
        for i, m in enumerate(ms):
            ctx.case({"body": m.body[:200]}, not m.trivial)
            ctx.stat("msg " + m.cls.split(":")[0] + (":" + m.cls.split(":")[1] if m.cls.startswith("request:") else ""))
        ctx.stat("sessions")
        v = judge(ms, r)
        if v:
            ctx.stat("failing sessions")
            if v[0] not in failing or len(ms) < len(failing[v[0]][0]):
                failing[v[0]] = (ms, r, v[1])
            continue
        # remember the diagnostics published for every (path, text)
        obs = [f for f in r["frames"] if isinstance(f, dict) and f.get("method") == "textDocument/publishDiagnostics"]
        k = 0
        for i, m in enumerate(ms[:nproc]):
            if m.abs.get("kind") == "ok" and m.abs["method"] is not None and m.abs["id"] is None and m.diag_uri and m.diag_uri != "?":
                if k < len(obs) and obs[k]["params"]["uri"] == m.diag_uri:
                    if m.text is not None:
                        docs_to_check.setdefault((m.path, m.text), obs[k]["params"]["diagnostics"])
                    else:
                        if obs[k]["params"]["diagnostics"] != []:
                            ctx.violation("C28:didClose-diagnostics", "didClose published non-empty diagnostics",
                                          {"messages": [x.to_json() for x in ms], "observed": obs[k]})
                    k += 1
    for key, (ms, r, what) in sorted(failing.items()):
        ctx.log("shrinking", key)
        small = shrink(exe, ms, key)
        rr = run_server(exe, small, timeout=60)
        exp, exp_rc, _ = expected_skeleton(small)
        v2 = judge(small, rr)
        if v2 and v2[0] == key:
            what = v2[1]
        ctx.violation(key, what, {
            "messages": [m.to_json() for m in small],
            "input": [m.body for m in small],
            "expected": {"outputs_per_message": exp, "exit_status": exp_rc},
            "observed": {"outputs": observed_skeleton(rr["frames"]), "exit_status": rr["rc"], "stderr_tail": rr["stderr"][-600:]},
            "cli_command": "garden lsp   (each `input` element framed as `Content-Length: <bytes>\\r\\n\\r\\n<body>` on stdin)"})

    # ---- correspondence: the Coq model (coqc, vm_compute) on the abstracted sessions ----------
    ctx.log("evaluating the Coq model on the abstracted sessions (coqc, vm_compute)")
    mres, mlog = run_model(sessions, table_text)
    if mres is None:
        ctx.broken("correspondence:model-evaluation", "the Coq model could not be evaluated: " + mlog)
    else:
        mism = 0
        for ms, r, (sk, final) in zip(sessions, results, mres):
            if r["timed_out"] or r["rc"] not in (0, 1):
                ctx.stat("model: skipped (server died)")
                continue
            obs = observed_skeleton(r["frames"])
            unknown_pv = {canon(m.abs["id"]) for m in ms if m.abs.get("kind") == "ok" and m.abs.get("id") is not None
                          and m.params_valid is None}
            optional = {m.diag_uri for m in ms if m.diag_uri == "?"}

            def same_item(a, b):
                if a[0] != b[0] or a[1] != b[1]:
                    return False
                if a[0] == "diag" or a[2] == b[2]:
                    return True
                # the generator does not know whether the params of this request are valid
                return a[1] in unknown_pv and {a[2], b[2]} <= {"result", "error:-32602"}
            same = len(sk) == len(obs) and all(same_item(a, b) for a, b in zip(sk, obs)) and not optional
            want_rc = int(final.split(":")[1]) if final.startswith("exit:") else 0 if final == "eof" else None
            if optional:
                ctx.stat("model: skipped (optional diagnostics)")
            elif not same or want_rc != r["rc"]:
                mism += 1
                ctx.stat("model: mismatch")
                if mism <= 3:
                    ctx.cov.setdefault("model_mismatch", []).append(
                        {"input": [m.body[:160] for m in ms][:60], "model": [list(x) for x in sk][:60],
                         "observed": [list(x) for x in obs][:60], "model_final": final, "observed_rc": r["rc"]})
            else:
                ctx.stat("model: agree")
        if mism:
            ctx.broken("correspondence:lsp-dispatch", "the Coq model and `garden lsp` differ on %d sessions, e.g. %s"
                       % (mism, json.dumps(ctx.cov["model_mismatch"][0])[:1500]))

    # ---- diagnostics = garden check ---------------------------------------------
    items = sorted(docs_to_check.items(), key=lambda kv: (kv[0][0], kv[0][1]))
    maxdocs = 4000 if ctx.thorough else 250
    if len(items) > maxdocs:
        items = rng.sample(items, maxdocs)
    ctx.log("comparing published diagnostics with `garden check --json` on %d documents" % len(items))
    tmpdir = tempfile.mkdtemp(prefix="c28chk-", dir=oracle.scratch_dir())
    try:
        with concurrent.futures.ThreadPoolExecutor(common.NCPU) as ex:
            chks = list(ex.map(lambda t: check_json(exe, t[1][0][0], t[1][0][1], tmpdir, t[0]), enumerate(items)))
    finally:
        shutil.rmtree(tmpdir, ignore_errors=True)
    for ((path, text), diags), (chk, raw) in zip(items, chks):
        nf = check_normal_form(text)
        ctx.case({"diagnostics-of": text[:200]}, True)
        ctx.stat("diag docs" + ("" if nf else " (not in check's normal form)"))
        if chk is None:
            ctx.stat("diag: garden check itself crashed")
            ctx.violation("C28:check-crash", "`garden check --json` crashed on a document the server handled: %s" % raw[-200:],
                          {"input": text, "cli_command": "garden check --json <file>", "observed": raw})
            continue
        if not nf:
            # `garden check` analyses a normalised copy (LF line ends, final newline, no testing footer), so
            # positions can legitimately differ: these documents are compared with the normalised text's
            # conversion and only reported in the statistics
            ntext = check_normalise(text)
            d = compare_diagnostics(ntext, diags, chk)
            ctx.stat("diag (not normal form): %s" % ("equal" if d is None else d[0]))
            if d and d[1] is not None and len(ctx.cov.setdefault("diag_nonnormal_differences", [])) < 5:
                ctx.cov["diag_nonnormal_differences"].append({"text": text[:400], "difference": d[1]})
            continue
        d = compare_diagnostics(text, diags, chk)
        ctx.stat("diag: %s" % ("equal" if d is None else d[0]))
        if diags:
            ctx.stat("diag docs with diagnostics")
        if d and d[1] is None:
            continue
        if d:
            ctx.violation("C28:diagnostics:" + d[0], "diagnostics published for a document differ from `garden check --json`: " + d[1],
                          {"input": text, "path": path, "published": diags, "check_json": chk,
                           "cli_command": "garden check --json --override-path %s <file with `input`>   vs   didOpen of the same text in `garden lsp`" % path})


def replay(ctx, rp):
    exe = ctx.impl()
    if "messages" in rp:
        msgs = [Msg.from_json(d) for d in rp["messages"]]
        r = run_server(exe, msgs, timeout=60)
        v = judge(msgs, r)
        for m in msgs:
            print(">>", m.body[:300])
        for o in observed_skeleton(r["frames"]):
            print("<<", o)
        print("exit status:", r["rc"], "| stderr tail:", r["stderr"][-300:].replace("\n", " | "))
        print("verdict now:", v, "| recorded:", rp.get("key"))
        return 1 if v else 0
    if "check_json" in rp:
        docdir = tempfile.mkdtemp(prefix="c28-", dir=oracle.scratch_dir())
        try:
            path = os.path.join(docdir, "r.gdn")
            g = Gen(ctx.rng, [], ["shutdown"], ["textDocument/didOpen"], docdir)
            ms = [g.did_open("r.gdn", rp["input"])]
            r = run_server(exe, ms, timeout=60)
            diags = [f for f in r["frames"] if isinstance(f, dict) and f.get("method")]
            chk, raw = check_json(exe, path, rp["input"], docdir, 0)
            d = compare_diagnostics(rp["input"], diags[0]["params"]["diagnostics"], chk) if diags and chk is not None else ("no-output", "")
            print("published:", diags[0]["params"]["diagnostics"] if diags else None)
            print("check:", chk)
            print("verdict now:", d)
            return 1 if d else 0
        finally:
            shutil.rmtree(docdir, ignore_errors=True)
    print("nothing to replay")
    return 1
