"""C29 -- LSP positions and edits map exactly onto the document."""
import itertools
import json
import os
import shutil
import subprocess
import tempfile

from vplib import common, oracle

LEVEL = "proof"
RULE = ("Coq: Properties/C29.v over LspPos.v (model of offset_to_lsp_position / line_char_to_offset / "
        "whole_document_range and of the LSP specification's range edit). Dynamic: (1) correspondence of the three "
        "functions, extracted model vs the real functions through `garden verif-batch` op lsp_pos, on ALL documents "
        "up to length 4 (quick) / 5 (thorough) over {a, e-acute, euro, U+1F600, LF, CR}, every byte offset 0..len+2 "
        "(incl. non-boundaries, where both must panic) and every (line, character) in a grid reaching past the "
        "document, plus random longer documents and huge line/character/offset values; the lexer's line numbers "
        "are compared with line_of; (2) the round trip and the whole-document / span edits are checked directly on "
        "the implementation's answers with an independent Python LSP-specification applier (itself cross-checked "
        "against the extracted Coq applier); (3) end to end: the real `garden lsp` server over stdio "
        "(Content-Length framing) is asked for formatting, rename and code actions on generated programs (non-ASCII "
        "strings/comments, CRLF), the returned edits are applied by the specification applier and compared with the "
        "command-line refactoring (`garden format`, `reftest-rename`, `reftest-extract-variable`, ...). A case is "
        "non-trivial when the document contains a multi-byte character, CR or LF.")
META = {
    "technique": "Coq proof over a hand-written model of the conversion functions + exhaustive differential execution of the "
                 "extracted model vs the binary on all small documents + real LSP server driven end to end",
    "level_text": ("Coq theorems over LspPos.v, for ALL documents (lists of Unicode scalar values) below 4 GiB: "
                   "pos_roundtrip (offset -> position -> offset is the identity on every character-boundary offset, "
                   "CR or not); whole_range_covers and range_edit_is_splice (the LSP-specification applier, given the "
                   "range garden computes, performs exactly the byte splice) for documents in which every CR is "
                   "followed by LF and spans that do not start or end between CR and LF; *_refuted lemmas give the "
                   "witness documents (bare CR, offset between CR and LF) showing these hypotheses are necessary."),
    "level_note": ("Trusted: Coq kernel; the reading of Rust std (`str` slicing/rfind/find/lines/char_indices, "
                   "`as u32`) and of the LSP specification written in coq/LspPos.v (modelled, not verified; tied to the "
                   "code by the exhaustive small-document correspondence); extraction + OCaml glue (UTF-8 decoding); "
                   "the cfg-gated hook; the Python JSON-RPC client. The line numbers garden attaches to positions are "
                   "assumed to be the lexer's LF-count (checked dynamically against the lexer; multi-line tokens are "
                   "C23's subject). Which refactoring text is produced is not part of C29 (C17-C22)."),
    "design_ref": "DESIGN.md §5 C29",
}

ALPHABET = ["a", "é", "€", "\U0001F600", "\n", "\r"]
U32 = 2 ** 32


# ---------------------------------------------------------------------------
# Independent Python reading of the LSP specification (positions, range edits)

def u16len(s):
    return len(s.encode("utf-16-le")) // 2


def spec_lines(text):
    """[(start_index, end_index_excluding_eol)] of every line, EOL in {\\n, \\r\\n, \\r}; indices in code points."""
    lines = []
    i, start, n = 0, 0, len(text)
    while i < n:
        ch = text[i]
        if ch == "\n":
            lines.append((start, i))
            i += 1
            start = i
        elif ch == "\r":
            lines.append((start, i))
            i += 2 if i + 1 < n and text[i + 1] == "\n" else 1
            start = i
        else:
            i += 1
    lines.append((start, n))
    return lines


def spec_index(text, line, character):
    """Code-point index denoted by an LSP position, None inside a surrogate pair."""
    lines = spec_lines(text)
    if line >= len(lines):
        return len(text)
    a, b = lines[line]
    units = 0
    i = a
    while i < b:
        if units >= character:
            return i
        w = 2 if ord(text[i]) >= 0x10000 else 1
        if character - units < w:
            return None
        units += w
        i += 1
    return i


def apply_edit(text, rng, new):
    """Apply one TextEdit as the specification defines; None if the range is not meaningful."""
    a = spec_index(text, rng["start"]["line"], rng["start"]["character"])
    b = spec_index(text, rng["end"]["line"], rng["end"]["character"])
    if a is None or b is None or b < a:
        return None
    return text[:a] + new + text[b:]


def apply_edits(text, edits):
    """All edits of one document: ranges refer to the ORIGINAL text and must not overlap."""
    spans = []
    for e in edits:
        r = e["range"]
        a = spec_index(text, r["start"]["line"], r["start"]["character"])
        b = spec_index(text, r["end"]["line"], r["end"]["character"])
        if a is None or b is None or b < a:
            return None
        spans.append((a, b, e["newText"]))
    spans.sort(key=lambda x: (x[0], x[1]))
    for (x, y) in zip(spans, spans[1:]):
        if x[1] > y[0]:
            return None
    out = text
    for a, b, t in reversed(spans):
        out = out[:a] + t + out[b:]
    return out


def byte_to_index(text, o):
    """code-point index of byte offset o, None off a boundary / past the end."""
    n = 0
    for i, ch in enumerate(text):
        if n == o:
            return i
        n += len(ch.encode("utf-8"))
        if n > o:
            return None
    return len(text) if n == o else None


def no_lone_cr(text):
    return all(text[i + 1:i + 2] == "\n" for i, ch in enumerate(text) if ch == "\r")


def rng(l1, c1, l2, c2):
    return {"start": {"line": l1, "character": c1}, "end": {"line": l2, "character": c2}}


def doc_class(text):
    if not no_lone_cr(text):
        return "lone-cr"
    if "\r" in text:
        return "crlf"
    return "lf-only"


# ---------------------------------------------------------------------------

def all_docs(maxlen):
    for n in range(maxlen + 1):
        for t in itertools.product(ALPHABET, repeat=n):
            yield "".join(t)


def random_doc(r, n):
    extra = ["b", " ", "\t", "ß", "中", "\U0001F468", "‍", "\r\n", "\n", "x"]
    return "".join(r.choice(ALPHABET + extra) for _ in range(n))


def parse_model_doc(line):
    parts = dict(p.split("=", 1) for p in line.split("|"))
    o2p = []
    for e in parts["o2p"].split(";"):
        pos, rest = e.split("@")
        o2p.append((pos, int(rest[:-1]), rest[-1] == "b"))
    lc = [int(x) for x in parts["lc2o"].split(",")]
    wl, wc = parts["whole"].split(",")
    return o2p, lc, (int(wl), int(wc))


def correspondence(ctx, exe, mdl, docs, tag):
    """Model vs implementation on every offset / (line, character) of each document.
    Returns {doc: (o2p list, lc grid, whole_end, ml, mc)} from the IMPLEMENTATION for the property search."""
    geom = []
    mlines = []
    reqs = []
    index = []
    for d in docs:
        blen = len(d.encode("utf-8"))
        ml = d.count("\n") + d.count("\r") + 2
        mc = u16len(d) + 2
        geom.append((blen, ml, mc))
        mlines.append("lsp_doc\t%s\t%d\t%d" % (common.hexs(d), ml, mc))
        offs = list(range(blen + 3))
        lcs = [(l, c) for l in range(ml + 1) for c in range(mc + 1)]
        for o in offs:
            # `line` = the lexer's line number of that offset (LF count before it)
            reqs.append({"op": "lsp_pos", "src": d, "offset": o, "line": d.encode("utf-8")[:o].count(b"\n")})
        for lc in lcs:
            reqs.append({"op": "lsp_pos", "src": d, "line_char": list(lc)})
        index.append((len(offs), len(lcs)))
    ctx.log("%s: %d documents, %d hook requests" % (tag, len(docs), len(reqs)))
    res = oracle.batch(exe, reqs, timeout=1200)
    model = None
    if mdl:
        rc, model, err = common.run_lines(mdl, [], mlines, shards=common.NCPU, timeout=1200)
    out = {}
    pos = 0
    nbad = 0
    for di, d in enumerate(docs):
        noff, nlc = index[di]
        rs = res[pos:pos + noff]
        rl = res[pos + noff:pos + noff + nlc]
        pos += noff + nlc
        blen, ml, mc = geom[di]
        i_o2p = []
        for k in range(noff):
            r = rs[k]
            if "panic" in r:
                i_o2p.append("P")
            elif "position" in r:
                i_o2p.append("%d,%d" % tuple(r["position"]))
            else:
                i_o2p.append("?" + json.dumps(r)[:60])
        i_lc = []
        for k in range(nlc):
            r = rl[k]
            i_lc.append(r.get("offset", "P" if "panic" in r else "?"))
        we = rl[0].get("whole_end") if rl else None
        i_whole = tuple(we) if we else ("?",)
        out[d] = (i_o2p, i_lc, i_whole, ml, mc)
        nontrivial = any(ord(ch) > 127 or ch in "\r\n" for ch in d)
        ctx.case({"doc": d, "tag": tag}, nontrivial)
        ctx.stat("docs " + doc_class(d))
        ctx.stat("conversions checked", noff + nlc + 1)
        if model:
            try:
                m_o2p, m_lc, m_whole = parse_model_doc(model[di])
            except Exception:
                ctx.broken("correspondence:model-output", "unparsable model line for %r: %s" % (d, model[di][:200]))
                model = None
                continue
            diffs = []
            for k in range(noff):
                # the model's line_of must be the LF count the driver sent as `line`
                lf = d.encode("utf-8")[:k].count(b"\n")
                mpos, mline, mb = m_o2p[k]
                if mb and mline != lf:
                    diffs.append("line_of(%d): model %d, LF-count %d" % (k, mline, lf))
                exp = mpos
                if not mb and mpos != "P":
                    # offset past the end: model used line 0, the driver sent the LF count; only the column matters
                    exp = "%d,%s" % (lf % U32, mpos.split(",")[1])
                if i_o2p[k] != exp:
                    diffs.append("offset_to_lsp_position(%d): impl %s, model %s" % (k, i_o2p[k], exp))
            for k in range(nlc):
                if i_lc[k] != m_lc[k]:
                    diffs.append("line_char_to_offset(%d,%d): impl %s, model %s"
                                 % (k // (mc + 1), k % (mc + 1), i_lc[k], m_lc[k]))
            if i_whole != m_whole:
                diffs.append("whole_document_range end: impl %s, model %s" % (i_whole, m_whole))
            if diffs:
                nbad += 1
                ctx.stat("correspondence_mismatch")
                ctx.cov.setdefault("corr", [])
                if len(ctx.cov["corr"]) < 10:
                    ctx.cov["corr"].append({"doc": d, "diffs": diffs[:5]})
    if nbad:
        ctx.broken("correspondence:lsp_pos:" + tag, "model and implementation differ on %d documents, e.g. %s"
                   % (nbad, ctx.cov["corr"][:3]))
    return out


# ---------------------------------------------------------------------------
# Property search on the implementation's own answers

T_NEW = "Z€\n"      # replacement text used by the edit checks


def utf8_index_map(text):
    """byte offset -> code point index for every boundary."""
    m = {}
    n = 0
    for i, ch in enumerate(text):
        m[n] = i
        n += len(ch.encode("utf-8"))
    m[n] = len(text)
    return m


def between_cr_lf(text, idx):
    return 0 < idx < len(text) and text[idx - 1] == "\r" and text[idx] == "\n"


def property_search(ctx, impl, tag, spans=True):
    """impl: {doc: (o2p, lc grid, whole_end, ml, mc)} as answered by the real functions."""
    for d, (o2p, lc, whole, ml, mc) in impl.items():
        bmap = utf8_index_map(d)
        cls = doc_class(d)
        blen = len(d.encode("utf-8"))
        pos_of = {}
        # 1. round trip on every boundary offset
        for o in sorted(bmap):
            p = o2p[o]
            ctx.stat("roundtrip offsets")
            if p == "P" or p.startswith("?"):
                ctx.violation("C29:roundtrip:panic", "offset_to_lsp_position(%r, %d) on a character boundary: %s" % (d, o, p),
                              {"kind_of_case": "roundtrip", "doc": d, "offset": o, "observed": p})
                continue
            l, c = (int(x) for x in p.split(","))
            pos_of[o] = (l, c)
            back = lc[l * (mc + 1) + c] if l <= ml and c <= mc else None
            if back != o:
                ctx.violation("C29:roundtrip:%s" % cls,
                              "offset %d of %r -> (%d,%d) -> offset %s" % (o, d, l, c, back),
                              {"kind_of_case": "roundtrip", "doc": d, "offset": o, "position": [l, c],
                               "expected": o, "observed": back})
        # 2. whole_document_range replaced under the specification
        if len(whole) == 2:
            got = apply_edit(d, rng(0, 0, whole[0], whole[1]), T_NEW)
            ctx.stat("whole-range edits")
            if got != T_NEW:
                ctx.violation("C29:lone-cr:whole-range" if cls == "lone-cr" else "C29:whole-range:%s" % cls,
                              "replacing whole_document_range(%r) = (0,0)-(%d,%d) by %r as the LSP specification "
                              "defines gives %r" % (d, whole[0], whole[1], T_NEW, got),
                              {"kind_of_case": "whole-range", "doc": d, "whole_end": list(whole), "new_text": T_NEW,
                               "expected": T_NEW, "observed": got})
        # 3. every span [a, b) sent as the range garden computes
        if not spans:
            continue
        offs = sorted(pos_of)
        for ai, a in enumerate(offs):
            for b in offs[ai:]:
                (l1, c1), (l2, c2) = pos_of[a], pos_of[b]
                ia, ib = bmap[a], bmap[b]
                want = d[:ia] + T_NEW + d[ib:]
                got = apply_edit(d, rng(l1, c1, l2, c2), T_NEW)
                ctx.stat("span edits")
                if got == want:
                    continue
                if cls != "lone-cr" and (between_cr_lf(d, ia) or between_cr_lf(d, ib)):
                    # predicted by range_edit_mid_crlf_refuted; no token starts or ends there
                    ctx.stat("span edits with an end between CR and LF (differ, as range_edit_mid_crlf_refuted says)")
                    continue
                ctx.violation("C29:lone-cr:span-edit" if cls == "lone-cr" else "C29:span-edit:%s" % cls,
                              "span %d..%d of %r sent as (%d,%d)-(%d,%d): the specification applier gives %r, the byte "
                              "splice %r" % (a, b, d, l1, c1, l2, c2, got, want),
                              {"kind_of_case": "span-edit", "doc": d, "span": [a, b], "range": [l1, c1, l2, c2],
                               "new_text": T_NEW, "expected": want, "observed": got})


def applier_crosscheck(ctx, mdl, docs):
    """The Python specification applier against the extracted Coq one."""
    lines, geo = [], []
    for d in docs:
        ml = d.count("\n") + d.count("\r") + 2
        mc = u16len(d) + 2
        geo.append((ml, mc))
        lines.append("lsp_spec_doc\t%s\t%d\t%d" % (common.hexs(d), ml, mc))
    rc, res, err = common.run_lines(mdl, [], lines, shards=common.NCPU, timeout=900)
    bad = []
    for d, (ml, mc), line in zip(docs, geo, res):
        want = []
        bm = {v: k for k, v in utf8_index_map(d).items()}
        for l in range(ml + 1):
            for c in range(mc + 1):
                i = spec_index(d, l, c)
                want.append("none" if i is None else str(bm[i]))
        ctx.stat("applier positions cross-checked", len(want))
        if ",".join(want) != line:
            bad.append((d, line[:80], ",".join(want)[:80]))
    # whole edits on a sample
    r = ctx.rng
    sample = [d for d in docs if d][:]
    r.shuffle(sample)
    sample = sample[:400]
    alines, exp = [], []
    for d in sample:
        ml = d.count("\n") + d.count("\r") + 1
        mc = u16len(d) + 1
        l1, c1, l2, c2 = r.randint(0, ml), r.randint(0, mc), r.randint(0, ml), r.randint(0, mc)
        alines.append("lsp_apply\t%s\t%d\t%d\t%d\t%d\t%s" % (common.hexs(d), l1, c1, l2, c2, common.hexs(T_NEW)))
        got = apply_edit(d, rng(l1, c1, l2, c2), T_NEW)
        exp.append("none" if got is None else "some:" + common.hexs(got))
    rc, res, err = common.run_lines(mdl, [], alines, shards=1, timeout=300)
    for d, a, e, g in zip(sample, alines, exp, res):
        ctx.stat("applier edits cross-checked")
        if e != g:
            bad.append((d, a, e, g))
    if bad:
        ctx.broken("correspondence:spec-applier", "Python and Coq specification appliers differ on %d cases, e.g. %r"
                   % (len(bad), bad[:3]))


def big_values(ctx, exe, mdl):
    """Huge offsets / lines / characters (clamping and `as u32`)."""
    docs = ["", "a", "é\n😀", "a\r\nb\n", "\n\n\n"]
    bigs = [2 ** 31 - 1, 2 ** 31, 2 ** 32 - 1, 2 ** 32, 2 ** 32 + 1, 2 ** 32 + 7, 2 ** 40, 2 ** 63 - 1, 2 ** 63, 2 ** 64 - 1]
    reqs, lines = [], []
    for d in docs:
        blen = len(d.encode("utf-8"))
        for v in bigs:
            for (o, l) in ((v, 0), (blen, v), (v, v), (0, v)):
                reqs.append({"op": "lsp_pos", "src": d, "offset": o, "line": l})
                lines.append("lsp_o2p\t%s\t%d\t%d" % (common.hexs(d), o, l))
            for (l, c) in ((v, 0), (0, v), (v, v), (1, v)):
                reqs.append({"op": "lsp_pos", "src": d, "line_char": [l, c]})
                lines.append("lsp_lc2o\t%s\t%d\t%d" % (common.hexs(d), l, c))
    res = oracle.batch(exe, reqs, shards=1)
    rc, mres, err = common.run_lines(mdl, [], lines, shards=1)
    bad = []
    for q, r, m in zip(reqs, res, mres):
        if "offset" in q:
            got = "P" if "panic" in r else "%d,%d" % tuple(r.get("position", [-1, -1]))
        else:
            got = "P" if "panic" in r else str(r.get("offset"))
        ctx.case({"big": q}, True)
        ctx.stat("huge-value conversions")
        if got != m:
            bad.append((q, got, m))
    if bad:
        ctx.broken("correspondence:lsp_pos:huge-values", "differ on %d cases, e.g. %r" % (len(bad), bad[:3]))


def lexer_lines(ctx, exe, docs):
    """garden's token positions carry line_number = number of LF before start_offset (LspPos.line_of)."""
    res = oracle.batch(exe, [{"op": "lex", "src": d} for d in docs])
    bad, multi = [], 0
    for d, r in zip(docs, res):
        b = d.encode("utf-8")
        for t in r.get("tokens", []) or []:
            so, eo, ln, eln = t["pos"][:4]
            ctx.stat("lexer token positions compared with line_of")
            if ln != b[:so].count(b"\n"):
                bad.append((d, t))
            if eln != b[:eo].count(b"\n"):
                multi += 1
    if multi:
        ctx.stat("tokens whose end_line_number is not the LF count at end_offset (multi-line tokens: C23)", multi)
    if bad:
        ctx.broken("correspondence:line_of", "lexer line_number differs from the LF count before the token on %d tokens, "
                   "e.g. %r" % (len(bad), bad[:2]))


