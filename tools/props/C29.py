"""C29 -- LSP positions and edits map exactly onto the document."""
import itertools
import json
import os
import shutil
import subprocess
import tempfile

from vplib import common, oracle

LEVEL = "proof"
RULE = ("Coq: Properties/C29.v over LspPos.v (model of offset_to_lsp_position / line_char_to_offset / "
        "whole_document_range and of the LSP specification's range edit). Dynamic: (1) correspondence of the three "
        "functions, extracted model vs the real functions through `garden verif-batch` op lsp_pos, on ALL documents "
        "up to length 4 (quick) / 5 (thorough) over {a, e-acute, euro, U+1F600, LF, CR}, every byte offset 0..len+2 "
        "(incl. non-boundaries, where both must panic) and every (line, character) in a grid reaching past the "
        "document, plus random longer documents and huge line/character/offset values; the lexer's line numbers "
        "are compared with line_of; (2) the round trip and the whole-document / span edits are checked directly on "
        "the implementation's answers with an independent Python LSP-specification applier (itself cross-checked "
        "against the extracted Coq applier); (3) end to end: the real `garden lsp` server over stdio "
        "(Content-Length framing) is asked for formatting, rename and code actions on generated programs (non-ASCII "
        "strings/comments, CRLF), the returned edits are applied by the specification applier and compared with the "
        "command-line refactoring (`garden format`, `reftest-rename`, `reftest-extract-variable`, ...). A case is "
        "non-trivial when the document contains a multi-byte character, CR or LF.")
META = {
    "technique": "Coq proof over a hand-written model of the conversion functions + exhaustive differential execution of the "
                 "extracted model vs the binary on all small documents + real LSP server driven end to end",
    "level_text": ("Coq theorems over LspPos.v, for ALL documents (lists of Unicode scalar values) below 4 GiB: "
                   "pos_roundtrip (offset -> position -> offset is the identity on every character-boundary offset, "
                   "CR or not); whole_range_covers and range_edit_is_splice (the LSP-specification applier, given the "
                   "range garden computes, performs exactly the byte splice) for documents in which every CR is "
                   "followed by LF and spans that do not start or end between CR and LF; *_refuted lemmas give the "
                   "witness documents (bare CR, offset between CR and LF) showing these hypotheses are necessary."),
    "level_note": ("Trusted: Coq kernel; the reading of Rust std (`str` slicing/rfind/find/lines/char_indices, "
                   "`as u32`) and of the LSP specification written in coq/LspPos.v (modelled, not verified; tied to the "
                   "code by the exhaustive small-document correspondence); extraction + OCaml glue (UTF-8 decoding); "
                   "the cfg-gated hook; the Python JSON-RPC client. The line numbers garden attaches to positions are "
                   "assumed to be the lexer's LF-count (checked dynamically against the lexer; multi-line tokens are "
                   "C23's subject). Which refactoring text is produced is not part of C29 (C17-C22)."),
    "design_ref": "DESIGN.md §5 C29",
}

ALPHABET = ["a", "é", "€", "\U0001F600", "\n", "\r"]
U32 = 2 ** 32
JUNK_LINE = 4242      # sent as the `line` of lsp_pos requests: the conversion must ignore it


# ---------------------------------------------------------------------------
# Independent Python reading of the LSP specification (positions, range edits)

def u16len(s):
    return len(s.encode("utf-16-le")) // 2


def spec_lines(text):
    """[(start_index, end_index_excluding_eol)] of every line, EOL in {\\n, \\r\\n, \\r}; indices in code points."""
    lines = []
    i, start, n = 0, 0, len(text)
    while i < n:
        ch = text[i]
        if ch == "\n":
            lines.append((start, i))
            i += 1
            start = i
        elif ch == "\r":
            lines.append((start, i))
            i += 2 if i + 1 < n and text[i + 1] == "\n" else 1
            start = i
        else:
            i += 1
    lines.append((start, n))
    return lines


def spec_index(text, line, character):
    """Code-point index denoted by an LSP position, None inside a surrogate pair."""
    lines = spec_lines(text)
    if line >= len(lines):
        return len(text)
    a, b = lines[line]
    units = 0
    i = a
    while i < b:
        if units >= character:
            return i
        w = 2 if ord(text[i]) >= 0x10000 else 1
        if character - units < w:
            return None
        units += w
        i += 1
    return i


def apply_edit(text, rng, new):
    """Apply one TextEdit as the specification defines; None if the range is not meaningful."""
    a = spec_index(text, rng["start"]["line"], rng["start"]["character"])
    b = spec_index(text, rng["end"]["line"], rng["end"]["character"])
    if a is None or b is None or b < a:
        return None
    return text[:a] + new + text[b:]


def apply_edits(text, edits):
    """All edits of one document: ranges refer to the ORIGINAL text and must not overlap."""
    spans = []
    for e in edits:
        r = e["range"]
        a = spec_index(text, r["start"]["line"], r["start"]["character"])
        b = spec_index(text, r["end"]["line"], r["end"]["character"])
        if a is None or b is None or b < a:
            return None
        spans.append((a, b, e["newText"]))
    spans.sort(key=lambda x: (x[0], x[1]))
    for (x, y) in zip(spans, spans[1:]):
        if x[1] > y[0]:
            return None
    out = text
    for a, b, t in reversed(spans):
        out = out[:a] + t + out[b:]
    return out


def byte_to_index(text, o):
    """code-point index of byte offset o, None off a boundary / past the end."""
    n = 0
    for i, ch in enumerate(text):
        if n == o:
            return i
        n += len(ch.encode("utf-8"))
        if n > o:
            return None
    return len(text) if n == o else None


def no_lone_cr(text):
    return all(text[i + 1:i + 2] == "\n" for i, ch in enumerate(text) if ch == "\r")


def rng(l1, c1, l2, c2):
    return {"start": {"line": l1, "character": c1}, "end": {"line": l2, "character": c2}}


def doc_class(text):
    if not no_lone_cr(text):
        return "lone-cr"
    if "\r" in text:
        return "crlf"
    return "lf-only"


# ---------------------------------------------------------------------------

def all_docs(maxlen):
    for n in range(maxlen + 1):
        for t in itertools.product(ALPHABET, repeat=n):
            yield "".join(t)


def random_doc(r, n):
    extra = ["b", " ", "\t", "ß", "中", "\U0001F468", "‍", "\r\n", "\n", "x"]
    return "".join(r.choice(ALPHABET + extra) for _ in range(n))


def parse_model_doc(line):
    parts = dict(p.split("=", 1) for p in line.split("|"))
    o2p = []
    for e in parts["o2p"].split(";"):
        pos, rest = e.split("@")
        o2p.append((pos, int(rest[:-1]), rest[-1] == "b"))
    lc = [int(x) for x in parts["lc2o"].split(",")]
    wl, wc = parts["whole"].split(",")
    return o2p, lc, (int(wl), int(wc))


def correspondence(ctx, exe, mdl, docs, tag):
    """Model vs implementation on every offset / (line, character) of each document.
    Returns {doc: (o2p list, lc grid, whole_end, ml, mc)} from the IMPLEMENTATION for the property search."""
    geom = []
    mlines = []
    reqs = []
    index = []
    for d in docs:
        blen = len(d.encode("utf-8"))
        ml = d.count("\n") + d.count("\r") + 2
        mc = u16len(d) + 2
        geom.append((blen, ml, mc))
        mlines.append("lsp_doc\t%s\t%d\t%d" % (common.hexs(d), ml, mc))
        offs = list(range(blen + 3))
        lcs = [(l, c) for l in range(ml + 1) for c in range(mc + 1)]
        for o in offs:
            # `line` is what a caller used to supply; the function must not depend on it
            reqs.append({"op": "lsp_pos", "src": d, "offset": o, "line": JUNK_LINE})
        for lc in lcs:
            reqs.append({"op": "lsp_pos", "src": d, "line_char": list(lc)})
        index.append((len(offs), len(lcs)))
    ctx.log("%s: %d documents, %d hook requests" % (tag, len(docs), len(reqs)))
    res = oracle.batch(exe, reqs, timeout=1200)
    model = None
    if mdl:
        rc, model, err = common.run_lines(mdl, [], mlines, shards=common.NCPU, timeout=1200)
    out = {}
    pos = 0
    nbad = 0
    for di, d in enumerate(docs):
        noff, nlc = index[di]
        rs = res[pos:pos + noff]
        rl = res[pos + noff:pos + noff + nlc]
        pos += noff + nlc
        blen, ml, mc = geom[di]
        i_o2p = []
        for k in range(noff):
            r = rs[k]
            if "panic" in r:
                i_o2p.append("P")
            elif "position" in r:
                i_o2p.append("%d,%d" % tuple(r["position"]))
            else:
                i_o2p.append("?" + json.dumps(r)[:60])
        i_lc = []
        for k in range(nlc):
            r = rl[k]
            i_lc.append(r.get("offset", "P" if "panic" in r else "?"))
        we = rl[0].get("whole_end") if rl else None
        i_whole = tuple(we) if we else ("?",)
        out[d] = (i_o2p, i_lc, i_whole, ml, mc)
        nontrivial = any(ord(ch) > 127 or ch in "\r\n" for ch in d)
        ctx.case({"doc": d, "tag": tag}, nontrivial)
        ctx.stat("docs " + doc_class(d))
        ctx.stat("conversions checked", noff + nlc + 1)
        if model:
            try:
                m_o2p, m_lc, m_whole = parse_model_doc(model[di])
            except Exception:
                ctx.broken("correspondence:model-output", "unparsable model line for %r: %s" % (d, model[di][:200]))
                model = None
                continue
            diffs = []
            for k in range(noff):
                # the model's line_of (the lexer's line number) must be the LF count before the offset
                lf = d.encode("utf-8")[:k].count(b"\n")
                mpos, mline, mb = m_o2p[k]
                if mb and mline != lf:
                    diffs.append("line_of(%d): model %d, LF-count %d" % (k, mline, lf))
                if i_o2p[k] != mpos:
                    diffs.append("offset_to_lsp_position(%d): impl %s, model %s" % (k, i_o2p[k], mpos))
            for k in range(nlc):
                if i_lc[k] != m_lc[k]:
                    diffs.append("line_char_to_offset(%d,%d): impl %s, model %s"
                                 % (k // (mc + 1), k % (mc + 1), i_lc[k], m_lc[k]))
            if i_whole != m_whole:
                diffs.append("whole_document_range end: impl %s, model %s" % (i_whole, m_whole))
            if diffs:
                nbad += 1
                ctx.stat("correspondence_mismatch")
                ctx.cov.setdefault("corr", [])
                if len(ctx.cov["corr"]) < 10:
                    ctx.cov["corr"].append({"doc": d, "diffs": diffs[:5]})
    if nbad:
        ctx.broken("correspondence:lsp_pos:" + tag, "model and implementation differ on %d documents, e.g. %s"
                   % (nbad, ctx.cov["corr"][:3]))
    return out


# ---------------------------------------------------------------------------
# Property search on the implementation's own answers

T_NEW = "Z€\n"      # replacement text used by the edit checks


def utf8_index_map(text):
    """byte offset -> code point index for every boundary."""
    m = {}
    n = 0
    for i, ch in enumerate(text):
        m[n] = i
        n += len(ch.encode("utf-8"))
    m[n] = len(text)
    return m


def between_cr_lf(text, idx):
    return 0 < idx < len(text) and text[idx - 1] == "\r" and text[idx] == "\n"


def report(ctx, key, what, replay):
    """One replay per failing-input class (the first, i.e. smallest, input); the rest are counted."""
    ctx.stat("failing inputs " + key)
    seen = ctx.cov.setdefault("reported_keys", [])
    if key in seen:
        return
    seen.append(key)
    ctx.violation(key, what, replay)


def property_search(ctx, impl, tag, spans=True):
    """impl: {doc: (o2p, lc grid, whole_end, ml, mc)} as answered by the real functions."""
    for d, (o2p, lc, whole, ml, mc) in impl.items():
        bmap = utf8_index_map(d)
        cls = doc_class(d)
        blen = len(d.encode("utf-8"))
        pos_of = {}
        # 1. round trip on every boundary offset
        for o in sorted(bmap):
            p = o2p[o]
            ctx.stat("roundtrip offsets")
            if p == "P" or p.startswith("?"):
                report(ctx, "C29:roundtrip:panic", "offset_to_lsp_position(%r, %d) on a character boundary: %s" % (d, o, p),
                              {"kind_of_case": "roundtrip", "doc": d, "offset": o, "observed": p})
                continue
            l, c = (int(x) for x in p.split(","))
            pos_of[o] = (l, c)
            back = lc[l * (mc + 1) + c] if l <= ml and c <= mc else None
            if back != o:
                report(ctx, "C29:roundtrip:%s" % cls,
                              "offset %d of %r -> (%d,%d) -> offset %s" % (o, d, l, c, back),
                              {"kind_of_case": "roundtrip", "doc": d, "offset": o, "position": [l, c],
                               "expected": o, "observed": back})
        # 2. whole_document_range replaced under the specification
        if len(whole) == 2:
            got = apply_edit(d, rng(0, 0, whole[0], whole[1]), T_NEW)
            ctx.stat("whole-range edits")
            if got != T_NEW:
                report(ctx, "C29:lone-cr:whole-range" if cls == "lone-cr" else "C29:whole-range:%s" % cls,
                              "replacing whole_document_range(%r) = (0,0)-(%d,%d) by %r as the LSP specification "
                              "defines gives %r" % (d, whole[0], whole[1], T_NEW, got),
                              {"kind_of_case": "whole-range", "doc": d, "whole_end": list(whole), "new_text": T_NEW,
                               "expected": T_NEW, "observed": got})
        # 3. every span [a, b) sent as the range garden computes
        if not spans:
            continue
        offs = sorted(pos_of)
        for ai, a in enumerate(offs):
            for b in offs[ai:]:
                (l1, c1), (l2, c2) = pos_of[a], pos_of[b]
                ia, ib = bmap[a], bmap[b]
                want = d[:ia] + T_NEW + d[ib:]
                got = apply_edit(d, rng(l1, c1, l2, c2), T_NEW)
                ctx.stat("span edits")
                if got == want:
                    continue
                if cls != "lone-cr" and (between_cr_lf(d, ia) or between_cr_lf(d, ib)):
                    # predicted by range_edit_mid_crlf_refuted; no token starts or ends there
                    ctx.stat("span edits with an end between CR and LF (differ, as range_edit_mid_crlf_refuted says)")
                    continue
                report(ctx, "C29:lone-cr:span-edit" if cls == "lone-cr" else "C29:span-edit:%s" % cls,
                              "span %d..%d of %r sent as (%d,%d)-(%d,%d): the specification applier gives %r, the byte "
                              "splice %r" % (a, b, d, l1, c1, l2, c2, got, want),
                              {"kind_of_case": "span-edit", "doc": d, "span": [a, b], "range": [l1, c1, l2, c2],
                               "new_text": T_NEW, "expected": want, "observed": got})


def applier_crosscheck(ctx, mdl, docs):
    """The Python specification applier against the extracted Coq one."""
    lines, geo = [], []
    for d in docs:
        ml = d.count("\n") + d.count("\r") + 2
        mc = u16len(d) + 2
        geo.append((ml, mc))
        lines.append("lsp_spec_doc\t%s\t%d\t%d" % (common.hexs(d), ml, mc))
    rc, res, err = common.run_lines(mdl, [], lines, shards=common.NCPU, timeout=900)
    bad = []
    for d, (ml, mc), line in zip(docs, geo, res):
        want = []
        bm = {v: k for k, v in utf8_index_map(d).items()}
        for l in range(ml + 1):
            for c in range(mc + 1):
                i = spec_index(d, l, c)
                want.append("none" if i is None else str(bm[i]))
        ctx.stat("applier positions cross-checked", len(want))
        if ",".join(want) != line:
            bad.append((d, line[:80], ",".join(want)[:80]))
    # whole edits on a sample
    r = ctx.rng
    sample = [d for d in docs if d][:]
    r.shuffle(sample)
    sample = sample[:400]
    alines, exp = [], []
    for d in sample:
        ml = d.count("\n") + d.count("\r") + 1
        mc = u16len(d) + 1
        l1, c1, l2, c2 = r.randint(0, ml), r.randint(0, mc), r.randint(0, ml), r.randint(0, mc)
        alines.append("lsp_apply\t%s\t%d\t%d\t%d\t%d\t%s" % (common.hexs(d), l1, c1, l2, c2, common.hexs(T_NEW)))
        got = apply_edit(d, rng(l1, c1, l2, c2), T_NEW)
        exp.append("none" if got is None else "some:" + common.hexs(got))
    rc, res, err = common.run_lines(mdl, [], alines, shards=1, timeout=300)
    for d, a, e, g in zip(sample, alines, exp, res):
        ctx.stat("applier edits cross-checked")
        if e != g:
            bad.append((d, a, e, g))
    if bad:
        ctx.broken("correspondence:spec-applier", "Python and Coq specification appliers differ on %d cases, e.g. %r"
                   % (len(bad), bad[:3]))


def big_values(ctx, exe, mdl):
    """Huge offsets / lines / characters (clamping and `as u32`)."""
    docs = ["", "a", "é\n😀", "a\r\nb\n", "\n\n\n"]
    bigs = [2 ** 31 - 1, 2 ** 31, 2 ** 32 - 1, 2 ** 32, 2 ** 32 + 1, 2 ** 32 + 7, 2 ** 40, 2 ** 63 - 1, 2 ** 63, 2 ** 64 - 1]
    reqs, lines = [], []
    for d in docs:
        blen = len(d.encode("utf-8"))
        for v in bigs:
            for o in (v, v - 1):
                reqs.append({"op": "lsp_pos", "src": d, "offset": o, "line": v})
                lines.append("lsp_o2p\t%s\t%d" % (common.hexs(d), o))
            for (l, c) in ((v, 0), (0, v), (v, v), (1, v)):
                reqs.append({"op": "lsp_pos", "src": d, "line_char": [l, c]})
                lines.append("lsp_lc2o\t%s\t%d\t%d" % (common.hexs(d), l, c))
    res = oracle.batch(exe, reqs, shards=1)
    rc, mres, err = common.run_lines(mdl, [], lines, shards=1)
    bad = []
    for q, r, m in zip(reqs, res, mres):
        if "offset" in q:
            got = "P" if "panic" in r else "%d,%d" % tuple(r.get("position", [-1, -1]))
        else:
            got = "P" if "panic" in r else str(r.get("offset"))
        ctx.case({"big": q}, True)
        ctx.stat("huge-value conversions")
        if got != m:
            bad.append((q, got, m))
    if bad:
        ctx.broken("correspondence:lsp_pos:huge-values", "differ on %d cases, e.g. %r" % (len(bad), bad[:3]))


def lexer_lines(ctx, exe, docs):
    """garden's token positions carry line_number = number of LF before start_offset (LspPos.line_of)."""
    res = oracle.batch(exe, [{"op": "lex", "src": d} for d in docs])
    bad, multi = [], 0
    for d, r in zip(docs, res):
        b = d.encode("utf-8")
        for t in r.get("tokens", []) or []:
            so, eo, ln, eln = t["pos"][:4]
            ctx.stat("lexer token positions compared with line_of")
            if ln != b[:so].count(b"\n"):
                bad.append((d, t))
            if eln != b[:eo].count(b"\n"):
                multi += 1
    if multi:
        ctx.stat("tokens whose end_line_number is not the LF count at end_offset (multi-line tokens: C23)", multi)
    if bad:
        ctx.broken("correspondence:line_of", "lexer line_number differs from the LF count before the token on %d tokens, "
                   "e.g. %r" % (len(bad), bad[:2]))


# ---------------------------------------------------------------------------
# End to end: the real `garden lsp` server, edits applied by the specification applier, vs the CLI refactorings

TEMPLATES = [
    'fun foo(x: Int): Int {\n  let s = "@S@" // @C@\n  let \x03y = \x01x + 1\x02 println("@T@") let w = \x01\x03y * 2\x02\n'
    '  if y > 2 { \x03w } else { \x01\x03x * 2\x02 }\n}\n',
    '// @C@\nfun greet(name: String): String {\n  let greeting = "@S@" let full = \x01greeting.concat(\x03name)\x02 // @C@\n'
    '  \x03full\n}\n\nfun other() {\n  let msg = "@T@" println(\x01\x03msg\x02)\n}\n',
    'enum Shape { Circle(Int), Square }\n\nfun area(sh: Shape): Int {\n  let label = "@S@" let r = \x01\x03sh\x02 // @C@\n'
    '  println(label) match \x03r { Circle(n) => \x01\x03n * n\x02 Square => 1 }\n}\n',
    'fun shout(p: String) {\n     let q = "@S@".\x01lenn\x02() println("@T@".concat(\x03p))   \n  println(\x01\x03q\x02) // @C@\n}\n',
    'fun pair(a: Int, b: Int): Int {\n  let t = "@S@" /* plain */ let c = "@T@" let u = \x01\x03a + \x03b\x02\n  println(t) println(c)\n  \x03u\n}',
    # quick fixes whose position is not a token span: "Remove unused value" takes the whole line (its end offset is
    # past the newline), the repeated-operand fix starts on the previous line
    'fun lit() {\n  \x01"@S@"\x02\n  println("@T@")\n}\n',
    'fun num(k: Int) {\n  println("@S@") // @C@\n  \x0142\x02\n  println(k)\n}\n',
    'fun rb(x: Bool): Bool {\n  println("@S@") \x01x ||\n    x\x02\n}\n',
]
STRS = ["abc", "é", "€😀", "😀é😀", "x\\ny", "é\n😀", "\U0001F468\u200d\U0001F469 ß"]
CMTS = ["note", "é€", "😀 x 😀"]
EOLS = ["lf", "crlf", "lf", "crlf", "mixed", "lone-cr"]
TITLE_CLI = {
    "Extract variable": lambda f, a, b: ["reftest-extract-variable", f, str(a), str(b), "--name", "extracted"],
    "Extract function": lambda f, a, b: ["reftest-extract-function", f, str(a), str(b), "--name", "extracted"],
    "Wrap in dbg()": lambda f, a, b: ["reftest-wrap-in-dbg", f, str(a), str(b)],
    "Add type annotation": lambda f, a, b: ["reftest-add-type-annotation", f, str(a), str(b)],
    "Destructure enum": lambda f, a, b: ["reftest-destructure", f, str(a), str(b)],
}


def gen_program(r, k):
    t = TEMPLATES[k % len(TEMPLATES)]
    t = t.replace("@S@", r.choice(STRS)).replace("@T@", r.choice(STRS))
    while "@C@" in t:
        t = t.replace("@C@", r.choice(CMTS), 1)
    eol = EOLS[(k % len(TEMPLATES) + k // len(TEMPLATES)) % len(EOLS)]
    if eol == "crlf":
        t = t.replace("\n", "\r\n")
    elif eol == "mixed":
        t = "".join(("\r\n" if (ch == "\n" and r.random() < 0.5) else ch) for ch in t)
    elif eol == "lone-cr":
        nl = [i for i, ch in enumerate(t) if ch == "\n"]
        i = r.choice(nl[:-1] or nl)
        t = t[:i] + "\r" + t[i + 1:]
    text, spans, idents, open_ = [], [], [], None
    for ch in t:
        n = len(text)
        if ch == "\x01":
            open_ = n
        elif ch == "\x02":
            spans.append((open_, n))
        elif ch == "\x03":
            idents.append(n)
        else:
            text.append(ch)
    return "".join(text), spans, idents, eol


def rust_lines(text):
    out = []
    for piece in text.split("\n"):
        out.append(piece)
    if out and out[-1] == "":
        out.pop()
    else:
        # the final piece has no "\n": it is yielded unchanged
        return [l[:-1] if l.endswith("\r") else l for l in out[:-1]] + out[-1:]
    return [l[:-1] if l.endswith("\r") else l for l in out]


def check_cli_view(text):
    """`garden check` reads the file through remove_testing_footer: lines() re-joined with "\n" (CRLF -> LF, final
    newline added).  The quick-fix comparison is made modulo this normalisation of the command line's input."""
    out = []
    for l in rust_lines(text):
        if l.startswith("// args: "):
            break
        out.append(l + "\n")
    return "".join(out)


def spec_position(text, idx):
    """The LSP position a client would send for code point index idx (None between CR and LF)."""
    if between_cr_lf(text, idx):
        return None
    ls = spec_lines(text)
    for ln in range(len(ls) - 1, -1, -1):
        if ls[ln][0] <= idx:
            return ln, u16len(text[ls[ln][0]:idx])
    return 0, 0


def frame(o):
    b = json.dumps(o).encode("utf-8")
    return b"Content-Length: %d\r\n\r\n" % len(b) + b


def parse_frames(b):
    out, i = [], 0
    while True:
        j = b.find(b"Content-Length:", i)
        if j < 0:
            break
        k = b.find(b"\r\n\r\n", j)
        if k < 0:
            break
        n = int(b[j + 15:k].split(b"\r\n")[0].strip())
        body = b[k + 4:k + 4 + n]
        try:
            out.append(json.loads(body.decode("utf-8")))
        except Exception:
            out.append({"unparsable": body[:200].decode("utf-8", "replace")})
        i = k + 4 + n
    return out


def lsp_session(exe, uri, text, requests, timeout=60):
    """One `garden lsp` process over stdio. requests: [(id, method, params)]. Returns ({id: message}, rc, stderr)."""
    msgs = [{"jsonrpc": "2.0", "id": 0, "method": "initialize", "params": {"capabilities": {}}},
            {"jsonrpc": "2.0", "method": "initialized", "params": {}},
            {"jsonrpc": "2.0", "method": "textDocument/didOpen",
             "params": {"textDocument": {"uri": uri, "languageId": "garden", "version": 1, "text": text}}}]
    for (i, m, p) in requests:
        msgs.append({"jsonrpc": "2.0", "id": i, "method": m, "params": p})
    msgs.append({"jsonrpc": "2.0", "id": 999999, "method": "shutdown"})
    msgs.append({"jsonrpc": "2.0", "method": "exit"})
    env = dict(os.environ)
    env["RUST_BACKTRACE"] = "0"
    try:
        p = subprocess.run([exe, "lsp"], input=b"".join(frame(m) for m in msgs), capture_output=True, timeout=timeout, env=env)
        rc, out, err = p.returncode, p.stdout, p.stderr.decode("utf-8", "replace")
    except subprocess.TimeoutExpired as e:
        rc, out, err = 124, e.stdout or b"", "timeout"
    by_id = {}
    for m in parse_frames(out):
        if "id" in m and m.get("id") is not None and "method" not in m:
            by_id[m["id"]] = m
    return by_id, rc, err


def e2e_one(exe, d, k, text, spans, idents):
    """Returns a list of result records for one program."""
    f = os.path.join(d, "p%d.gdn" % k)
    with open(f, "wb") as fh:
        fh.write(text.encode("utf-8"))
    uri = "file://" + f
    tdoc = {"uri": uri}
    reqs = [(1, "textDocument/formatting", {"textDocument": tdoc, "options": {"tabSize": 2, "insertSpaces": True}})]
    plan = [("formatting", 1, None)]
    for n, idx in enumerate(idents):
        sp = spec_position(text, idx)
        if sp is None:
            continue
        reqs.append((100 + n, "textDocument/rename",
                     {"textDocument": tdoc, "position": {"line": sp[0], "character": sp[1]}, "newName": "zz9"}))
        plan.append(("rename", 100 + n, idx))
    for n, (a, b) in enumerate(spans):
        pa, pb = spec_position(text, a), spec_position(text, b)
        if pa is None or pb is None:
            continue
        reqs.append((200 + n, "textDocument/codeAction",
                     {"textDocument": tdoc, "range": rng(pa[0], pa[1], pb[0], pb[1]), "context": {"diagnostics": []}}))
        plan.append(("code-action", 200 + n, (a, b)))
    # every quick fix of the document: comparable with `garden check --fix` when there is exactly one
    reqs.append((300, "textDocument/codeAction",
                 {"textDocument": tdoc, "range": rng(0, 0, 1000000, 0), "context": {"diagnostics": []}}))
    plan.append(("quickfix", 300, None))
    by_id, rc, err = lsp_session(exe, uri, text, reqs)
    recs = []

    def boff(i):
        return len(text[:i].encode("utf-8"))

    def cli(args):
        crc, out, cerr = oracle.garden_cli(exe, args, timeout=60)
        return crc, out, cerr

    def compare(feature, what, edits, cargs, request, view=lambda t: t, title=None):
        crc, cout, cerr = cli(cargs)
        rec = {"feature": feature, "what": what, "cli": cargs, "cli_rc": crc, "request": request, "edits": edits,
               "title": title}
        if crc in (101, 124) or "panicked at" in cerr:
            rec["verdict"] = "cli-crashed"
        elif edits is None:
            rec["verdict"] = "ok-both-decline" if crc != 0 else "server-declines"
            rec["expected"] = cout
        elif crc != 0:
            rec["verdict"] = "cli-declines"
        else:
            got = apply_edits(text, edits)
            rec["expected"], rec["observed"] = cout, got
            rec["verdict"] = "ok" if (got is not None and view(got) == cout) else "mismatch"
        recs.append(rec)

    for (feature, rid, arg) in plan:
        m = by_id.get(rid)
        if m is None or "error" in m:
            recs.append({"feature": "code-action" if feature == "quickfix" else feature, "what": str(arg),
                         "verdict": "no-response", "server_rc": rc,
                         "stderr": err[-300:], "response": m})
            continue
        res = m.get("result")
        if feature == "formatting":
            compare(feature, "whole document", res if res else None, ["format", f], "textDocument/formatting")
        elif feature == "quickfix":
            quick = [((act.get("edit") or {}).get("changes") or {}).get(uri) for act in res or []
                     if act.get("kind") == "quickfix"]
            if len(quick) == 1:
                compare("code-action", "the only quick fix (%s)" % [a.get("title") for a in res if a.get("kind") == "quickfix"][0],
                        quick[0], ["check", "--fix", "--stdout", f], reqs[-1][2], view=check_cli_view, title="quickfix")
        elif feature == "rename":
            edits = None
            if res and res.get("changes"):
                edits = res["changes"].get(uri)
            compare(feature, "identifier at code point %d" % arg, edits,
                    ["reftest-rename", f, str(boff(arg)), "--new-name", "zz9"], reqs[[r[0] for r in reqs].index(rid)][2])
        else:
            a, b = arg
            offered = {}
            for act in res or []:
                if act.get("kind") != "quickfix":
                    offered[act.get("title")] = ((act.get("edit") or {}).get("changes") or {}).get(uri)
            rq = reqs[[r[0] for r in reqs].index(rid)][2]
            for title, mk in TITLE_CLI.items():
                if title in ("Extract variable", "Extract function") and a >= b:
                    continue
                compare("code-action", "%s on %d..%d" % (title, a, b), offered.get(title), mk(f, boff(a), boff(b)), rq,
                        title=title)
    return recs


def end_to_end(ctx, exe):
    import concurrent.futures
    n = (4 if ctx.thorough else 1) * len(TEMPLATES) * len(EOLS)
    r = ctx.rng
    progs = [gen_program(r, k) for k in range(n)]
    d = tempfile.mkdtemp(prefix="c29-", dir=oracle.scratch_dir())
    try:
        with concurrent.futures.ThreadPoolExecutor(common.NCPU) as ex:
            allrecs = list(ex.map(lambda kp: e2e_one(exe, d, kp[0], kp[1][0], kp[1][1], kp[1][2]), enumerate(progs)))
    finally:
        shutil.rmtree(d, ignore_errors=True)
    for (text, spans, idents, eol), recs in zip(progs, allrecs):
        cls = doc_class(text)
        for rec in recs:
            v = rec["verdict"]
            ctx.case({"e2e": rec["feature"], "what": rec["what"], "doc": text}, True)
            ctx.stat("e2e %s %s" % (rec["feature"], v))
            ctx.stat("e2e documents " + eol, 0)
            if v in ("ok", "ok-both-decline", "cli-crashed"):
                continue
            key = ("C29:lone-cr:%s" % rec["feature"]) if cls == "lone-cr" else "C29:e2e:%s:%s:%s" % (rec["feature"], v, cls)
            what = {"mismatch": "edits applied as the LSP specification defines differ from the command-line result",
                    "server-declines": "the server returned no edit but the command line performs the refactoring",
                    "cli-declines": "the server returned an edit but the command line refuses",
                    "no-response": "the server did not answer"}[v]
            report(ctx, key, "%s (%s, %s) on %r" % (what, rec["feature"], rec["what"], text),
                          {"kind_of_case": "e2e", "doc": text, "feature": rec["feature"], "what": rec["what"],
                           "request": rec.get("request"), "edits": rec.get("edits"), "cli_args": rec.get("cli"),
                           "expected": rec.get("expected"), "observed": rec.get("observed"), "verdict": v,
                           "title": rec.get("title"),
                           "cli_command": "garden lsp (didOpen + request) vs garden " + " ".join(rec.get("cli") or [])})
    for e in set(p[3] for p in progs):
        ctx.stat("e2e documents " + e, sum(1 for p in progs if p[3] == e))


def run(ctx):
    ctx.trusted = [
        "Coq 8.16.1 kernel (coqc); vm_compute for the witness lemmas",
        "coq/LspPos.v reading of Rust std (str slicing, rfind/find, lines(), char_indices, len_utf8/16, `as u32`) and of "
        "the LSP 3.17 specification of Position/Range/TextEdit -- modelled, not verified",
        "Extraction (ExtrOcamlBasic only) + ocaml/driver_core.ml, ops_lsppos.ml (UTF-8 decoding)",
        "cfg(wilfred_garden_verif) hook `verif-batch` ops lsp_pos (calls the three functions directly) and lex",
        "Python JSON-RPC client for `garden lsp` and the Python specification applier (cross-checked against the "
        "extracted Coq applier)",
    ]
    ctx.coq("Properties/C29.v")
    exe = ctx.impl()
    mdl = ctx.model()
    if not exe:
        return
    docs = list(all_docs(5 if ctx.thorough else 4))
    impl = correspondence(ctx, exe, mdl, docs, "exhaustive")
    property_search(ctx, impl, "exhaustive")
    r = ctx.rng
    rdocs = [random_doc(r, r.randint(5, 30)) for _ in range(1500 if ctx.thorough else 150)]
    rimpl = correspondence(ctx, exe, mdl, rdocs, "random")
    property_search(ctx, rimpl, "random")
    ctx.log("property search on the implementation's answers done")
    if mdl:
        applier_crosscheck(ctx, mdl, list(all_docs(4)) + rdocs[:100])
        big_values(ctx, exe, mdl)
    ctx.log("specification applier cross-checked; huge values done")
    progs = [gen_program(r, k)[0] for k in range(30)]
    lexer_lines(ctx, exe, progs + [d for d in rdocs if "\n" in d][:50])
    ctx.log("end to end: real LSP server vs command line")
    end_to_end(ctx, exe)
    ctx.notes.append("the line numbers in garden positions are taken to be the lexer's LF count (LspPos.line_of); "
                     "multi-line tokens carry end_line_number = start line (C23), which reaches LSP ranges only through "
                     "quick-fix positions ending in a multi-line string")
    ctx.notes.append("spans with an end between CR and LF cannot be expressed by an LSP position "
                     "(range_edit_mid_crlf_refuted); counted, not reported: no garden token starts or ends there")


def replay(ctx, rp):
    exe = ctx.impl()
    kind = rp.get("kind_of_case")
    d = rp.get("doc", "")
    print("document:", repr(d))
    if kind == "roundtrip":
        o = rp["offset"]
        r1 = oracle.batch(exe, [{"op": "lsp_pos", "src": d, "offset": o, "line": JUNK_LINE}], shards=1)[0]
        print("offset_to_lsp_position(%d) ->" % o, r1)
        if "position" not in r1:
            return 1
        r2 = oracle.batch(exe, [{"op": "lsp_pos", "src": d, "line_char": r1["position"]}], shards=1)[0]
        print("line_char_to_offset%r ->" % (tuple(r1["position"]),), r2.get("offset"), "| expected", o)
        return 0 if r2.get("offset") == o else 1
    if kind == "whole-range":
        r1 = oracle.batch(exe, [{"op": "lsp_pos", "src": d}], shards=1)[0]
        we = r1.get("whole_end")
        got = apply_edit(d, rng(0, 0, we[0], we[1]), rp["new_text"])
        print("whole_document_range end:", we, "| applied:", repr(got), "| expected:", repr(rp["new_text"]))
        return 0 if got == rp["new_text"] else 1
    if kind == "span-edit":
        a, b = rp["span"]
        bs = d.encode("utf-8")
        q = [{"op": "lsp_pos", "src": d, "offset": o, "line": JUNK_LINE} for o in (a, b)]
        r = oracle.batch(exe, q, shards=1)
        (l1, c1), (l2, c2) = r[0]["position"], r[1]["position"]
        got = apply_edit(d, rng(l1, c1, l2, c2), rp["new_text"])
        want = (bs[:a] + rp["new_text"].encode("utf-8") + bs[b:]).decode("utf-8")
        print("range:", (l1, c1, l2, c2), "| applied:", repr(got), "| byte splice:", repr(want))
        return 0 if got == want else 1
    if kind == "e2e":
        tmp = tempfile.mkdtemp(prefix="c29-replay-", dir=oracle.scratch_dir())
        try:
            f = os.path.join(tmp, "p0.gdn")
            with open(f, "wb") as fh:
                fh.write(d.encode("utf-8"))
            uri = "file://" + f
            method = {"formatting": "textDocument/formatting", "rename": "textDocument/rename",
                      "code-action": "textDocument/codeAction", "quickfix": "textDocument/codeAction"}[rp["feature"]]
            params = rp["request"] if isinstance(rp["request"], dict) else \
                {"textDocument": {"uri": uri}, "options": {"tabSize": 2, "insertSpaces": True}}
            params = json.loads(json.dumps(params))
            params["textDocument"] = {"uri": uri}
            by_id, rc, err = lsp_session(exe, uri, d, [(1, method, params)])
            print("server response:", json.dumps(by_id.get(1), ensure_ascii=False)[:2000])
            res = (by_id.get(1) or {}).get("result")
            edits = None
            if rp["feature"] == "formatting":
                edits = res or None
            elif rp["feature"] == "rename":
                edits = ((res or {}).get("changes") or {}).get(uri)
            else:
                for act in res or []:
                    if (rp.get("title") == "quickfix" and act.get("kind") == "quickfix") or act.get("title") == rp.get("title"):
                        edits = ((act.get("edit") or {}).get("changes") or {}).get(uri)
            args = [(f if (a.endswith(".gdn")) else a) for a in rp["cli_args"]]
            crc, out, cerr = oracle.garden_cli(exe, args)
            print("command line (garden %s): rc=%d" % (" ".join(args), crc))
            print(out)
            got = apply_edits(d, edits) if edits is not None else None
            if got is not None and args[0] == "check":
                got = check_cli_view(got)
            print("edits applied as the LSP specification defines:", repr(got))
            print("recorded verdict:", rp.get("verdict"))
            if edits is None:
                return 0 if crc != 0 else 1
            return 0 if (crc == 0 and got == out) else 1
        finally:
            shutil.rmtree(tmp, ignore_errors=True)
    print("unknown replay kind", kind)
    return 2
