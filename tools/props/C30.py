"""C30 -- nREPL delivers one final `done` per request, after all its output.

Also hosts the machinery shared with C31 (bencode, server/client driver, H4 log -> model labels, replay)."""
import os
import shutil
import socket
import subprocess
import tempfile
import threading
import time
import concurrent.futures

from vplib import common

LEVEL = "proof"
RULE = ("Coq: Properties/C30.v over Nrepl.v (transition system of nrepl.rs: reader, session workers, output flushers, "
        "writer; all interleavings, unbounded request sequences). Dynamic: fresh real servers (`garden nrepl --port 0`, "
        "hooked binary, injected yields/sleeps from a seed), one connection each, several sessions, randomised scripts "
        "(evals printing many chunks on stdout and stderr with busy loops so the 100 ms flusher interleaves, "
        "back-to-back requests, interrupts, closes, session-less ops); checked DIRECTLY on the socket: exactly one "
        "`done` per id, `done` last for its id, out/err concatenation == expected text per stream, sessions do not see "
        "each other's definitions; every H4 event log is replayed through the extracted `step` and the socket history "
        "predicted by the model is compared with the bytes received. A case is one request; non-trivial when it printed "
        "on a stream, was interrupted/closed, or shared its session queue with another in-flight request.")
META = {
    "technique": "Coq invariants over a small-step model of the nREPL threads + trace validation of the real server against the extracted model + socket-level property check under randomised schedules",
    "level_text": ("Coq theorems (all reachable states of Nrepl.step = all interleavings, any request sequence, all three "
                   "code variants of the model): one_done_per_id (<= 1 `done` per id on channel and socket, none for unreceived ids, exactly "
                   "one at quiescence), quiescent_is_stuck, done_is_last_for_id, out_before_done, "
                   "output_complete_in_order (per stream, concatenation of chunks before `done` = printed text), "
                   "sessions_isolated. Assumptions named in Nrepl.v: FIFO linearizable mpsc, mutex exclusion, SeqCst "
                   "atomics, evaluator does not panic (C02), socket stays writable, distinct request ids."),
    "level_note": ("The model is hand-written; it is tied to nrepl.rs by replaying H4 event logs of the real server "
                   "(action and log line under one lock) through the extracted step function and comparing the predicted "
                   "socket history with the received one. Not modelled: connection teardown, several connections, "
                   "bencode framing, value contents. Liveness is stated as 'exactly one done in every quiescent state' "
                   "plus 'quiescent = no internal move enabled'; fairness of the OS scheduler is not modelled."),
    "design_ref": "DESIGN.md §5 C30",
}


# ---------------------------------------------------------------- bencode
def benc(v):
    if isinstance(v, bool):
        v = int(v)
    if isinstance(v, int):
        return b"i%de" % v
    if isinstance(v, str):
        v = v.encode()
    if isinstance(v, bytes):
        return b"%d:" % len(v) + v
    if isinstance(v, (list, tuple)):
        return b"l" + b"".join(benc(x) for x in v) + b"e"
    if isinstance(v, dict):
        items = sorted((k.encode() if isinstance(k, str) else k, x) for k, x in v.items())
        return b"d" + b"".join(benc(k) + benc(x) for k, x in items) + b"e"
    raise TypeError(v)


class Short(Exception):
    pass


def bdec(b, i=0):
    if i >= len(b):
        raise Short()
    c = b[i:i + 1]
    if c == b"i":
        j = b.find(b"e", i)
        if j < 0:
            raise Short()
        return int(b[i + 1:j]), j + 1
    if c in (b"l", b"d"):
        i += 1
        r = []
        while True:
            if i >= len(b):
                raise Short()
            if b[i:i + 1] == b"e":
                break
            v, i = bdec(b, i)
            r.append(v)
        if c == b"d":
            r = {(k.decode("utf-8", "replace") if isinstance(k, bytes) else k): v for k, v in zip(r[0::2], r[1::2])}
        return r, i + 1
    j = b.find(b":", i)
    if j < 0:
        if len(b) - i > 12:
            raise ValueError("bad bencode")
        raise Short()
    n = int(b[i:j])
    if j + 1 + n > len(b):
        raise Short()
    return b[j + 1:j + 1 + n], j + 1 + n


def txt(v):
    return v.decode("utf-8", "replace") if isinstance(v, bytes) else v


def statuses(m):
    return [txt(x) for x in m.get("status", [])] if isinstance(m.get("status"), list) else []


# ---------------------------------------------------------------- server + client
class Server:
    def __init__(self, exe, seed, yields=True):
        self.dir = tempfile.mkdtemp(prefix="nrepl-verif-")
        self.log = os.path.join(self.dir, "events.log")
        env = dict(os.environ)
        env["GARDEN_VERIF_NREPL_LOG"] = self.log
        env["GARDEN_LOG"] = "error"
        if yields:
            env["GARDEN_VERIF_NREPL_YIELD"] = str(seed)
        self.p = subprocess.Popen([exe, "nrepl", "--port", "0"], cwd=self.dir, env=env,
                                  stdout=subprocess.DEVNULL, stderr=subprocess.DEVNULL)
        self.port = None
        pf = os.path.join(self.dir, ".nrepl-port")
        for _ in range(400):
            try:
                self.port = int(open(pf).read())
                break
            except (OSError, ValueError):
                time.sleep(0.025)

    def stop(self):
        try:
            self.p.kill()
            self.p.wait(5)
        except Exception:
            pass

    def events(self):
        try:
            return [l.split() for l in open(self.log).read().splitlines() if l.strip()]
        except OSError:
            return []

    def cleanup(self):
        shutil.rmtree(self.dir, ignore_errors=True)


class Client:
    """One TCP connection; a reader thread appends (time, message) to self.msgs."""

    def __init__(self, port):
        self.s = socket.create_connection(("127.0.0.1", port), timeout=10)
        self.s.settimeout(None)
        self.msgs = []
        self.cv = threading.Condition()
        self.closed = False
        self.sent = []          # (time, request dict)
        self.t = threading.Thread(target=self._rd, daemon=True)
        self.t.start()

    def _rd(self):
        buf = b""
        while True:
            try:
                x = self.s.recv(65536)
            except OSError:
                x = b""
            if not x:
                with self.cv:
                    self.closed = True
                    self.cv.notify_all()
                return
            buf += x
            while buf:
                try:
                    v, i = bdec(buf)
                except Short:
                    break
                except ValueError:
                    buf = b""
                    break
                buf = buf[i:]
                with self.cv:
                    self.msgs.append((time.time(), v))
                    self.cv.notify_all()

    def send(self, *reqs):
        now = time.time()
        for r in reqs:
            self.sent.append((now, r))
        self.s.sendall(b"".join(benc(r) for r in reqs))

    def wait(self, pred, timeout):
        """Wait until pred(list of messages) is truthy; returns its value (or None on timeout)."""
        end = time.time() + timeout
        with self.cv:
            while True:
                r = pred([m for _, m in self.msgs])
                if r:
                    return r
                left = end - time.time()
                if left <= 0 or self.closed:
                    return None
                self.cv.wait(min(left, 0.2))

    def wait_done(self, rid, timeout):
        return self.wait(lambda ms: [m for m in ms if txt(m.get("id")) == rid and "done" in statuses(m)], timeout)

    def wait_out(self, rid, marker, timeout):
        return self.wait(lambda ms: any(txt(m.get("id")) == rid and marker in txt(m.get("out", b"")) for m in ms), timeout)

    def close(self):
        try:
            self.s.shutdown(socket.SHUT_RDWR)
        except OSError:
            pass
        self.s.close()


# ---------------------------------------------------------------- programs
class Prog:
    """A Garden program with its expected stdout / stderr text."""

    def __init__(self):
        self.src = []
        self.out = ""
        self.err = ""

    def p(self, s, nl=True):
        self.src.append(('println("%s")' if nl else 'print("%s")') % s)
        self.out += s + ("\n" if nl else "")

    def e(self, s, nl=True):
        self.src.append(('eprintln("%s")' if nl else 'eprint("%s")') % s)
        self.err += s + ("\n" if nl else "")

    def spin(self, var, n):
        self.src.append("let %s = 0 while %s < %d { %s += 1 }" % (var, var, n, var))

    def burst(self, var, k, err=False):
        """One print of 16 * 2^k bytes built by doubling (a single large write right before the eval ends)."""
        self.src.append('let %s = "0123456789abcdef" let n%s = 0 while n%s < %d { %s = %s ^ %s n%s += 1 } %s(%s)'
                        % (var, var, var, k, var, var, var, var, "eprint" if err else "print", var))
        if err:
            self.err += "0123456789abcdef" * (2 ** k)
        else:
            self.out += "0123456789abcdef" * (2 ** k)

    def code(self):
        return " ".join(self.src)


def gen_prog(rng, tag, heavy):
    """Random printing program; heavy ones run a few hundred ms so the flusher interleaves."""
    pr = Prog()
    n = rng.randint(3, 12 if heavy else 5)
    for i in range(n):
        k = rng.random()
        w = "%s.%d.%s" % (tag, i, "x" * rng.randint(0, 30))
        if k < 0.45:
            pr.p(w, rng.random() < 0.8)
        elif k < 0.8:
            pr.e(w, rng.random() < 0.8)
        else:
            pr.p(w)
            pr.e(w)
        if heavy and rng.random() < 0.6:
            pr.spin("v%s_%d" % (tag.replace(".", "_"), i), rng.choice([2000, 15000, 40000, 70000]))
    if rng.random() < 0.2:
        # a large last burst (16 KiB .. 512 KiB): everything printed must arrive before `done`
        pr.burst("b%s" % tag.replace(".", "_"), rng.choice([10, 12, 13, 14, 15]), err=rng.random() < 0.3)
    pr.src.append("%d" % rng.randint(1, 999))
    return pr


# ---------------------------------------------------------------- H4 log -> model labels
def unhex(h):
    return b"" if h == "-" else bytes.fromhex(h)


def sess_index(name):
    name = txt(name)
    if name.startswith("garden-") and name[7:].isdigit():
        return int(name[7:]) - 1
    return 99999


def events_to_labels(evs):
    """Returns (labels, ids, ptexts, variant): ids[r] = client id of the r-th request; ptexts[t] = text of print
    token t; variant = code variant of coq/Nrepl.v the binary announces (0 as found, 1 fix-1, 2 fix-1+fix-2)."""
    labels, ids, ptexts = [], [], []
    uses_fix = 1 if any(e[1:3] == ["rd", "closed"] or (e[1] == "w" and e[3:4] == ["ldc"]) for e in evs) else 0
    for e in evs:
        if e[1] == "proto" and len(e) > 2 and e[2].isdigit():
            uses_fix = int(e[2])
    n = len(evs)
    for i, e in enumerate(evs):
        kind = e[1]
        if kind == "proto":
            continue
        if kind == "eof":
            break
        if kind == "recv":
            rid, op, sess = txt(unhex(e[2])), txt(unhex(e[3])), txt(unhex(e[4]))
            ids.append(rid)
            k = sess_index(sess)
            if op == "clone":
                labels.append("R:clone")
            elif op in ("eval", "load-file"):
                labels.append("R:sess:%d:e" % k)
            elif op in ("completions", "lookup"):
                labels.append("R:sess:%d:s" % k)
            elif op == "interrupt":
                labels.append("R:int:%d" % k)
            elif op == "close":
                labels.append("R:close:%d" % k)
            else:
                labels += ["R:plain", "r:plain"]
        elif kind == "rd":
            labels.append("r:" + e[2])
        elif kind == "wr":
            labels.append("W")
        elif kind == "w":
            k, a = e[2], e[3]
            if a == "print":
                ptexts.append(txt(unhex(e[5])))
                labels.append("w:%s:p%s:%d" % (k, "o" if e[4] == "out" else "e", len(ptexts) - 1))
            elif a == "fin":
                if e[4] == "ok":
                    cnt = 0
                    for f in evs[i + 1:]:
                        if f[1] == "w" and f[2] == k and f[3] == "send":
                            if f[4] == "done":
                                break
                            if f[4] == "text":
                                cnt += 1
                    labels.append("w:%s:fok:%d" % (k, cnt))
                elif e[4] == "err":
                    labels.append("w:%s:ferr" % k)
            elif a == "check":
                labels.append("w:%s:checkint" % k)
            elif a == "join":
                labels += ["f:%s:stop" % k, "w:%s:join" % k]   # the flusher's exit is not logged: it precedes join
            elif a in ("take", "send"):
                labels.append("w:%s:%s" % (k, a))
            else:
                labels.append("w:%s:%s" % (k, a))
        elif kind == "f":
            labels.append("f:%s:%s" % (e[2], e[3]))
    return labels, ids, ptexts, uses_fix


def socket_view(msgs, ids):
    """Socket messages in the vocabulary of the model's wire dump."""
    idx = {}
    for r, i in enumerate(ids):
        idx.setdefault(i, r)
    out = []
    for m in msgs:
        r = idx.get(txt(m.get("id", b"")), -1)
        st = statuses(m)
        if "done" in st:
            cls = "done"
            for c in ("eval-error", "interrupted", "unknown-session", "session-closed"):
                if c in st:
                    cls = c
            out.append(("d", r, cls))
        elif "out" in m:
            out.append(("o", r, "out", txt(m["out"])))
        elif "err" in m:
            out.append(("e?", r, "err", txt(m["err"])))
        else:
            out.append(("t", r))
    return out


def compare_wire(model_wire, sock, ptexts):
    """model_wire: list of strings from the driver; sock: socket_view. Returns None or a description of the first difference."""
    mw = [x for x in model_wire if x]
    if len(mw) > len(sock):
        return "model predicts %d messages on the socket, client received %d" % (len(mw), len(sock))
    for i, x in enumerate(mw):
        f = x.split(":")
        s = sock[i]
        if f[0] == "d":
            if s[0] != "d" or s[1] != int(f[1]) or s[2] != f[2]:
                return "message %d: model %s, socket %s" % (i, x, s)
        elif f[0] == "o":
            text = "".join(ptexts[int(t)] for t in f[4].split(",") if t != "")
            if s[0] not in ("o", "e?") or s[1] != int(f[2]) or s[2] != f[3] or s[3] != text:
                return "message %d: model %s (%r), socket %s" % (i, x, text[:60], str(s)[:120])
        elif f[0] == "t":
            if s[0] not in ("t", "e?") or s[1] != int(f[2]):
                return "message %d: model %s, socket %s" % (i, x, str(s)[:120])
    return None


def replay_logs(ctx, mdl, rounds):
    """rounds: list of dicts with 'events', 'msgs', 'name'. Replays each log through the extracted model."""
    lines, meta = [], []
    for rd in rounds:
        evs = rd["events"]
        if not evs:
            ctx.stat("log_missing")
            continue
        labels, ids, ptexts, fx = events_to_labels(evs)
        lines.append("nrepl_replay\t%d\t%s" % (fx, " ".join(labels)))
        meta.append((rd, labels, ids, ptexts))
    if ctx.stats.get("log_missing"):
        ctx.broken("hook:nrepl-event-log", "%d of %d server runs produced no H4 event log (hook.diff not applied?)"
                   % (ctx.stats["log_missing"], len(rounds)))
    if not lines or not mdl:
        return
    rc, res, err = common.run_lines(mdl, [], lines, shards=min(8, common.NCPU))
    for (rd, labels, ids, ptexts), r in zip(meta, res):
        f = r.split("\t")
        ctx.stat("replayed_logs")
        ctx.stat("replayed_events", len(labels))
        if f[0] == "rejected":
            k = int(f[1])
            ctx.stat("replay_rejected")
            ctx.broken("correspondence:nrepl-trace",
                       "%s: the model rejects event %d (%s) of the real server's log; context: %s"
                       % (rd["name"], k, f[2] if len(f) > 2 else "?", " ".join(labels[max(0, k - 12):k + 3])))
        elif f[0] == "accepted":
            wire = f[2].split(";") if len(f) > 2 and f[2] else []
            d = compare_wire(wire, socket_view(rd["msgs"], ids), ptexts)
            if d:
                ctx.stat("wire_mismatch")
                ctx.broken("correspondence:nrepl-wire", "%s: %s" % (rd["name"], d))
            if f[1] == "1":
                ctx.stat("replay_quiescent_end")
        else:
            ctx.broken("correspondence:nrepl-trace", "%s: model driver answered %r" % (rd["name"], r[:200]))


# ---------------------------------------------------------------- socket-level checks
def check_connection(ctx, prop, name, cl, expect, replay_extra):
    """expect: id -> dict(kind, prog?, may_interrupt?, must_interrupt?, sess). Checks the C30 clauses on cl.msgs."""
    msgs = [m for _, m in cl.msgs]
    byid = {}
    for i, m in enumerate(msgs):
        byid.setdefault(txt(m.get("id", b"")), []).append((i, m))
    for rid, ex in expect.items():
        mine = byid.get(rid, [])
        dones = [(i, m) for i, m in mine if "done" in statuses(m)]
        nontriv = bool(ex.get("prog") and (ex["prog"].out or ex["prog"].err)) or ex.get("may_interrupt") or ex.get("queued")
        ctx.case({"round": name, "id": rid, "kind": ex["kind"]}, nontriv)
        ctx.stat("req " + ex["kind"])
        rp = dict(replay_extra)
        rp.update({"request_id": rid, "kind": ex["kind"], "code": ex["prog"].code() if ex.get("prog") else None,
                   "messages_for_id": [repr(m)[:300] for _, m in mine][:40]})
        if len(dones) != 1:
            if len(dones) == 0 and ex.get("may_hang"):
                ctx.stat("no_done_allowed_hang")
                continue
            ctx.violation("%s:done-count:%s:%d" % (prop, ex["kind"], min(len(dones), 2)),
                          "request %s (%s) got %d messages with status done, expected exactly 1" % (rid, ex["kind"], len(dones)),
                          dict(rp, expected="exactly one done", observed="%d done" % len(dones)))
            continue
        di = dones[0][0]
        if any(i > di for i, _ in mine):
            ctx.violation("%s:message-after-done:%s" % (prop, ex["kind"]),
                          "request %s: a message with this id arrived after its done" % rid,
                          dict(rp, expected="done is the last message of its id", observed="later message with the same id"))
        st = statuses(dones[0][1])
        if ex["kind"] != "eval":
            continue
        pr = ex["prog"]
        got_out = "".join(txt(m["out"]) for _, m in mine if "out" in m)
        got_err = "".join(txt(m["err"]) for _, m in mine if "err" in m)
        interrupted = "interrupted" in st
        ctx.stat("eval " + ("interrupted" if interrupted else "eval-error" if "eval-error" in st else "ok"))
        if interrupted:
            if not ex.get("may_interrupt"):
                ctx.violation("%s:spurious-interrupt" % prop, "eval %s ended `interrupted` but nothing interrupted it" % rid,
                              dict(rp, expected="status done", observed=str(st)))
            if got_err.endswith("Interrupted.\n"):
                got_err = got_err[:-len("Interrupted.\n")]
            ok = pr.out.startswith(got_out) and pr.err.startswith(got_err)
            what = "a prefix of"
        else:
            if "eval-error" in st:
                ctx.violation("%s:unexpected-eval-error" % prop, "eval %s failed: %s" % (rid, got_err[-200:]),
                              dict(rp, expected="status done", observed=str(st)))
                continue
            ok = (got_out == pr.out and got_err == pr.err)
            what = "exactly"
        if len([1 for _, m in mine if "out" in m]) > 1 or len([1 for _, m in mine if "err" in m]) > 1:
            ctx.stat("eval_output_in_several_chunks")
        if not ok:
            stream = "out" if not (pr.out.startswith(got_out) if interrupted else got_out == pr.out) else "err"
            ctx.violation("%s:output-%s:%s" % (prop, "interrupted" if interrupted else "complete", stream),
                          "eval %s: concatenated `%s` chunks before done are not %s the printed text" % (rid, stream, what),
                          dict(rp, expected={"out": pr.out, "err": pr.err}, observed={"out": got_out, "err": got_err}))


def clone(cl, tag):
    rid = "c-" + tag
    cl.send({"op": "clone", "id": rid})
    d = cl.wait_done(rid, 20)
    return txt(d[0].get("new-session")) if d else None


# ---------------------------------------------------------------- C30 rounds
def c30_round(exe, seed, name, rng_seed):
    import random
    rng = random.Random(rng_seed)
    srv = Server(exe, seed, yields=rng.random() < 0.8)
    res = {"name": name, "events": [], "msgs": [], "expect": {}, "problems": [], "seed": rng_seed}
    if not srv.port:
        res["problems"].append(("server-start", "no .nrepl-port"))
        srv.stop()
        srv.cleanup()
        return res
    cl = Client(srv.port)
    expect = {}
    try:
        nsess = rng.randint(2, 4)
        sess = []
        for i in range(nsess):
            s = clone(cl, "%d" % i)
            expect["c-%d" % i] = {"kind": "clone"}
            if s is None:
                res["problems"].append(("clone", "no answer"))
                break
            sess.append(s)
        # per-session private definitions
        seq = 0
        pending = []
        for i, s in enumerate(sess):
            rid = "d%d" % i
            pr = Prog()
            pr.src.append("fun only_in_%d() { %d }" % (i, 1000 + i))
            cl.send({"op": "eval", "id": rid, "session": s, "code": pr.code()})
            expect[rid] = {"kind": "eval", "prog": pr}
            pending.append(rid)
        nreq = rng.randint(6, 14)
        for q in range(nreq):
            k = rng.random()
            i = rng.randrange(len(sess))
            s = sess[i]
            seq += 1
            rid = "q%d" % seq
            if k < 0.62:
                pr = gen_prog(rng, rid, heavy=rng.random() < 0.5)
                burst = [{"op": "eval", "id": rid, "session": s, "code": pr.code()}]
                expect[rid] = {"kind": "eval", "prog": pr, "queued": True}
                pending.append(rid)
                if rng.random() < 0.35:       # back-to-back second request in the same TCP write
                    seq += 1
                    rid2 = "q%d" % seq
                    pr2 = gen_prog(rng, rid2, heavy=False)
                    burst.append({"op": "eval", "id": rid2, "session": rng.choice(sess), "code": pr2.code()})
                    expect[rid2] = {"kind": "eval", "prog": pr2, "queued": True}
                    pending.append(rid2)
                cl.send(*burst)
            elif k < 0.72:
                cl.send({"op": "describe", "id": rid})
                expect[rid] = {"kind": "plain"}
                pending.append(rid)
            elif k < 0.8:
                cl.send({"op": "completions", "id": rid, "session": s, "prefix": "only_in"})
                expect[rid] = {"kind": "simple"}
                pending.append(rid)
            elif k < 0.86:
                cl.send({"op": "eval", "id": rid, "session": "garden-77", "code": "1"})
                expect[rid] = {"kind": "unknown-session"}
                pending.append(rid)
            elif k < 0.92:
                cl.send({"op": "ls-sessions", "id": rid})
                expect[rid] = {"kind": "plain"}
                pending.append(rid)
            else:
                cl.send({"op": "eval", "id": rid, "session": s, "code": "let = ("})
                expect[rid] = {"kind": "parse-error"}
                pending.append(rid)
            if rng.random() < 0.6:
                time.sleep(rng.choice([0, 0.001, 0.01, 0.05, 0.12, 0.25]))
        # close a session that still has a backlog: a running eval, a queued eval and a queued simple request, then
        # `close`, all in one TCP write. Every one of them must still get exactly one final `done`.
        if rng.random() < 0.6:
            xs = clone(cl, "x")
            expect["c-x"] = {"kind": "clone"}
            if xs is not None:
                p1 = gen_prog(rng, "xb1", heavy=True)
                p2 = gen_prog(rng, "xb2", heavy=False)
                cl.send({"op": "eval", "id": "xb1", "session": xs, "code": p1.code()},
                        {"op": "eval", "id": "xb2", "session": xs, "code": p2.code()},
                        {"op": "completions", "id": "xb3", "session": xs, "prefix": "only_in"},
                        {"op": "close", "id": "xb4", "session": xs})
                expect["xb1"] = {"kind": "eval", "prog": p1, "may_interrupt": True, "queued": True}
                expect["xb2"] = {"kind": "eval", "prog": p2, "may_interrupt": True, "queued": True}
                expect["xb3"] = {"kind": "simple", "queued": True}
                expect["xb4"] = {"kind": "simple"}
                pending += ["xb1", "xb2", "xb3", "xb4"]
        # isolation probes: each session sees its own definition and nobody else's
        iso = []
        for i, s in enumerate(sess):
            j = (i + 1) % len(sess)
            a, b = "iso-own-%d" % i, "iso-other-%d" % i
            cl.send({"op": "eval", "id": a, "session": s, "code": "only_in_%d()" % i},
                    {"op": "eval", "id": b, "session": s, "code": "only_in_%d()" % j})
            expect[a] = {"kind": "iso"}
            expect[b] = {"kind": "iso"}
            pending += [a, b]
            iso.append((i, j, a, b))
        for rid in pending:
            cl.wait_done(rid, 40)
        time.sleep(0.15)
        res["iso"] = iso
    except Exception as e:          # noqa: BLE001
        res["problems"].append(("driver-exception", repr(e)))
    res["expect"] = expect
    res["client"] = cl
    time.sleep(0.05)
    res["msgs"] = [m for _, m in cl.msgs]
    cl.close()
    time.sleep(0.1)
    srv.stop()
    res["events"] = srv.events()
    srv.cleanup()
    return res


def check_isolation(ctx, prop, res):
    msgs = res["msgs"]
    for (i, j, a, b) in res.get("iso", []):
        def final(rid):
            vals = [txt(m["value"]) for m in msgs if txt(m.get("id", b"")) == rid and "value" in m]
            st = [statuses(m) for m in msgs if txt(m.get("id", b"")) == rid and "done" in statuses(m)]
            return vals, (st[0] if st else None)
        va, sa = final(a)
        vb, sb = final(b)
        ctx.case({"round": res["name"], "iso": [i, j]}, True)
        ctx.stat("isolation_probe")
        if va != [str(1000 + i)]:
            ctx.violation("%s:isolation:own-definition-lost" % prop,
                          "session %d cannot call the function it defined: %s %s" % (i, va, sa),
                          {"round": res["name"], "expected": str(1000 + i), "observed": str(va), "seed": res["seed"]})
        if vb or sb is None or "eval-error" not in sb:
            ctx.violation("%s:isolation:sees-other-session" % prop,
                          "session %d can call only_in_%d defined in another session: %s %s" % (i, j, vb, sb),
                          {"round": res["name"], "expected": "eval-error (unbound)", "observed": "%s %s" % (vb, sb), "seed": res["seed"]})


def run_rounds(ctx, fn, exe, n, par=6):
    seeds = [(ctx.rng.randrange(1, 2 ** 31), "r%d" % i, ctx.rng.randrange(2 ** 31)) for i in range(n)]
    with concurrent.futures.ThreadPoolExecutor(par) as ex:
        return list(ex.map(lambda a: fn(exe, a[0], a[1], a[2]), seeds))


def run(ctx):
    ctx.trusted = [
        "Coq 8.16.1 kernel (coqc); vm_compute only for the concrete example traces",
        "coq/Nrepl.v as a model of src/nrepl.rs (hand-written; tied by H4 trace replay + socket-history comparison)",
        "std::sync::mpsc FIFO/linearizability, Mutex exclusion, SeqCst atomics, thread join (assumptions of the model)",
        "H4 hook: action + log line under one global lock (so log order = action order); flusher exit synthesised before join",
        "Extraction (ExtrOcamlBasic) + ocaml/ops_nrepl.ml; Python bencode codec and scenario driver",
    ]
    ctx.coq("Properties/C30.v")
    exe = ctx.impl()
    mdl = ctx.model()
    if not exe:
        return
    n = 40 if ctx.thorough else 10
    ctx.log("running %d randomised server rounds" % n)
    rounds = run_rounds(ctx, c30_round, exe, n)
    for res in rounds:
        for kind, d in res["problems"]:
            ctx.broken("driver:" + kind, "%s: %s" % (res["name"], d))
        cl = res.pop("client", None)
        if cl is not None:
            exp = {k: v for k, v in res["expect"].items()}
            for k, v in exp.items():
                if v["kind"] in ("iso", "parse-error", "unknown-session", "simple", "plain", "clone"):
                    v.setdefault("prog", None)
            # iso / parse-error evals are checked for done-count and done-last only
            for v in exp.values():
                if v["kind"] in ("iso", "parse-error"):
                    v["kind"] = v["kind"]
            check_connection(ctx, "C30", res["name"], cl, exp, {"seed": res["seed"], "round": res["name"],
                             "cli_command": "garden nrepl --port 0  (see tools/props/C30.py c30_round with this seed)"})
            check_isolation(ctx, "C30", res)
    replay_logs(ctx, mdl, rounds)
    ctx.notes.append("schedules of the real server are not reproducible from the seed alone (OS scheduler); the seed fixes "
                     "the client scripts and the injected yield sequence")


def replay(ctx, rp):
    exe = ctx.impl()
    res = c30_round(exe, rp.get("seed", 1), rp.get("round", "r0"), rp.get("seed", 1))
    cl = res.pop("client", None)
    if cl is not None:
        check_connection(ctx, "C30", res["name"], cl, res["expect"], {"seed": res["seed"]})
        check_isolation(ctx, "C30", res)
    print("violations now:", [v["key"] for v in ctx.violations])
    return 1 if ctx.violations else 0
