"""C31 -- nREPL interrupt stops the running eval and no other."""
import random
import time

from props import C30 as N

LEVEL = "proof"
RULE = ("Coq: Properties/C31.v over Nrepl.v (interrupt flag + pending-counter protocol under all interleavings; close "
        "invariant; the old protocols are refuted by concrete traces). Dynamic: fresh real servers with injected "
        "yields; scenarios with randomised offsets: interrupt after the eval is observably running (must end "
        "`interrupted` within the prompt bound, output a prefix), interrupt sent in the same TCP write as the eval, on a "
        "brand-new session whose worker is still starting up or on a warmed-up one (the eval must still be stopped), "
        "interrupt while idle then eval (must complete, full output), interrupt with a second eval queued (only the "
        "running one stops), interrupt in another session (no effect), close while running, close back-to-back with "
        "the eval, close with a second eval queued (everything must stop promptly). All C30 socket checks run on the "
        "same traffic and every H4 log is replayed through the extracted model.")
META = {
    "technique": "Coq proofs over the nREPL transition system (flag write discipline, close invariant) + trace replay + timed socket-level scenarios on the real server",
    "level_text": ("Coq theorems over all interleavings: interrupt_running (flag up and no check/finish since => the next "
                   "check of that eval ends it Interrupted) with interrupted_eval_reports_interrupted; "
                   "interrupt_reaches_queued_eval (an interrupt handled while a request is queued or in the worker's "
                   "hands is accepted, survives the dequeue and every step except a check of that session or the "
                   "session going idle, and stops the first eval that checks); idle_interrupt_is_ignored; "
                   "idle_interrupt_harmless (idle + not closed => flag down, in every reachable state; flag down => "
                   "checks pass); flag_write_discipline; close_stops_running + close_establishes_hypotheses; "
                   "interrupt_lost_old_protocol_refuted and close_stops_running_refuted_asis exhibit the interleavings "
                   "that defeat the earlier code."),
    "level_note": ("'Promptly' is wall-clock and outside the model: the model proves 'at the next flag check'; the dynamic "
                   "part measures it (bound PROMPT_S; BOOT_S more when the session worker is still starting). An interrupt "
                   "accepted after the running eval's last check stops the next queued eval of the session if there is "
                   "one (Properties/C31.v, R1). The evaluator's check (load; store false) and every mutex critical "
                   "section are one atomic step in the model."),
    "design_ref": "DESIGN.md §5 C31",
}

PROMPT_S = 3.0          # an interrupted/closed eval must report within this many seconds
BOOT_S = 6.0            # extra allowance when the session's worker thread may still be loading the prelude
LONG = 7000000          # loop iterations: well over 10 s in the debug build


LONG_SHAPES = ("while", "nested-for", "recursion", "for-with-calls")


def long_prog(tag, n=LONG, shape="while"):
    """A program that prints started-<tag>, then runs for well over 10 s in the debug build, in one of several shapes of
    long-running code (the interrupt flag must be observed in all of them): a while loop, nested for loops with an
    arithmetic body and no call, deep-and-wide recursion, for loops whose body calls a function."""
    pr = N.Prog()
    pr.p("started-" + tag)
    v = tag.replace("-", "_")
    if shape == "nested-for":
        pr.src.append("let r_%s = [0, 1, 2, 3, 4, 5, 6, 7, 8, 9] let t_%s = 0 "
                      "for a_%s in r_%s { for b_%s in r_%s { for c_%s in r_%s { for d_%s in r_%s { for e_%s in r_%s { for f_%s in r_%s { "
                      "for g_%s in r_%s { t_%s = t_%s + a_%s * b_%s - c_%s } } } } } } }"
                      % (v, v, v, v, v, v, v, v, v, v, v, v, v, v, v, v, v, v, v, v, v))
    elif shape == "recursion":
        pr.src.append("fun rec_%s(d) { if d == 0 { 1 } else { rec_%s(d - 1) + rec_%s(d - 1) } } rec_%s(40)" % (v, v, v, v))
    elif shape == "for-with-calls":
        pr.src.append("fun inc_%s(x) { x + 1 } let r_%s = [0, 1, 2, 3, 4, 5, 6, 7, 8, 9] let t_%s = 0 "
                      "for a_%s in r_%s { for b_%s in r_%s { for c_%s in r_%s { for d_%s in r_%s { for e_%s in r_%s { for f_%s in r_%s { "
                      "for g_%s in r_%s { t_%s = inc_%s(t_%s) } } } } } } }"
                      % (v, v, v, v, v, v, v, v, v, v, v, v, v, v, v, v, v, v, v, v))
    else:
        pr.spin("w_" + v, n)
    pr.p("END-" + tag)
    pr.src.append("7")
    return pr


class Round:
    def __init__(self, exe, seed, name, rng_seed):
        self.rng = random.Random(rng_seed)
        self.name, self.seed = name, rng_seed
        self.srv = N.Server(exe, seed, yields=self.rng.random() < 0.8)
        self.expect, self.findings, self.stats, self.problems = {}, [], {}, []
        self.cl = N.Client(self.srv.port) if self.srv.port else None
        self.n = 0

    def stat(self, k):
        self.stats[k] = self.stats.get(k, 0) + 1

    def rid(self, p):
        self.n += 1
        return "%s%d" % (p, self.n)

    def new_session(self):
        tag = self.rid("s")
        s = N.clone(self.cl, tag)
        self.expect["c-" + tag] = {"kind": "clone"}
        if s is None:
            self.problems.append(("clone", "no answer"))
        return s

    def eval(self, s, pr, rid, **kw):
        self.expect[rid] = dict({"kind": "eval", "prog": pr}, **kw)
        return {"op": "eval", "id": rid, "session": s, "code": pr.code()}

    def start_long(self, s, **kw):
        rid = self.rid("L")
        shape = self.rng.choice(LONG_SHAPES)
        self.stat("long eval shape " + shape)
        pr = long_prog(rid, shape=shape)
        self.cl.send(self.eval(s, pr, rid, may_interrupt=True, **kw))
        if not self.cl.wait_out(rid, "started-" + rid, 25):
            self.problems.append(("long-eval-did-not-start", rid))
        return rid

    def must_stop(self, rid, t0, key, what, extra=0.0):
        d = self.cl.wait_done(rid, PROMPT_S + extra + 1.0)
        dt = time.time() - t0
        if not d or dt > PROMPT_S + extra + 0.9:
            self.findings.append((key, "%s: eval %s was not stopped within %.1f s" % (what, rid, PROMPT_S + extra),
                                  {"expected": "done+interrupted promptly", "observed": "no done after %.1f s" % dt}))
            self.expect[rid]["may_hang"] = True
            return False
        st = N.statuses(d[0])
        if "interrupted" not in st:
            self.findings.append((key + ":status", "%s: eval %s ended with %s" % (what, rid, st),
                                  {"expected": "status interrupted", "observed": str(st)}))
            return False
        self.stat("stopped_in_%dms_bucket" % (100 * int(dt * 10)))
        return True

    # ---- scenarios
    def sc_interrupt_running(self):
        s = self.new_session()
        rid = self.start_long(s)
        time.sleep(self.rng.choice([0, 0.003, 0.02, 0.09, 0.13]))
        i = self.rid("i")
        self.expect[i] = {"kind": "interrupt"}
        t0 = time.time()
        self.cl.send({"op": "interrupt", "id": i, "session": s})
        self.must_stop(rid, t0, "C31:interrupt-running-not-stopped", "interrupt of a running eval")
        self.cl.wait_done(i, 5)
        self.stat("sc interrupt_running")
        return s

    def sc_idle_interrupt(self, s=None):
        s = s or self.new_session()
        w = self.rid("q")
        pr0 = N.gen_prog(self.rng, w, heavy=False)
        self.cl.send(self.eval(s, pr0, w))
        self.cl.wait_done(w, 30)                     # session is now idle
        i, e = self.rid("i"), self.rid("q")
        pr = N.gen_prog(self.rng, e, heavy=self.rng.random() < 0.5)
        self.expect[i] = {"kind": "interrupt"}
        ireq = {"op": "interrupt", "id": i, "session": s}
        ereq = self.eval(s, pr, e)                   # not may_interrupt: `interrupted` would be a violation
        if self.rng.random() < 0.5:
            self.cl.send(ireq, ereq)                 # same TCP write
        else:
            self.cl.send(ireq)
            if self.rng.random() < 0.5:
                self.cl.wait_done(i, 5)
            time.sleep(self.rng.choice([0, 0.001, 0.01]))
            self.cl.send(ereq)
        self.cl.wait_done(e, 30)
        self.stat("sc idle_interrupt")

    def sc_interrupt_queued(self):
        s = self.new_session()
        rid = self.start_long(s)
        e = self.rid("q")
        pr = N.gen_prog(self.rng, e, heavy=False)
        self.cl.send(self.eval(s, pr, e, queued=True))       # queued behind the long one; must NOT be interrupted
        time.sleep(self.rng.choice([0.005, 0.05]))
        i = self.rid("i")
        self.expect[i] = {"kind": "interrupt"}
        t0 = time.time()
        self.cl.send({"op": "interrupt", "id": i, "session": s})
        self.must_stop(rid, t0, "C31:interrupt-running-not-stopped", "interrupt with a second eval queued")
        self.cl.wait_done(e, 30)
        self.stat("sc interrupt_queued")

    def sc_other_session(self):
        a, b = self.new_session(), self.new_session()
        e = self.rid("q")
        pr = N.Prog()
        pr.p("started-" + e)
        pr.spin("z_" + e, 150000)
        pr.e("mid-" + e)
        pr.spin("y_" + e, 100000)
        pr.p("end-" + e)
        pr.src.append("3")
        self.cl.send(self.eval(b, pr, e))
        self.cl.wait_out(e, "started-" + e, 25)
        i = self.rid("i")
        self.expect[i] = {"kind": "interrupt"}
        self.cl.send({"op": "interrupt", "id": i, "session": a})
        self.cl.wait_done(e, 30)
        self.stat("sc other_session")

    def sc_close_running(self):
        s = self.new_session()
        rid = self.start_long(s)
        time.sleep(self.rng.choice([0, 0.01, 0.11]))
        c = self.rid("x")
        self.expect[c] = {"kind": "close"}
        t0 = time.time()
        self.cl.send({"op": "close", "id": c, "session": s})
        self.must_stop(rid, t0, "C31:close-running-not-stopped", "close while the eval is running")
        u = self.rid("u")
        self.expect[u] = {"kind": "unknown-session"}
        self.cl.send({"op": "eval", "id": u, "session": s, "code": "1"})
        self.cl.wait_done(u, 5)
        self.stat("sc close_running")

    def sc_close_back_to_back(self):
        s = self.new_session()
        if self.rng.random() < 0.5:                       # let the worker finish booting first
            w = self.rid("q")
            self.cl.send(self.eval(s, N.gen_prog(self.rng, w, heavy=False), w))
            self.cl.wait_done(w, 30)
        rid, c = self.rid("L"), self.rid("x")
        pr = long_prog(rid)
        self.expect[c] = {"kind": "close"}
        t0 = time.time()
        self.cl.send(self.eval(s, pr, rid, may_interrupt=True), {"op": "close", "id": c, "session": s})
        self.must_stop(rid, t0, "C31:close-before-worker-reset-runs-on", "close sent right behind the eval")
        self.stat("sc close_back_to_back")

    def sc_close_queued(self):
        s = self.new_session()
        r1 = self.start_long(s)
        r2 = self.rid("L")
        self.cl.send(self.eval(s, long_prog(r2), r2, may_interrupt=True, queued=True))
        time.sleep(self.rng.choice([0.005, 0.05]))
        c = self.rid("x")
        self.expect[c] = {"kind": "close"}
        t0 = time.time()
        self.cl.send({"op": "close", "id": c, "session": s})
        self.must_stop(r1, t0, "C31:close-running-not-stopped", "close with a second eval queued (running one)")
        self.must_stop(r2, t0, "C31:close-queued-eval-runs-on", "close with a second eval queued (queued one)")
        self.stat("sc close_queued")

    def sc_interrupt_queued_at_startup(self):
        """eval + interrupt in ONE write. On a brand-new session the worker thread is still building its Env, so the
        interrupt is handled while the eval is queued; on a warmed-up session it lands around the dequeue. Either way
        the eval must be stopped (the old protocol erased the interrupt: C31:interrupt-before-worker-reset-lost)."""
        s = self.new_session()
        fresh = self.rng.random() < 0.6
        if not fresh:
            w = self.rid("q")
            self.cl.send(self.eval(s, N.gen_prog(self.rng, w, heavy=False), w))
            self.cl.wait_done(w, 30)
        rid, i = self.rid("L"), self.rid("i")
        pr = long_prog(rid)
        self.expect[i] = {"kind": "interrupt"}
        t0 = time.time()
        self.cl.send(self.eval(s, pr, rid, may_interrupt=True), {"op": "interrupt", "id": i, "session": s})
        ok = self.must_stop(rid, t0, "C31:interrupt-before-worker-reset-lost",
                            "interrupt sent right behind its eval (%s session)" % ("new" if fresh else "warm"), extra=BOOT_S)
        self.stat("early_interrupt " + ("stopped" if ok else "LOST") + (" new-session" if fresh else " warm-session"))
        if not ok:                                   # clean up so that the round can go on
            self.cl.wait_out(rid, "started-" + rid, 25)
            i2 = self.rid("i")
            self.expect[i2] = {"kind": "interrupt"}
            self.cl.send({"op": "interrupt", "id": i2, "session": s})
            self.cl.wait_done(rid, 10)
        self.stat("sc interrupt_queued_at_startup")

    def sc_interrupt_second_queued(self):
        """E1 running, E2 (long) queued, interrupt: E1 stops, E2 must start and run (it is not the one interrupted);
        a second interrupt once E2 is observably running stops E2."""
        s = self.new_session()
        r1 = self.start_long(s)
        r2 = self.rid("L")
        self.cl.send(self.eval(s, long_prog(r2), r2, may_interrupt=True, queued=True))
        time.sleep(self.rng.choice([0.005, 0.05]))
        i = self.rid("i")
        self.expect[i] = {"kind": "interrupt"}
        t0 = time.time()
        self.cl.send({"op": "interrupt", "id": i, "session": s})
        self.must_stop(r1, t0, "C31:interrupt-running-not-stopped", "interrupt with a long eval queued")
        if not self.cl.wait_out(r2, "started-" + r2, 25):
            self.findings.append(("C31:interrupt-leaks-to-queued-eval",
                                  "one interrupt stopped the running eval AND the eval queued behind it (%s)" % r2,
                                  {"expected": "the queued eval starts", "observed": "no output from it"}))
        i2 = self.rid("i")
        self.expect[i2] = {"kind": "interrupt"}
        t0 = time.time()
        self.cl.send({"op": "interrupt", "id": i2, "session": s})
        self.must_stop(r2, t0, "C31:interrupt-running-not-stopped", "second interrupt, for the eval that was queued")
        self.stat("sc interrupt_second_queued")


SCENARIOS = ["sc_interrupt_running", "sc_idle_interrupt", "sc_interrupt_queued", "sc_other_session",
             "sc_close_running", "sc_close_back_to_back", "sc_close_queued", "sc_interrupt_queued_at_startup",
             "sc_interrupt_second_queued"]


def c31_round(exe, seed, name, rng_seed, only=None):
    r = Round(exe, seed, name, rng_seed)
    res = {"name": name, "seed": rng_seed, "events": [], "msgs": [], "round": r, "scenarios": []}
    if r.cl is None:
        r.problems.append(("server-start", "no .nrepl-port"))
        r.srv.stop()
        r.srv.cleanup()
        return res
    try:
        idx = int(name[1:]) if name[1:].isdigit() else 0
        todo = only or [SCENARIOS[(idx * 3 + j) % len(SCENARIOS)] for j in range(3)]
        for sc in todo:
            res["scenarios"].append(sc)
            out = getattr(r, sc)()
            if sc == "sc_interrupt_running" and r.rng.random() < 0.7:
                r.sc_idle_interrupt(out)          # the late-interrupt / idle-interrupt combination on the same session
        time.sleep(0.15)
    except Exception as e:      # noqa: BLE001
        r.problems.append(("driver-exception", repr(e)))
    res["msgs"] = [m for _, m in r.cl.msgs]
    r.cl.close()
    time.sleep(0.1)
    r.srv.stop()
    res["events"] = r.srv.events()
    r.srv.cleanup()
    return res


def judge(ctx, res):
    r = res["round"]
    for k, v in r.stats.items():
        ctx.stat(k, v)
    for kind, d in r.problems:
        ctx.broken("driver:" + kind, "%s: %s" % (res["name"], d))
    extra = {"seed": res["seed"], "round": res["name"], "scenarios": res["scenarios"],
             "cli_command": "garden nrepl --port 0  (tools/props/C31.py c31_round, this seed and scenario list)"}
    for key, what, rp in r.findings:
        ctx.violation(key, what, dict(extra, **rp))
    if r.cl is not None:
        N.check_connection(ctx, "C31", res["name"], r.cl, r.expect, extra)


def run(ctx):
    ctx.trusted = [
        "Coq 8.16.1 kernel (coqc); vm_compute only for the concrete traces (refutation, examples)",
        "coq/Nrepl.v as a model of src/nrepl.rs and of the flag check in src/eval.rs (tied by H4 trace replay)",
        "SeqCst atomics, mpsc FIFO, Mutex exclusion (assumptions of the model)",
        "wall-clock measurement of 'promptly' (bound %.1f s) by the Python client" % PROMPT_S,
        "Extraction (ExtrOcamlBasic) + ocaml/ops_nrepl.ml; Python bencode codec and scenario driver (props/C30.py)",
    ]
    ctx.coq("Properties/C31.v")
    exe = ctx.impl()
    mdl = ctx.model()
    if not exe:
        return
    n = 36 if ctx.thorough else 9
    ctx.log("running %d scenario rounds" % n)
    rounds = N.run_rounds(ctx, c31_round, exe, n, par=4)
    for res in rounds:
        judge(ctx, res)
    N.replay_logs(ctx, mdl, rounds)


def replay(ctx, rp):
    exe = ctx.impl()
    res = c31_round(exe, rp.get("seed", 1), rp.get("round", "r0"), rp.get("seed", 1), only=rp.get("scenarios"))
    judge(ctx, res)
    print("violations now:", [v["key"] for v in ctx.violations])
    return 1 if ctx.violations else 0
