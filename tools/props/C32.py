"""C32 -- Prelude string and list functions match their specification."""
import itertools
import json

from vplib import common, oracle

LEVEL = "proof"
RULE = ("Coq: Properties/C32.v (per-function theorems: the fuelled transliteration of each prelude function returns Ok "
        "of the specification for an explicit fuel bound) with the source hashes of every modelled Garden function and "
        "Rust built-in arm pinned (coq/gen/PreludeSrc.v is regenerated from the tree on every run). Dynamic: for every "
        "function, ALL argument tuples over a small alphabet (strings over {a,b} up to length 3-4 plus the empty "
        "string, 2/3/4-byte characters, characters sharing UTF-8 bytes, spaces, tabs, newlines, CR; integer lists up to "
        "length 4; index arguments from a boundary set incl. negative, 0, len, len+1, i64 MIN/MAX) are evaluated on the "
        "real binary (JSON session, with a timeout: a timeout is the violation 'does not terminate') and compared with "
        "(a) the extracted Coq model of the code, (b) an independent Python reference implementation and (c) the "
        "extracted Coq specification. A case is non-trivial when the needle occurs in the haystack, an index is outside "
        "[0,len), an argument is empty or contains a multi-byte character, a list has >= 2 items, or the result is an "
        "exception.")
META = {
    "technique": ("Coq proof over a line-by-line Gallina transliteration of __prelude.gdn (fuelled while loops) and of the "
                  "Rust built-ins it calls, source hashes pinned by a translator; differential execution of extracted "
                  "model and specification vs the real binary vs an independent Python reference"),
    "level_text": ("Coq theorems (coq/Properties/C32.v): for ALL strings (lists of Unicode scalar values) / integer lists / "
                   "i64 arguments within the stated guard, each modelled prelude function, run with an explicit fuel "
                   "bound computed from the argument sizes, returns Ok of the stdlib-style specification function "
                   "(PreludeSpec.v: first occurrence, unique separator-free decomposition with join = identity, sorted "
                   "permutation, clamped index window, ...); in particular it terminates. The model is tied to the tree "
                   "by pinned source hashes (any edit of a modelled function breaks an obligation) and by exhaustive "
                   "small-alphabet differential execution."),
    "level_note": ("Trusted: Coq kernel; the hand transliteration Prelude.v (validated by the correspondence run, pinned to "
                   "source hashes by tools/gen_prelude.py); Rust std str/char semantics (find/starts_with/ends_with/"
                   "lines/chars are modelled on lists of scalar values: UTF-8 self-synchronisation is assumed, and "
                   "exercised dynamically with characters sharing lead/continuation bytes); the evaluator's handling of "
                   "while/for/match/return (C05) is not re-proved here; string lengths are assumed < 2^62 so that the "
                   "wrapping Int arithmetic of the loops is exact (hypothesis `small` in the theorems). `map`/`filter` are "
                   "proved for pure total closures. Spec decisions recorded in PreludeSpec.v: trim* remove U+0020 only "
                   "(as every example and test of the prelude does; the doc comment says 'whitespace'); split on \"\" "
                   "gives the characters; replace of \"\" is the identity; substring raises for from < 0 or from > to and "
                   "clamps at the end."),
    "design_ref": "DESIGN.md §5 C32",
}

MIN, MAX = -2 ** 63, 2 ** 63 - 1


def wrap(z):
    return (z + 2 ** 63) % 2 ** 64 - 2 ** 63


# --------------------------------------------------------------------------
# Values: Garden source text, canonical display, model wire format

class Some:
    def __init__(self, v):
        self.v = v


EXN, TIMEOUT, PANIC = "<exception>", "<does not terminate>", "<panic>"


def esc(s):
    return '"' + s.replace("\\", "\\\\").replace('"', '\\"').replace("\n", "\\n") + '"'


def str_lit(s):
    """Garden source literal (\\t is written as an escape, CR and other characters literally)."""
    return '"' + s.replace("\\", "\\\\").replace('"', '\\"').replace("\n", "\\n").replace("\t", "\\t") + '"'


def show(v):
    """Value::display of a reference value (what the JSON session prints)."""
    if v is None:
        return "None"
    if isinstance(v, Some):
        return "Some(%s)" % show(v.v)
    if isinstance(v, bool):
        return "True" if v else "False"
    if isinstance(v, int):
        return str(v)
    if isinstance(v, str):
        return esc(v)
    if isinstance(v, list):
        return "[" + ", ".join(show(x) for x in v) + "]"
    if isinstance(v, tuple):
        return "(" + ", ".join(show(x) for x in v) + ")"
    raise ValueError(v)


def src_of(v):
    if isinstance(v, str):
        return str_lit(v)
    if isinstance(v, bool):
        return "True" if v else "False"
    if isinstance(v, int):
        return str(v)
    if isinstance(v, list):
        return "[" + ", ".join(src_of(x) for x in v) + "]"
    raise ValueError(v)


def wire(v):
    """Typed wire format of ocaml/ops_prelude.ml."""
    if isinstance(v, str):
        return "s:" + common.hexs(v)
    if isinstance(v, int):
        return "i:%d" % v
    if isinstance(v, list):
        if v and isinstance(v[0], str):
            return "m:" + ",".join(common.hexs(x) for x in v)
        return "l:" + ",".join(str(x) for x in v)
    if isinstance(v, Fn):
        return "f:%d" % v.code
    raise ValueError(v)


def unwire(j):
    """JSON produced by ocaml/ops_prelude.ml -> reference value."""
    if j is None:
        return None
    if isinstance(j, bool) or isinstance(j, int):
        return j
    if isinstance(j, str):
        return common.unhex(j[1:] or "-").decode("utf-8", "replace")
    if isinstance(j, list):
        return [unwire(x) for x in j]
    if "some" in j:
        return Some(unwire(j["some"]))
    if "t" in j:
        return tuple(unwire(x) for x in j["t"])
    raise ValueError(j)


def model_show(field):
    if field in ("exn", "panic", "outoffuel"):
        return {"exn": EXN, "panic": PANIC, "outoffuel": TIMEOUT}[field]
    if field.startswith("ok "):
        try:
            return show(unwire(json.loads(field[3:])))
        except Exception as e:  # noqa
            return "<bad model output %s>" % field[:60]
    return "<bad model output %s>" % field[:60]


def impl_show(c):
    if c is None:
        return "<missing>"
    if c["kind"] == "ok":
        return c["value"]
    if c["kind"] == "error":
        return EXN if c["err_kind"] == "exception" else "<error:%s %s>" % (c["err_kind"], c.get("message", "")[:80])
    if c["kind"] == "timeout":
        return TIMEOUT
    if c["kind"] == "panic":
        return PANIC
    return "<%s>" % c["kind"]


class Fn:
    def __init__(self, code, src, py):
        self.code, self.src, self.py = code, src, py


MAPF = [Fn(0, "fun(x: Int) { x + 1 }", lambda x: wrap(x + 1)),
        Fn(1, "fun(x: Int) { 0 - x }", lambda x: wrap(0 - x))]
FILTF = [Fn(0, "fun(x: Int) { x > 0 }", lambda x: x > 0),
         Fn(1, "fun(x: Int) { x % 2 == 0 }", lambda x: x % 2 == 0),
         Fn(2, "fun(_) { True }", lambda x: True),
         Fn(3, "fun(_) { False }", lambda x: False)]


# --------------------------------------------------------------------------
# Independent reference implementation of the specification (Python strings
# are sequences of code points, like Garden's character offsets).

def ref_lines(s):
    parts = s.split("\n")
    terminated = [True] * (len(parts) - 1) + [False]
    if parts[-1] == "":
        parts.pop()
        terminated.pop()
    return [p[:-1] if t and p.endswith("\r") else p for p, t in zip(parts, terminated)]


def ref_substring(s, i, j):
    if i < 0 or i > j:
        return EXN
    return s[i:j]


def ref_slice(l, i, j):
    jj = j + len(l) if j < 0 else j
    return [x for k, x in enumerate(l) if i <= k < jj]


def ref_find(a, b):
    i = a.find(b)
    return Some(i) if i >= 0 else None


def ref_split_once(a, b):
    i = a.find(b)
    return Some((a[:i], a[i + len(b):])) if i >= 0 else None


def ref_split(a, b):
    if a == "":
        return []
    if b == "":
        return list(a)          # decision: split between every character
    return a.split(b)


REF = {
    "starts_with": lambda a, b: a.startswith(b),
    "ends_with": lambda a, b: a.endswith(b),
    "contains": lambda a, b: b in a,
    "index_of": ref_find,
    "split_once": ref_split_once,
    "split": ref_split,
    "replace": lambda a, b, c: a if b == "" else a.replace(b, c),      # decision: "" has no occurrence
    "join": lambda a, l: a.join(l),
    "trim_left": lambda a: a.lstrip(" "),
    "trim_right": lambda a: a.rstrip(" "),
    "trim": lambda a: a.strip(" "),
    "strip_prefix": lambda a, b: a[len(b):] if a.startswith(b) else a,
    "strip_suffix": lambda a, b: a[:len(a) - len(b)] if a.endswith(b) else a,
    "chars": lambda a: list(a),
    "len": lambda a: len(a),
    "lines": ref_lines,
    "substring": ref_substring,
    "range": lambda i, j: list(range(i, j)),
    "concat": lambda a, b: a + b,
    "list_contains": lambda l, x: x in l,
    "get": lambda l, i: Some(l[i]) if 0 <= i < len(l) else None,
    "list_len": lambda l: len(l),
    "first": lambda l: Some(l[0]) if l else None,
    "last": lambda l: Some(l[-1]) if l else None,
    "filter": lambda l, f: [x for x in l if f.py(x)],
    "map": lambda l, f: [f.py(x) for x in l],
    "list_index_of": lambda l, x: Some(l.index(x)) if x in l else None,
    "slice": ref_slice,
    "enumerate": lambda l: [(i, x) for i, x in enumerate(l)],
    "sort_nums": lambda l: sorted(l),
    "max": lambda x, y: max(x, y),
    "min": lambda x, y: min(x, y),
}

# Garden call syntax; {0} is the receiver / first argument
CALL = {
    "range": "range({0}, {1})", "sort_nums": "sort_nums({0})", "max": "max({0}, {1})", "min": "min({0}, {1})",
    "list_contains": "{0}.contains({1})", "list_len": "{0}.len()", "list_index_of": "{0}.index_of({1})",
}


def call_src(fn, args):
    a = [x.src if isinstance(x, Fn) else src_of(x) for x in args]
    t = CALL.get(fn)
    if t:
        return t.format(*a)
    return "%s.%s(%s)" % (a[0], fn, ", ".join(a[1:]))


# --------------------------------------------------------------------------
# Argument spaces

def words(alpha, n):
    out = []
    for k in range(n + 1):
        out += ["".join(p) for p in itertools.product(alpha, repeat=k)]
    return out


def lists(alpha, n):
    out = []
    for k in range(n + 1):
        out += [list(p) for p in itertools.product(alpha, repeat=k)]
    return out


def spaces(thorough):
    ab = words("ab", 4 if thorough else 3)
    special = ["aaaa", "abab", "abba", "aabaa", "é", "aé", "éa", "éé", "aéb", "èé", "éè", "©é", "€", "a€b", "😀", "a😀b",
               "a b", " a ", " ", "  ", "a  ", "\n", "a\nb", "\t", "a\tb", "a,b", ",a,,b,", "a\"b", "a\\b"]
    hay = ab + special
    needles = ["", "a", "b", "ab", "ba", "aa", "bb", "aba", "abab", "é", "è", "©", "éa", "aé", "€", "😀", " ", "\n", ",",
               "a b", "\\b"]
    if thorough:
        needles = sorted(set(needles + words("ab", 3)))
        hay = hay + words("aé", 3) + ["€€", "😀😀", "a\r\nb"]
    hay = list(dict.fromkeys(hay))
    ws = list(dict.fromkeys(words(" a\t", 4 if thorough else 3) + ["\n a \n", " é ", "\u00a0a\u00a0", "  a b  ", " \n", "\u2003a"] + special))
    ln = list(dict.fromkeys(words("a\n\r", 4 if thorough else 3) + ["a\r\nb\r\n", "é\né", "\r\n\r\n", "a\n\nb", "ab\r"] + special))
    ints = [MIN, MIN + 1, -2 ** 32, -5, -4, -3, -2, -1, 0, 1, 2, 3, 4, 5, 6, 2 ** 32, MAX - 1, MAX]
    return hay, needles, ws, ln, ints


def gen_cases(ctx):
    """-> list of (fn, args)"""
    th = ctx.thorough
    rng = ctx.rng
    hay, needles, ws, ln, ints = spaces(th)
    cases = []
    for fn in ("starts_with", "ends_with", "contains", "index_of", "split_once", "split", "strip_prefix", "strip_suffix"):
        cases += [(fn, (a, b)) for a in hay for b in needles]
    afters = ["", "x", "ab", "é"]
    cases += [("replace", (a, b, c)) for a in hay for b in needles for c in afters + [b + b]]
    for fn in ("trim_left", "trim_right", "trim", "chars", "len"):
        cases += [(fn, (a,)) for a in ws]
    cases += [("lines", (a,)) for a in ln]
    sl = lists(["", "a", "b,", "é"], 3)
    cases += [("join", (sep, l)) for sep in ("", ",", "ab", "é") for l in sl]
    subs = ["", "a", "ab", "abc", "abcd", "é", "aé", "éa€", "a😀b", "a b", "a\nb"] + (words("aé", 3) if th else [])
    subs = list(dict.fromkeys(subs))
    cases += [("substring", (s, i, j)) for s in subs for i in ints for j in ints]
    # lists
    small = lists([-1, 0, 1, 2], 5 if th else 4)
    shapes = [[], [10], [10, 11], [10, 11, 12], [10, 11, 12, 13]] + ([[MIN, MAX, 0, 7, 7]] if th else [])
    cases += [("slice", (l, i, j)) for l in shapes for i in ints for j in ints]
    cases += [("get", (l, i)) for l in lists([7, 8], 3) + shapes for i in ints]
    for fn in ("list_len", "first", "last", "enumerate", "sort_nums"):
        cases += [(fn, (l,)) for l in small]
    bl = [MIN, MIN + 1, -1, 0, 1, MAX - 1, MAX]
    for _ in range(2000 if th else 200):
        n = rng.randint(0, 12)
        pool = rng.choice([bl, list(range(-3, 4)), bl + list(range(-3, 4))])
        cases.append(("sort_nums", ([rng.choice(pool) for _ in range(n)],)))
    cases.append(("sort_nums", (list(range(40)),)))
    cases.append(("sort_nums", (list(range(40, 0, -1)),)))
    two = lists([1, 2], 3)
    cases += [("concat", (a, b)) for a in two for b in two]
    for fn in ("list_contains", "list_index_of"):
        cases += [(fn, (l, x)) for l in small for x in (-1, 0, 2, 3)]
        cases += [(fn, (l, x)) for l in ([MIN, MAX], [MAX, MIN, MAX]) for x in (MIN, MAX, 0)]
    cases += [("map", (l, f)) for l in small for f in MAPF]
    cases += [("map", (l, f)) for l in ([MAX, MIN], [MIN + 1, MAX - 1, 0]) for f in MAPF]
    cases += [("filter", (l, f)) for l in small for f in FILTF]
    cases += [("filter", (l, f)) for l in ([MAX, MIN], [MIN + 1, MAX - 1, 0]) for f in FILTF]
    cases += [("range", (i, j)) for i in ints for j in ints if j - i <= 12]
    cases += [("range", (i, j)) for i in range(-3, 6) for j in range(-3, 6)]
    big = sorted(set(ints + [-2 ** 31, 2 ** 31 - 1, 2 ** 62, -2 ** 62]))
    for fn in ("max", "min"):
        cases += [(fn, (x, y)) for x in big for y in big]
    # lists of strings through the polymorphic list functions (implementation vs reference only)
    strl = lists(["", "a", "é"], 3)
    cases += [(fn, (l, x)) for fn in ("list_contains", "list_index_of") for l in strl for x in ("", "a", "é", "b")]
    cases += [(fn, (l,)) for fn in ("first", "last", "enumerate", "list_len") for l in strl]
    # de-duplicate, keep order
    seen, out = set(), []
    for fn, args in cases:
        k = (fn, tuple(wire(a) for a in args))
        if k not in seen:
            seen.add(k)
            out.append((fn, args))
    return out


def in_model(fn, args):
    """The extracted driver instantiates the list functions at Int."""
    if fn == "join":
        return True
    if any(isinstance(a, list) and a and isinstance(a[0], str) for a in args):
        return False
    return not (fn in ("list_contains", "list_index_of") and isinstance(args[1], str))


STR2 = ("starts_with", "ends_with", "contains", "index_of", "split_once", "split", "strip_prefix", "strip_suffix", "replace")


def klass(fn, args, got):
    g = {EXN: "exception", TIMEOUT: "timeout", PANIC: "panic"}.get(got, "value")
    if fn in STR2 and args[1] == "":
        return "empty-needle:" + g
    if any(isinstance(a, str) and any(ord(c) > 127 for c in a) for a in args):
        return "multibyte:" + g
    if any(isinstance(a, int) and not isinstance(a, bool) and abs(a) >= 2 ** 31 for a in args):
        return "boundary-int:" + g
    return "other:" + g


def nontrivial(fn, args, want):
    if want == EXN:
        return True
    if fn in STR2 and args[1] in args[0]:
        return True
    for a in args:
        if isinstance(a, str) and (a == "" or any(ord(c) > 127 for c in a) or " " in a or "\n" in a):
            return True
        if isinstance(a, list) and len(a) >= 2:
            return True
    first = args[0]
    n = len(first) if isinstance(first, (str, list)) else 0
    return any(isinstance(a, int) and not (0 <= a < n) for a in args[1:] if not isinstance(a, (str, list, Fn)))


def risky(fn, args):
    return any(a == "" for a in args if isinstance(a, str))


class Evaluator:
    """Evaluate (fn, src) cases on the binary: chunks of cases per JSON session with a wall-clock timeout. When a
    session times out, the first unanswered case is re-run alone with a generous timeout (the machine may be loaded)
    and only then called non-terminating. After 3 confirmed hangs of one function its remaining cases are skipped
    (the violation is already established), so a broken tree costs minutes, not hours."""

    def __init__(self, ctx, exe):
        self.ctx, self.exe = ctx, exe
        self.hangs = {}

    def session(self, srcs, timeout):
        resps, err, rc = oracle.run_session_raw(self.exe, [{"method": "run", "input": s} for s in srcs], timeout=timeout)
        out = []
        for r, so, se in oracle.group_responses(resps)[:len(srcs)]:
            out.append(oracle.classify(r))
        return out, rc, err

    def chunk(self, task):
        fn, srcs, timeout = task
        res = [None] * len(srcs)
        todo = list(range(len(srcs)))
        while todo:
            if self.hangs.get(fn, 0) >= 3:
                for i in todo:
                    res[i] = {"kind": "skipped"}
                break
            out, rc, err = self.session([srcs[i] for i in todo], timeout)
            for j, c in enumerate(out):
                res[todo[j]] = c
            done = len(out)
            if done >= len(todo):
                break
            bad = todo[done]
            if rc == 124:
                one, rc1, _ = self.session([srcs[bad]], 40)
                if one:
                    res[bad] = one[0]
                else:
                    res[bad] = {"kind": "timeout" if rc1 == 124 else "panic", "stderr": ""}
                    if rc1 == 124:
                        self.hangs[fn] = self.hangs.get(fn, 0) + 1
            else:
                res[bad] = {"kind": "panic", "stderr": err[-300:]}
            todo = todo[done + 1:]
        return res

    def run(self, by_fn):
        """by_fn: fn -> list of (src, risky). Returns fn -> list of results."""
        import concurrent.futures
        tasks, where = [], []
        for fn, items in by_fn.items():
            risky_ix = [i for i, (s, r) in enumerate(items) if r]
            plain_ix = [i for i, (s, r) in enumerate(items) if not r]
            for ix, size, tmo in ((risky_ix, 8, 20), (plain_ix, 100, 60)):
                for k in range(0, len(ix), size):
                    part = ix[k:k + size]
                    tasks.append((fn, [items[i][0] for i in part], tmo))
                    where.append((fn, part))
        order = sorted(range(len(tasks)), key=lambda t: tasks[t][2])      # risky chunks first
        with concurrent.futures.ThreadPoolExecutor(common.NCPU) as ex:
            results = list(ex.map(lambda t: self.chunk(tasks[t]), order))
        out = {fn: [None] * len(items) for fn, items in by_fn.items()}
        for t, res in zip(order, results):
            fn, part = where[t]
            for i, r in zip(part, res):
                out[fn][i] = r
        for fn, n in self.hangs.items():
            self.ctx.stat("confirmed non-terminating calls of " + fn, n)
        return out


def run(ctx):
    ctx.trusted = [
        "Coq 8.16.1 kernel (coqc); no native_compute",
        "coq/Prelude.v: hand transliteration of __prelude.gdn bodies and of the Rust built-in arms (pinned to source hashes)",
        "tools/gen_prelude.py translator (locates each function / arm, normalises whitespace and comments, hashes)",
        "Rust std str/char (find, starts_with, ends_with, lines, chars, char_indices) modelled on lists of scalar values",
        "garden's evaluator for while/for/match/return/closures (see C05); string/list lengths < 2^62",
        "Extraction (ExtrOcamlBasic only) + ocaml/driver_core.ml, ops_prelude.ml",
        "garden reftest-json-session as the oracle of the implementation, with a wall-clock timeout",
        "tools/props/C32.py reference implementation (Python str methods on code points)",
    ]
    ctx.coq("Properties/C32.v")
    exe = ctx.impl()
    mdl = ctx.model()
    if not exe:
        return
    cases = gen_cases(ctx)
    by_fn = {}
    for fn, args in cases:
        by_fn.setdefault(fn, []).append(args)
    ctx.log("%d cases over %d functions" % (len(cases), len(by_fn)))
    # model + Coq spec
    model = {}
    if mdl:
        mc = [(fn, args) for fn, args in cases if in_model(fn, args)]
        lines = ["prelude\t%s\t%s" % (fn, "\t".join(wire(a) for a in args)) for fn, args in mc]
        rc, out, err = common.run_lines(mdl, [], lines, shards=common.NCPU, timeout=900)
        for (fn, args), l in zip(mc, out):
            model[(fn, tuple(wire(a) for a in args))] = l.split("\t")
    corr_bad, spec_bad = {}, {}
    srcs_by_fn = {fn: [call_src(fn, a) for a in argl] for fn, argl in by_fn.items()}
    ev = Evaluator(ctx, exe).run({fn: [(s, risky(fn, a)) for s, a in zip(srcs_by_fn[fn], by_fn[fn])] for fn in by_fn})
    for fn in by_fn:
        argl, srcs, res = by_fn[fn], srcs_by_fn[fn], ev[fn]
        for args, src, r in zip(argl, srcs, res):
            if r is not None and r.get("kind") == "skipped":
                ctx.stat("cases skipped after 3 confirmed hangs of the function")
                continue
            got = impl_show(r)
            w = REF[fn](*args)
            want = w if w == EXN else show(w)
            ctx.case({"src": src, "impl": got}, nontrivial(fn, args, want))
            ctx.stat("fn " + fn)
            ctx.stat("outcome " + klass(fn, args, got).split(":")[1])
            if got != want:
                key = "C32:%s:%s" % (fn, klass(fn, args, got))
                ctx.violation(key, "`%s` gives %s, the specification gives %s" % (src, got, want),
                              {"input": src, "fn": fn, "expected": want, "observed": got,
                               "cli_command": "timeout 10 garden run -c 'println(string_repr(%s))'" % src})
            m = model.get((fn, tuple(wire(a) for a in args)))
            if m is not None:
                m_code = model_show(m[0])
                m_spec = model_show(m[1]) if len(m) > 1 else "<missing>"
                ctx.stat("model compared")
                if m_code != got:
                    corr_bad.setdefault(fn, []).append({"src": src, "impl": got, "model_of_code": m_code})
                if m_spec != want:
                    spec_bad.setdefault(fn, []).append({"src": src, "coq_spec": m_spec, "python_reference": want})
            elif mdl:
                ctx.stat("outside the extracted model (string list elements)")
    for fn, l in corr_bad.items():
        ctx.broken("correspondence:prelude:" + fn, "model of the code and implementation differ on %d cases, e.g. %s"
                   % (len(l), json.dumps(l[:3], ensure_ascii=False)))
    for fn, l in spec_bad.items():
        ctx.broken("spec-vs-reference:prelude:" + fn, "Coq specification and Python reference differ on %d cases, e.g. %s"
                   % (len(l), json.dumps(l[:3], ensure_ascii=False)))
    ctx.notes.append("trim/trim_left/trim_right: specified as removing U+0020 only (all prelude examples/tests); tabs and "
                     "newlines are kept although the doc comment says 'whitespace'")
    ctx.notes.append("range(i, j) is only executed for j - i <= 12 (the theorem covers all i64 pairs; a span of 2^64 "
                     "cannot be run)")


def replay(ctx, rp):
    exe = ctx.impl()
    r = oracle.eval_stateless(exe, [rp["input"]], timeout=10, chunk=1)
    got = impl_show(r[0])
    print("input:", rp["input"])
    print("observed now:", got, "| recorded:", rp.get("observed"), "| expected:", rp.get("expected"))
    return 0 if got == rp.get("expected") else 1
