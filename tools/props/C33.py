"""C33 -- Printing a syntax tree and parsing it gives the same tree."""
import re

from vplib import common, oracle, gentree

LEVEL = "proof"
RULE = ("Coq: Properties/C33.v (parse_print_partial: round trip for the operator/parenthesis expression fragment, all trees). "
        "Dynamic: grammar-directed generation of syntax TREES over the whole grammar (definitions: fun/method/test/enum/struct/"
        "import with type parameters, hints, visibility; statements: let incl. destructuring and hints, assign, update, if/else, "
        "while, for, break, continue, return, match, assert; expressions: literals, variables, all 21 operators left-nested, "
        "explicit parentheses, calls, method calls, field access, list/tuple/dict/struct literals, closures), each printed to "
        "canonical source text by an independent printer and parsed by the REAL parser (hook op sexp); the parse must have no "
        "errors and yield exactly the generated tree. Non-trivial = tree with at least 8 nodes.")
META = {
    "technique": "Coq round-trip proof for the expression-chain fragment + grammar-directed tree generation checked against the real parser",
    "level_text": ("Coq theorem parse_print_partial: every tree of the operator/parenthesis fragment (any nesting, all 21 "
                   "operators) prints to a token text that the expression loop of parser.rs (shape regenerated from the source) "
                   "parses back to the same tree. PARTIAL: the rest of the grammar is not modelled; it is covered by generating "
                   "trees over the whole grammar and checking print-then-parse on the real parser."),
    "level_note": ("Trusted: Coq kernel; tools/gen_parser.py; ParseExpr.v (hand-written loop model); for the search part the "
                   "independent printer tools/vplib/gentree.py defines what 'canonical source text' means (Garden has no "
                   "pretty-printer of its own). Toplevel expression statements beginning with the keyword `fun` are read as "
                   "definitions by design and are not generated."),
    "design_ref": "DESIGN.md section 5 C33",
}


def run(ctx):
    ctx.trusted = ["Coq 8.16.1 kernel", "tools/gen_parser.py", "coq/ParseExpr.v", "tools/vplib/gentree.py (printer = definition of canonical text)",
                   "hook op sexp (prints the implementation's own AST)"]
    ctx.coq("Properties/C33.v")
    exe = ctx.impl()
    if not exe:
        return
    rng = ctx.rng
    n = 6000 if ctx.thorough else 1200
    cases = []
    for i in range(n):
        g = gentree.G(rng, maxd=2 + (i % 3))
        cases.append(g.item())
    # whole programs too
    progs = []
    for i in range(n // 20):
        g = gentree.G(rng, maxd=3)
        progs.append(g.program(rng.randrange(2, 7)))
    res = oracle.batch(exe, [{"op": "sexp", "src": c[0] + "\n"} for c in cases] + [{"op": "sexp", "src": p[0]} for p in progs])
    exp = [[c[1]] for c in cases] + [p[1] for p in progs]
    srcs = [c[0] for c in cases] + [p[0] for p in progs]
    for src, want, r in zip(srcs, exp, res):
        size = sum(w.count("(") for w in want)
        ctx.case({"src": src[:160]}, size >= 8)
        head = re.match(r"\((\w+)", want[0]).group(1)
        ctx.stat("item " + head)
        if "panic" in r:
            ctx.violation("C33:parser-panic", "parser panicked on generated text: %s" % r["panic"], {"input": src, "observed": r})
            continue
        got = [re.sub(r" #unused", "", x) for x in r.get("items", [])]
        if r.get("errors"):
            ctx.violation("C33:parse-error:" + head, "canonical text of a generated %s tree has parse errors: %s" % (head, r["errors"][:2]),
                          {"input": src, "expected": want, "observed": r["errors"]})
        elif got != want:
            ctx.violation("C33:different-tree:" + head, "canonical text of a generated %s tree parses to a different tree" % head,
                          {"input": src, "expected": want, "observed": got})


def replay(ctx, rp):
    exe = ctx.impl()
    print(oracle.batch(exe, [{"op": "sexp", "src": rp["input"]}])[0])
    return 0
