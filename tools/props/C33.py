"""C33 -- Printing a syntax tree and parsing it gives the same tree."""
import re
import struct

from vplib import common, oracle, gentree

LEVEL = "proof"
RULE = ("Coq: Properties/C33.v. parse_print_full_partial: for EVERY tree t of the model grammar ParseFull.v with wf_item t "
        "(definitions fun/method/test/enum/struct/import/toplevel expression/toplevel block; statements let incl. destructuring "
        "and hints, assignment, += and -=, return, if/else, while, for, break, continue, match, assert, blocks; expressions "
        "int/float/string literals, variables, 21 operators left-nested, parentheses, tuples, lists, calls, method calls, field "
        "access, closures; type hints), the model printer's token text parses, with the model of parser.rs, back to t with "
        "nothing left over; parse_print_partial: the same for the old operator/parenthesis fragment (ParseExpr.v); "
        "method_space_refuted: the code before the fix fails on the block `a.b NEWLINE (c)`. "
        "Tie: (a) tools/gen_parser.py regenerates the operator table, the shape of the infix arm and the facts "
        "method_paren_touches / call_paren_touches / return_needs_same_line / assignment_decided_by_second_token / keyword_count "
        "from parser.rs (Theorem full_facts); (b) correspondence: for generated source texts, the REAL lexer's tokens (hook op "
        "lex; kind and spacing to the previous token) are parsed by the EXTRACTED model parser (op parsefull) and by the REAL "
        "parser (hook op sexp): whenever the model accepts, the real parser must report no error and the same tree; the model may "
        "answer none only for texts that use an unmodelled construct (Dict literal, struct literal, try, ::) or that the real "
        "parser rejects; this is also run on token-level mutations (dropped/duplicated/swapped tokens, changed spacing) of the "
        "generated texts; and the model printer applied to the parsed tree must reproduce the token stream (kinds and spacing) "
        "of the generator's canonical text. Search: grammar-directed generation of syntax TREES over the whole grammar incl. the "
        "unmodelled constructs, each printed by the independent printer of gentree.py and parsed by the REAL parser: no errors "
        "and exactly the generated tree. Non-trivial = tree with at least 8 nodes.")
META = {
    "technique": ("Coq round-trip proof over a model of the whole parser (definitions, statements, expressions, hints) + extracted "
                  "model parser vs real parser on the real lexer's tokens + grammar-directed tree generation against the real parser"),
    "level_text": ("Coq theorem parse_print_full_partial: every syntax tree of the model grammar that satisfies wf_item -- "
                   "definitions (fun, method, test, enum, struct, import, toplevel expression and block, with public, type "
                   "parameters, parameter/return/field/payload type hints), statements (let with symbol or destructuring "
                   "destination and optional hint, =, +=, -=, return with/without value, if/else, while, for-in, break, continue, "
                   "match with `V` and `V(dest)` cases, assert, blocks) and expressions (integer, float and string literal tokens, "
                   "variables, all 21 infix operators, explicit parentheses, tuples incl. () and (a,), lists, calls, method calls, "
                   "field access, closures), with any nesting -- prints to a token text (token kind + spacing: glued / same line / "
                   "new line) that the model of parser.rs parses back to exactly that tree. wf_item only excludes trees that need "
                   "an explicit Parentheses node or that the parser rejects (repeated parameter names). PARTIAL: Dict literals, "
                   "struct literals, try/catch, `::`, doc comments, the parser's error-recovery paths and the lexer are not in the "
                   "theorem; tokens are abstract. The model is tied to parser.rs by regenerated facts (operator table, infix-arm "
                   "shape, method/call parenthesis rule, return rule, assignment lookahead, keyword count) and by running the "
                   "extracted model parser against the real parser on the real lexer's tokens (generated texts and mutations). "
                   "The rest of the grammar is covered by generating trees and checking print-then-parse on the real parser."),
    "level_note": ("Trusted: Coq kernel; tools/gen_parser.py; ParseFull.v / ParseExpr.v (hand-written models, checked against the "
                   "real parser on every run); ocaml/ops_parsefull.ml and the token encoder in this file; for the search part "
                   "the independent printer tools/vplib/gentree.py defines what 'canonical source text' means (Garden has no "
                   "pretty-printer of its own); the model printer is checked to produce the same tokens. Toplevel expression "
                   "statements beginning with the keyword `fun` are read as definitions by design and are not generated."),
    "design_ref": "DESIGN.md section 5 C33",
}

KEYWORDS = ["let", "fun", "enum", "struct", "import", "if", "else", "while", "return", "test", "match", "break", "continue",
            "for", "in", "assert", "as", "method", "public", "shared", "try", "catch"]
PUNCT = {"(": "LP", ")": "RP", "[": "LB", "]": "RB", "{": "LC", "}": "RC", ",": "CM", ".": "DT", "::": "CC", "=": "EQ",
         "+=": "PE", "-=": "ME", "=>": "AR", ":": "CL"}
SYMBOL_RE = re.compile(r"[a-zA-Z_][a-zA-Z0-9_]*\Z")
FLOAT_RE = re.compile(r"-?[0-9][0-9_]*\.[0-9][0-9_]*\Z")
INTEGER_RE = re.compile(r"-?[0-9][0-9_]*\Z")
# constructs that ParseFull.v does not model (its parser answers none)
UNMODELLED = re.compile(r"\b(Dict|Tuple|try|catch|__placeholder|__keyword_placeholder)\b|::|[A-Za-z0-9_]\{")


def str_display(raw):
    """quote(unescape(raw)) as in src/parser.rs unescape_string + src/verif_hooks.rs quote; None when unescaping reports a
    diagnostic or the literal is not closed"""
    if len(raw) < 2 or not raw.endswith('"'):
        return None
    s = raw[1:-1]
    out, i = [], 0
    while i < len(s):
        c = s[i]
        if c == "\\":
            m = {"n": "\n", "t": "\t", "\\": "\\", '"': '"'}.get(s[i + 1] if i + 1 < len(s) else None)
            if m is None:
                return None
            out.append(m)
            i += 2
        else:
            if c == '"':
                return None
            out.append(c)
            i += 1
    u = "".join(out)
    return '"' + u.replace("\\", "\\\\").replace('"', '\\"').replace("\n", "\\n") + '"'


def encode_tokens(toks):
    """tokens of the hook op `lex` -> token words of the model op `parsefull` (kind + spacing to the previous token)"""
    words, prev = [], None
    for t in toks:
        text, pos = t["text"], t["pos"]
        if prev is None:
            sp = "s"
        elif pos[0] == prev[1]:
            sp = "g"                    # starts where the previous token ends
        elif pos[2] != prev[3]:
            sp = "n"                    # starts on another line than the previous token ends
        else:
            sp = "s"
        prev = pos
        if text in PUNCT:
            w = PUNCT[text]
        elif text in KEYWORDS:
            w = "k" + text
        elif text == "Dict":
            w = "D"
        elif text in ("Tuple", "__placeholder", "__keyword_placeholder"):
            w = "X"
        elif SYMBOL_RE.match(text):
            w = "y" + common.hexs(text)
        elif text.startswith('"'):
            d = str_display(text)
            w = "X" if d is None else "q" + common.hexs(d)
        elif FLOAT_RE.match(text):
            # the sexp shows the bits of the parsed f64
            w = "f" + common.hexs("%016x" % struct.unpack("<Q", struct.pack("<d", float(text.replace("_", ""))))[0])
        elif INTEGER_RE.match(text):
            v = int(text.replace("_", ""))
            w = ("i%d" % v) if -2 ** 63 <= v < 2 ** 63 else "X"
        else:
            w = "o" + common.hexs(text)
        words.append(sp + w)
    return words


def mutate(rng, src, toks):
    """a token-level mutation of a source text, re-rendered with explicit spacing"""
    if len(toks) < 2:
        return src
    parts = []
    prev = None
    for t in toks:
        pos = t["pos"]
        sep = "" if prev is None else ("" if pos[0] == prev[1] else ("\n" if pos[2] != prev[3] else " "))
        parts.append([sep, t["text"]])
        prev = pos
    k = rng.randrange(6)
    i = rng.randrange(len(parts))
    if k == 0:
        del parts[i]
    elif k == 1:
        parts.insert(i, [" ", parts[i][1]])
    elif k == 2 and i + 1 < len(parts):
        parts[i][1], parts[i + 1][1] = parts[i + 1][1], parts[i][1]
    elif k == 3:
        parts[i][0] = rng.choice(["", " ", "\n"]) if i else ""
    elif k == 4:
        parts.insert(i, [" ", rng.choice(["(", ")", ",", ".", "=", "{", "}", "+", "return", "else", "fun", "x", "1", "=>", ":", "<", "["])])
    else:
        parts[i][1] = rng.choice(["(", ")", ",", ".", "=", "{", "}", "-", "let", "if", "y", "-2", "in", "]"])
    return "".join(a + b for a, b in parts)


def correspondence(ctx, exe, drv, rng, srcs, sexps):
    """extracted model parser (on the real lexer's tokens) vs the real parser"""
    n0 = len(srcs)
    lx0 = oracle.batch(exe, [{"op": "lex", "src": s} for s in srcs])
    muts = [mutate(rng, s, l.get("tokens", [])) for s, l in zip(srcs, lx0) for _ in range(2)]
    lx1 = oracle.batch(exe, [{"op": "lex", "src": s} for s in muts])
    sx1 = oracle.batch(exe, [{"op": "sexp", "src": s} for s in muts])
    all_src = srcs + muts
    all_lex = lx0 + lx1
    all_sx = sexps + sx1
    lines = ["parsefull\t" + " ".join(encode_tokens(l.get("tokens", []))) for l in all_lex]
    rc, res, err = common.run_lines(drv, [], lines, shards=16)
    bad = 0
    for idx, (src, l, s, r) in enumerate(zip(all_src, all_lex, all_sx, res)):
        canonical = idx < n0
        if "panic" in s or "panic" in l:
            continue                                  # reported by the search part (canonical) / not a C33 matter (mutation)
        real = [re.sub(r" #unused", "", x) for x in s.get("items", [])]
        errs = bool(s.get("errors")) or bool(l.get("errors"))
        f = r.split("\t")
        if f[0] == "ok":
            got = f[1].split("\x1f") if f[1] else []
            ctx.stat("model accepts" + ("" if canonical else " (mutation)"))
            if errs or got != real:
                bad += 1
                if bad <= 5:
                    ctx.broken("correspondence:parsefull", "model parser and real parser disagree on %r: model %s, real %s errors %s"
                               % (src, got, real, s.get("errors", [])[:1]))
            elif canonical:
                if f[2] != "1":
                    ctx.stat("model tree outside wf_item")
                if f[3] != "1":
                    bad += 1
                    if bad <= 5:
                        ctx.broken("correspondence:parsefull-print", "the model printer does not reproduce the tokens of the "
                                   "canonical text %r" % src)
                if f[2] == "1" and f[3] == "1":
                    ctx.stat("canonical text in the proved domain")
        elif f[0] == "none":
            if not errs and not UNMODELLED.search(src) and l.get("tokens"):
                bad += 1
                if bad <= 5:
                    ctx.broken("correspondence:parsefull", "model parser answers none on %r, which the real parser accepts and "
                               "which uses no unmodelled construct" % src)
            else:
                ctx.stat("model none: " + ("real parser reports errors" if errs else "unmodelled construct or empty"))
        else:
            bad += 1
            if bad <= 5:
                ctx.broken("correspondence:parsefull", "model driver: %s on %r" % (r[:200], src))


def run(ctx):
    ctx.trusted = ["Coq 8.16.1 kernel", "tools/gen_parser.py", "coq/ParseFull.v", "coq/ParseExpr.v",
                   "ocaml/ops_parsefull.ml + token encoder of tools/props/C33.py",
                   "tools/vplib/gentree.py (printer = definition of canonical text)",
                   "hook ops sexp (prints the implementation's own AST) and lex"]
    ctx.coq("Properties/C33.v")
    exe = ctx.impl()
    if not exe:
        return
    rng = ctx.rng
    n = 6000 if ctx.thorough else 1200
    cases = []
    for i in range(n):
        g = gentree.G(rng, maxd=2 + (i % 3))
        cases.append(g.item())
    # directed: a statement that ends with a field access followed by a statement that starts with `(` (the two
    # must stay two statements: a method call's parenthesis has to touch the method name), also after `let`/`return`
    for i in range(n // 20):
        g = gentree.G(rng, maxd=2)
        r, f, e = g.operand(1), g.pick(gentree.NAMES), g.expr(1)
        first = [("%s.%s" % (r[0], f), "(dot %s (sym %s))" % (r[1], f)),
                 ("let q = %s.%s" % (r[0], f), "(let (sym q) (nohint) (dot %s (sym %s)))" % (r[1], f)),
                 ("return 1 + %s.%s" % (r[0], f), "(return (bin Add (int 1) (dot %s (sym %s))))" % (r[1], f))][i % 3]
        second = [("(%s)" % e[0], "(paren %s)" % e[1]), ("(%s, 1)" % e[0], "(tuple %s (int 1))" % e[1])][(i // 3) % 2]
        cases.append(("{ %s\n %s\n}" % (first[0], second[0]), "(block %s %s)" % (first[1], second[1])))
    # directed: forms of the proved domain that the generator above does not produce (bare return followed by a statement
    # on the next line, 0- and 1-tuples, closures with hints, if/match as operands)
    for i in range(n // 40):
        g = gentree.G(rng, maxd=2)
        a, b, c = g.operand(1), g.expr(1), g.block(1)
        cases += [
            ("{ return\n %s\n}" % b[0], "(block (return) %s)" % b[1]),
            ("{ if %s { return\n}\n (%s,)\n}" % (a[0], b[0]), "(block (if %s (block (return))) (tuple %s))" % (a[1], b[1])),
            ("let t = () == (%s,)" % b[0], "(let (sym t) (nohint) (bin Equal (tuple) (tuple %s)))" % b[1]),
            ("let f = fun(x, y: Int): List<T> %s" % c[0],
             "(let (sym f) (nohint) (funlit (funinfo (anon) (tparams) (params (p (sym x) (nohint)) (p (sym y) (hint Int))) "
             "(ret (hint List (hint T))) %s)))" % c[1]),
            ("x = if %s %s else %s + %s" % (a[0], c[0], c[0], a[0]),
             "(assign (sym x) (bin Add (if %s %s %s) %s))" % (a[1], c[1], c[1], a[1])),
            ("%s(match %s { Aa => %s _ => %s })" % (g.pick(gentree.NAMES), a[0], c[0], c[0]),
             None),
        ]
        f = cases[-1][0].split("(")[0]
        cases[-1] = (cases[-1][0], "(call (var %s) (args (match %s (case (sym Aa) %s) (case (sym _) %s))))" % (f, a[1], c[1], c[1]))
    # whole programs too
    progs = []
    for i in range(n // 20):
        g = gentree.G(rng, maxd=3)
        progs.append(g.program(rng.randrange(2, 7)))
    res = oracle.batch(exe, [{"op": "sexp", "src": c[0] + "\n"} for c in cases] + [{"op": "sexp", "src": p[0]} for p in progs])
    exp = [[c[1]] for c in cases] + [p[1] for p in progs]
    srcs = [c[0] for c in cases] + [p[0] for p in progs]
    drv = ctx.model("parsefull")
    if drv:
        # the requests above were `src + "\n"` for items: use exactly the parsed texts
        texts = [c[0] + "\n" for c in cases] + [p[0] for p in progs]
        correspondence(ctx, exe, drv, rng, texts, res)
    for src, want, r in zip(srcs, exp, res):
        size = sum(w.count("(") for w in want)
        ctx.case({"src": src[:160]}, size >= 8)
        head = re.match(r"\((\w+)", want[0]).group(1)
        ctx.stat("item " + head)
        if "panic" in r:
            ctx.violation("C33:parser-panic", "parser panicked on generated text: %s" % r["panic"], {"input": src, "observed": r})
            continue
        got = [re.sub(r" #unused", "", x) for x in r.get("items", [])]
        if r.get("errors"):
            ctx.violation("C33:parse-error:" + head, "canonical text of a generated %s tree has parse errors: %s" % (head, r["errors"][:2]),
                          {"input": src, "expected": want, "observed": r["errors"]})
        elif got != want:
            ctx.violation("C33:different-tree:" + head, "canonical text of a generated %s tree parses to a different tree" % head,
                          {"input": src, "expected": want, "observed": got})


def replay(ctx, rp):
    exe = ctx.impl()
    print(oracle.batch(exe, [{"op": "sexp", "src": rp["input"]}])[0])
    return 0
