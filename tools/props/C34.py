"""C34 -- Only public definitions are visible through imports."""
import concurrent.futures
import json
import os
import re
import shutil
import tempfile

from vplib import common, oracle

LEVEL = "proof"
RULE = ("Coq: Properties/C34.v over Imports.v (loader with paths_seen, namespaces {values, exported_syms}, one global "
        "type/method table, run-time and check-time resolution). Dynamic: generated projects of <= 3 files (every "
        "file defines a public and a private function, struct, enum and method; import graphs with chains, cycles, "
        "self-imports, with and without `as`). Every access a file can write to an item of another file (qualified, "
        "unqualified, struct literal, method call, enum variant as value / pattern / type hint, through a "
        "re-exporting file) is a probe function; each probe is checked (`garden check --json` on the file that "
        "contains it) and run (all probes as tests of main.gdn under `garden test`; every deviating probe class and one "
        "random probe per project again under `garden run main.gdn`, the oracle of record; 90 s timeout = hang). A probe of a public item "
        "of a directly imported file must pass both; any other must be an error in both. The same projects go "
        "through the extracted model; disagreement with the binary is a broken correspondence.")
META = {
    "technique": "Coq proof over a model of the import loader and of name resolution + differential execution of the "
                 "extracted model vs `garden check` / `garden run` on generated multi-file projects",
    "level_text": ("Coq theorems, GENERAL (any number of files, any import graph incl. cycles, self-imports, repeated and "
                   "missing imports, with and without `as`; loader shape regenerated from the current source; hypotheses: "
                   "the root file exists, no file marks one name both public and private): exported_iff_public (after "
                   "load_root the exported_syms of every loaded file are exactly its public marks: public funs and variants "
                   "of public enums), qualified_visible_iff_public (`a::x` resolves iff a names the namespace of a file that "
                   "marks x public), unqualified_imports_exactly_public (an unqualified name resolves in a loaded file iff it "
                   "is a prelude name, declared by the file, an import alias of the file, or public in a file imported "
                   "without `as`), cyclic_imports_complete_general + unqualified_import_sound (completeness in every graph, "
                   "no re-export, nothing private), namespaces_are_loaded_files, load_terminates (fuel = files + 1), "
                   "check_and_run_agree (all environments). Refuted: types_visible_refuted (private struct / enum / method "
                   "of an imported file IS usable: one global type table)."),
    "level_note": ("Proved by an invariant of the loader carried through the nested recursion of load_items (induction on "
                   "fuel and item list), not by computation on instances; the older `_partial` / concrete theorems are kept "
                   "as examples. Not in the model: types, methods (refuted, known finding), type hints and patterns "
                   "(searched on the binary only), which alias names a file binds (the theorems speak about the value an "
                   "alias is bound to). Trusted: Coq kernel, tools/gen_imports.py, the hand-written correspondence of "
                   "Imports.v with load_toplevel_items_/eval_namespace_access/infer_namespace_access (tied by differential "
                   "execution on ~1000 probes per run), extraction + OCaml glue, the CLI as oracle."),
    "design_ref": "DESIGN.md §5 C34, §8 item 21",
}

FILES = ["main", "b", "c"]
LET = {"main": "m", "b": "b", "c": "c"}


def defs_of(f):
    x = LET[f]
    X = x.upper()
    return """public fun {x}_pf(): Int {{ 1 }}
fun {x}_qf(): Int {{ 2 }}
public struct {X}PS {{ x: Int }}
struct {X}QS {{ x: Int }}
public enum {X}PE {{ {X}PEa, {X}PEb(Int) }}
enum {X}QE {{ {X}QEa, {X}QEb(Int) }}
public method {x}_pm(this: Int): Int {{ this + 1 }}
method {x}_qm(this: Int): Int {{ this + 2 }}
public fun {x}_mkqe(): {X}QE {{ {X}QEa }}
public fun {x}_mkpe(): {X}PE {{ {X}PEa }}
public fun {x}_mkqs(): {X}QS {{ {X}QS{{ x: 7 }} }}
public fun {x}_rf(): Int {{ 3 }}
fun {x}_rf(): Int {{ 4 }}
fun {x}_sf(): Int {{ 5 }}
public fun {x}_sf(): Int {{ 6 }}
""".format(x=x, X=X)


# probe kinds: (kind, needs) -> expression using target file y through (alias or None)
def probe_exprs(y, alias):
    """All probes of importer -> y. Returns list of (kind, public?, is_type_table, expr)."""
    x = LET[y]
    X = x.upper()
    q = (alias + "::") if alias else ""
    res = [
        ("fun", True, False, "%s%s_pf()" % (q, x)),
        ("fun", False, False, "%s%s_qf()" % (q, x)),
        # a name defined twice in the file: the LAST definition's visibility counts
        ("fun-redefined", False, False, "%s%s_rf()" % (q, x)),
        ("fun-redefined", True, False, "%s%s_sf()" % (q, x)),
        ("enum-variant-value", True, False, "%s%sPEa" % (q, X)),
        ("enum-variant-value", False, False, "%s%sQEa" % (q, X)),
        ("enum-constructor", True, False, "%s%sPEb(1)" % (q, X)),
        ("enum-constructor", False, False, "%s%sQEb(1)" % (q, X)),
        ("struct-literal", True, True, "%sPS{ x: 1 }" % X),
        ("struct-literal", False, True, "%sQS{ x: 1 }" % X),
        ("method-call", True, True, "1.%s_pm()" % x),
        ("method-call", False, True, "1.%s_qm()" % x),
        ("enum-variant-pattern", True, True, "match %s%s_mkpe() { %sPEa => 1, _ => 0 }" % (q, x, X)),
        ("enum-variant-pattern", False, True, "match %s%s_mkqe() { %sQEa => 1, _ => 0 }" % (q, x, X)),
        ("type-hint", True, True, "(fun(v: %sPE) { 1 })(%s%s_mkpe())" % (X, q, x)),
        ("type-hint", False, True, "(fun(v: %sQE) { 1 })(%s%s_mkqe())" % (X, q, x)),
    ]
    if alias:
        # a variant name in a pattern cannot be qualified: with an `as` import it is simply not in scope
        res = [r for r in res if r[0] != "enum-variant-pattern"]
    return res


def gen_project(rng, directed=None):
    """-> dict(files=[...], edges=[(src, dst, alias|None)])."""
    if directed is not None:
        return directed
    nfiles = rng.choice([2, 3, 3, 3])
    files = FILES[:nfiles]
    edges = []
    for s in files:
        for d in files:
            p = 0.12 if s == d else 0.5
            if d == "main" and s != "main":
                p = 0.3
            if rng.random() < p:
                alias = ("n" + LET[d]) if rng.random() < 0.5 else None
                edges.append((s, d, alias))
                if rng.random() < 0.1:            # both forms of the same import
                    edges.append((s, d, None if alias else "n" + LET[d]))
    rng.shuffle(edges)
    if not any(e[0] == "main" for e in edges):
        edges.insert(0, ("main", files[1], rng.choice([None, "n" + LET[files[1]]])))
    return {"files": files, "edges": edges, "imports_first": rng.random() < 0.7}


def build_probes(prj):
    """-> list of probes: dict(file, idx, kind, public, types, expr, target, via, expected)."""
    probes = []
    files, edges = prj["files"], prj["edges"]
    for f in files:
        out = [(d, a) for (s, d, a) in edges if s == f]
        seen = set()
        for (d, a) in out:
            if (d, a) in seen:
                continue
            seen.add((d, a))
            for (kind, pub, types, expr) in probe_exprs(d, a):
                probes.append({"file": f, "kind": kind, "public": pub, "types": types, "expr": expr, "target": d,
                               "form": "qualified" if a else "unqualified", "via": None})
            # items of a file imported BY d, reached through d (re-export must not happen)
            for (s2, d2, a2) in edges:
                if s2 == d and d2 not in (f, d):
                    direct_plain = any(s == f and dd == d2 and aa is None for (s, dd, aa) in edges)
                    x2 = LET[d2]
                    if a:
                        probes.append({"file": f, "kind": "fun-through-reexport", "public": False, "types": False,
                                       "expr": "%s::%s_pf()" % (a, x2), "target": d2, "form": "qualified", "via": d})
                    elif not direct_plain:
                        probes.append({"file": f, "kind": "fun-through-reexport", "public": False, "types": False,
                                       "expr": "%s_pf()" % x2, "target": d2, "form": "unqualified", "via": d})
            if a:
                probes.append({"file": f, "kind": "prelude-through-namespace", "public": False, "types": False,
                               "expr": '%s::string_repr(1)' % a, "target": d, "form": "qualified", "via": None})
                probes.append({"file": f, "kind": "missing-item", "public": False, "types": False,
                               "expr": '%s::nosuch()' % a, "target": d, "form": "qualified", "via": None})
    # dedupe on (file, expr)
    uniq, seen = [], set()
    for p in probes:
        k = (p["file"], p["expr"])
        if k in seen:
            continue
        seen.add(k)
        # an item of the file itself is always reachable unqualified (self-import): expected ok when unqualified
        if p["target"] == p["file"] and p["form"] == "unqualified" and p["via"] is None:
            p["self"] = True
        uniq.append(p)
    for i, p in enumerate(uniq):
        p["idx"] = i
        if p.get("self") and p["kind"] not in ("prelude-through-namespace", "missing-item"):
            p["expected"] = "ok"
        else:
            p["expected"] = "ok" if p["public"] else "error"
    return uniq


def probe_call(p):
    return ("probe_m_%d()" % p["idx"]) if p["file"] == "main" else "z%s::probe_%s_%d()" % (
        LET[p["file"]], LET[p["file"]], p["idx"])


def render_project(prj, probes, run_probe=None):
    """-> {filename: source}. main gets extra `as z<f>` imports of every other file (after the graph's own imports)
    so that it can call the probes of every file; one `test` per probe calls it (bulk run-time oracle); with
    run_probe a top-level expression calls that probe (`garden run`, the oracle of record)."""
    srcs = {}
    for f in prj["files"]:
        imps = "".join('import "%s.gdn"%s\n' % (d, (" as " + a) if a else "") for (s, d, a) in prj["edges"] if s == f)
        if f == "main":
            imps += "".join('import "%s.gdn" as z%s\n' % (g, LET[g]) for g in prj["files"] if g != "main")
        body = defs_of(f)
        pr = "".join("public fun probe_%s_%d(): String { string_repr(%s) }\n" % (LET[f], p["idx"], p["expr"])
                     for p in probes if p["file"] == f)
        src = (imps + "\n" + body + pr) if prj.get("imports_first", True) else (body + imps + pr)
        if f == "main":
            src += "".join("test t%03d { %s }\n" % (p["idx"], probe_call(p)) for p in probes)
            if run_probe is not None:
                src += '\nprintln("RESULT " ^ %s)\n' % probe_call(run_probe)
        srcs[f + ".gdn"] = src
    return srcs


def probe_line(src, p):
    key = "public fun probe_%s_%d()" % (LET[p["file"]], p["idx"])
    for i, l in enumerate(src.split("\n")):
        if l.startswith(key):
            return i + 1
    return None


def run_one(exe, d, prj, probes, p, timeout):
    srcs = render_project(prj, probes, run_probe=p)
    with open(os.path.join(d, "main.gdn"), "w") as f:
        f.write(srcs["main.gdn"])
    rc, so, se = oracle.garden_cli(exe, ["run", "main.gdn"], timeout=timeout, cwd=d)
    if rc == 124:
        rv, rmsg = "timeout", ""
    elif rc == 101 or "panicked at" in se:
        rv, rmsg = "crash", re.sub(r"\(\d+\) ", "", se[-300:])
    elif "RESULT " in so:
        rv, rmsg = "ok", so.strip()[-80:]
    else:
        rv, rmsg = "error", (se + so).strip().split("\n")[0][:200]
    return rv, rmsg, srcs


def run_project(exe, prj, probes, timeout=90, confirm=8, rng=None):
    """-> per probe: {'check': ok|error|timeout|crash, 'run': ..., details}.
    check: `garden check --json <file of the probe>`; run: `garden test main.gdn` (one test per probe) for all
    probes, then `garden run main.gdn` (one process per probe) for every probe that deviates from its expectation
    (at most `confirm` per distinct kind/form/visibility) and for one more probe."""
    d = os.path.realpath(tempfile.mkdtemp(prefix="c34-", dir=oracle.scratch_dir()))
    out = {}
    try:
        base = render_project(prj, probes)
        for n, s in base.items():
            with open(os.path.join(d, n), "w") as f:
                f.write(s)
        check = {}
        for fn in prj["files"]:
            rc, so, se = oracle.garden_cli(exe, ["check", "--json", fn + ".gdn"], timeout=timeout, cwd=d)
            diags = []
            for line in so.split("\n"):
                line = line.strip()
                if line.startswith("{"):
                    try:
                        diags.append(json.loads(line))
                    except ValueError:
                        pass
            st = "timeout" if rc == 124 else ("crash" if (rc == 101 or "panicked at" in se) else "done")
            check[fn] = (st, diags, re.sub(r"\(\d+\) ", "", se[-300:]))
        rc, so, se = oracle.garden_cli(exe, ["test", "main.gdn"], timeout=timeout, cwd=d)
        if rc == 124:
            bulk = ("timeout", "")
        elif rc not in (0, 1) or "panicked at" in se or "Ran " not in so:
            bulk = ("crash", re.sub(r"\(\d+\) ", "", (se or so)[-300:]))
        else:
            bulk = None
        failed = {}
        cur = None
        for line in so.split("\n"):
            m = re.match(r"^Failed: (t\d+)\b", line)
            if m:
                cur = m.group(1)
                failed[cur] = ""
            elif cur and line.startswith("  "):
                failed[cur] += line.strip()
        seen_dev = {}
        for p in probes:
            st, diags, se2 = check[p["file"]]
            ln = probe_line(base[p["file"] + ".gdn"], p)
            if st != "done":
                cv, cmsg = st, se2
            else:
                errs = [g for g in diags if g.get("severity") == "error" and g.get("line_number") == ln]
                cv, cmsg = ("error", errs[0]["message"]) if errs else ("ok", "")
            if bulk:
                rv, rmsg = bulk
            else:
                t = "t%03d" % p["idx"]
                rv, rmsg = ("error", failed[t][:200]) if t in failed else ("ok", "")
            out[p["idx"]] = {"check": cv, "check_msg": cmsg, "run": rv, "run_msg": rmsg, "run_by": "garden test",
                             "files": render_project(prj, probes, run_probe=p)}
        # the CLI of record for deviations
        todo = []
        for p in probes:
            r = out[p["idx"]]
            if r["check"] != p["expected"] or r["run"] != p["expected"]:
                k = (p["kind"], p["form"], p["public"], r["check"], r["run"])
                seen_dev[k] = seen_dev.get(k, 0) + 1
                if seen_dev[k] <= 1 and len(todo) < confirm:
                    todo.append(p)
        if probes:
            extra = probes[(rng.randrange(len(probes)) if rng else 0)]
            if extra not in todo:
                todo.append(extra)
        for p in todo:
            rv, rmsg, srcs = run_one(exe, d, prj, probes, p, timeout)
            r = out[p["idx"]]
            r["test_run"] = r["run"]
            r.update({"run": rv, "run_msg": rmsg, "run_by": "garden run", "files": srcs})
        return out
    finally:
        shutil.rmtree(d, ignore_errors=True)


def in_cycle(prj, a, b):
    """is there a path b ->* a (so that a -> b closes a cycle)?"""
    adj = {}
    for (s, d, _) in prj["edges"]:
        adj.setdefault(s, set()).add(d)
    todo, seen = [b], set()
    while todo:
        x = todo.pop()
        if x == a:
            return True
        if x in seen:
            continue
        seen.add(x)
        todo += list(adj.get(x, ()))
    return False


def violation_key(prj, p, r):
    exp, cv, rv = p["expected"], r["check"], r["run"]
    if "timeout" in (cv, rv):
        return "C34:import-load-does-not-terminate"
    if "crash" in (cv, rv):
        return "C34:crash:" + p["kind"]
    if exp == "error" and p["types"] and (cv == "ok" or rv == "ok"):
        name = {"struct-literal": "private-struct-literal-via-import", "method-call": "private-method-call-via-import",
                "enum-variant-pattern": "private-enum-variant-via-import", "type-hint": "private-enum-type-hint-via-import"}[p["kind"]]
        return "C34:" + name
    if exp == "ok" and p["kind"] in ("enum-variant-value", "enum-constructor") and cv == "error" and rv == "error":
        return "C34:public-enum-variant-unreachable:" + p["form"]
    if exp == "ok" and p["kind"] == "fun" and p["form"] == "unqualified" and rv == "error" \
            and in_cycle(prj, p["file"], p["target"]):
        return "C34:public-fun-unreachable-through-cyclic-unqualified-import"
    if cv != rv:
        return "C34:check-run-disagree:%s:%s:expected-%s:check-%s:run-%s" % (p["kind"], p["form"], exp, cv, rv)
    return "C34:%s:%s:%s:expected-%s:got-%s" % (p["kind"], p["form"], "public" if p["public"] else "private", exp, cv)


def encode_project(prj, probes):
    e = ",".join("%s>%s%s" % (LET[s], LET[d], (":" + a) if a else "") for (s, d, a) in prj["edges"])
    return "%s|%s|%d" % ("".join(LET[f] for f in prj["files"]), e, 1 if prj.get("imports_first", True) else 0)


MISSING_TWICE = [
    {"main.gdn": 'import "nosuch.gdn" as a\nimport "nosuch.gdn" as b\nprintln("hi")\n'},
    {"main.gdn": 'import "nosuch.gdn"\nimport "nosuch.gdn"\nprintln("hi")\n'},
    {"main.gdn": 'import "b.gdn"\nimport "nosuch.gdn" as a\nprintln("hi")\n', "b.gdn": 'import "nosuch.gdn" as a\npublic fun f(): Int { 1 }\n'},
]

DIRECTED = [
    {"files": ["main", "b"], "edges": [("main", "b", "nb")], "imports_first": True},
    {"files": ["main", "b"], "edges": [("main", "b", None)], "imports_first": True},
    {"files": ["main", "b"], "edges": [("main", "b", None), ("b", "main", None)], "imports_first": True},
    {"files": ["main", "b"], "edges": [("main", "b", "nb"), ("b", "main", "nm")], "imports_first": True},
    {"files": ["main", "b", "c"], "edges": [("main", "b", None), ("b", "c", None), ("c", "b", None)], "imports_first": True},
    {"files": ["main", "b", "c"], "edges": [("main", "b", "nb"), ("b", "c", "nc"), ("c", "main", "nm")], "imports_first": True},
    {"files": ["main", "b", "c"], "edges": [("main", "b", None), ("b", "c", None), ("c", "main", None)], "imports_first": False},
    {"files": ["main", "b"], "edges": [("main", "main", None), ("main", "b", "nb"), ("b", "b", "nb")], "imports_first": True},
    {"files": ["main", "b", "c"], "edges": [("main", "b", "nb"), ("main", "c", None), ("b", "c", None)], "imports_first": True},
]


def run(ctx):
    ctx.trusted = [
        "Coq 8.16.1 kernel (coqc); vm_compute for the refutation witnesses and examples",
        "coq/Imports.v as a hand transcription of load_toplevel_items_ / insert_imported_namespace / "
        "eval_namespace_access / infer_namespace_access (tied by differential execution)",
        "Extraction (ExtrOcamlBasic only) + ocaml/driver_core.ml, ops_imports.ml",
        "`garden check --json` and `garden run` as the oracle; one process per probe",
    ]
    ctx.coq("Properties/C34.v")
    exe = ctx.impl()
    mdl = ctx.model()
    if not exe:
        return
    rng = ctx.rng
    nprj = 150 if ctx.thorough else 22
    projects = [gen_project(rng, d) for d in DIRECTED] + [gen_project(rng) for _ in range(nprj)]
    allprobes = [build_probes(p) for p in projects]
    ctx.log("running %d projects (%d probes: one `garden run` each + `garden check --json` per file)"
            % (len(projects), sum(len(x) for x in allprobes)))
    with concurrent.futures.ThreadPoolExecutor(common.NCPU) as ex:
        import random as _r
        seeds = [rng.getrandbits(32) for _ in projects]
        results = list(ex.map(lambda a: run_project(exe, a[0], a[1], rng=_r.Random(a[2])), zip(projects, allprobes, seeds)))
    seen_keys = set()
    for prj, probes, res in zip(projects, allprobes, results):
        cyc = any(in_cycle(prj, s, d) for (s, d, _) in prj["edges"])
        ctx.stat("project " + ("cyclic" if cyc else "acyclic") + " %d files" % len(prj["files"]))
        for p in probes:
            r = res[p["idx"]]
            ctx.case({"project": encode_project(prj, probes), "file": p["file"], "expr": p["expr"]}, True)
            ctx.stat("probe %s %s" % (p["kind"], "public" if p["public"] else "private"))
            ctx.stat("outcome expected-%s check-%s run-%s" % (p["expected"], r["check"], r["run"]))
            ctx.stat("run verdict by " + r["run_by"])
            if "test_run" in r and r["test_run"] != r["run"] and "timeout" not in (r["run"], r["test_run"]):
                ctx.violation("C34:garden-test-and-garden-run-disagree:" + p["kind"],
                              "probe `%s` in %s.gdn: %s under `garden test main.gdn` but %s under `garden run main.gdn`"
                              % (p["expr"], p["file"], r["test_run"], r["run"]),
                              {"files": r["files"], "probe": {k: p[k] for k in ("file", "idx", "kind", "public", "expr",
                                                                               "target", "form", "expected")},
                               "commands": [["test", "main.gdn"], ["run", "main.gdn"]]})
            if r["check"] == p["expected"] and r["run"] == p["expected"]:
                continue
            key = violation_key(prj, p, r)
            ctx.stat("deviation " + key)
            if key in seen_keys:
                continue
            seen_keys.add(key)
            ctx.violation(key, "in %s.gdn `%s` (%s %s item of %s.gdn%s, %s): expected %s; garden check: %s %s; garden run: %s %s"
                          % (p["file"], p["expr"], "public" if p["public"] else "non-public", p["kind"], p["target"],
                             (" reached through " + p["via"] + ".gdn") if p["via"] else "", p["form"], p["expected"],
                             r["check"], r["check_msg"][:120], r["run"], r["run_msg"][:120]),
                          {"files": r["files"], "commands": [["check", "--json", p["file"] + ".gdn"], ["run", "main.gdn"]],
                           "probe": {k: p[k] for k in ("file", "idx", "kind", "public", "expr", "target", "form", "expected")},
                           "observed": {"check": r["check"], "check_msg": r["check_msg"], "run": r["run"], "run_msg": r["run_msg"]},
                           "project": encode_project(prj, probes)})

    # ---- a file that does not exist, imported twice / by two files of a cycle
    for k, srcs in enumerate(MISSING_TWICE):
        d = os.path.realpath(tempfile.mkdtemp(prefix="c34m-", dir=oracle.scratch_dir()))
        try:
            for n, s_ in srcs.items():
                with open(os.path.join(d, n), "w") as fh:
                    fh.write(s_)
            for cmd in (["check", "--json", "main.gdn"], ["run", "main.gdn"]):
                rc, so, se = oracle.garden_cli(exe, cmd, timeout=90, cwd=d)
                ctx.case({"missing-file-project": k, "cmd": cmd[0]}, True)
                if rc == 124 or rc == 101 or "panicked at" in se:
                    ctx.violation("C34:crash:missing-file-imported-twice",
                                  "`garden %s`: %s" % (" ".join(cmd), "timeout" if rc == 124 else re.sub(r"\(\d+\) ", "", se[:200])),
                                  {"files": srcs, "commands": [cmd], "raw": True})
        finally:
            shutil.rmtree(d, ignore_errors=True)

    # ---- correspondence with the extracted model -------------------------------------
    if mdl:
        lines = []
        index = []
        for prj, probes, res in zip(projects, allprobes, results):
            enc = encode_project(prj, probes)
            for p in probes:
                if p["kind"] in ("type-hint", "enum-variant-pattern", "fun-redefined"):
                    continue        # outside the model (typing of patterns / hints; names defined twice); search only
                lines.append("imports\t%s\t%s\t%s\t%s\t%s\t%s" % (enc, LET[p["file"]], p["kind"], LET[p["target"]],
                                                                 "1" if p["public"] else "0",
                                                                 p["expr"].split("::")[0] if p["form"] == "qualified" and "::" in p["expr"] else "-"))
                index.append((prj, p, res[p["idx"]]))
        rc, out, err = common.run_lines(mdl, [], lines, shards=1)
        nbad = 0
        for (prj, p, r), line, req in zip(index, out, lines):
            f = line.split("\t")
            ctx.stat("correspondence_cases")
            if len(f) < 2 or f[0] not in ("ok", "error", "crash", "timeout") or f[1] not in ("ok", "error", "crash", "timeout"):
                ctx.broken("correspondence:model-driver", "bad model answer %r for %r" % (line, req))
                break
            if (f[0], f[1]) != (r["check"], r["run"]):
                nbad += 1
                ctx.cov.setdefault("corr", [])
                if len(ctx.cov["corr"]) < 5:
                    ctx.cov["corr"].append({"request": req, "model": line, "impl_check": r["check"], "impl_run": r["run"],
                                            "expr": p["expr"], "file": p["file"]})
        if nbad:
            ctx.broken("correspondence:imports", "model and implementation differ on %d probes, e.g. %s"
                       % (nbad, ctx.cov["corr"][:2]))
    ctx.notes.append("type hints, patterns and field access on private types are searched on the binary only "
                     "(not in the Coq model)")


def replay(ctx, rp):
    exe = ctx.impl()
    d = os.path.realpath(tempfile.mkdtemp(prefix="c34r-", dir=oracle.scratch_dir()))
    try:
        for n, s in rp["files"].items():
            with open(os.path.join(d, n), "w") as f:
                f.write(s)
        if rp.get("raw"):
            st = 0
            for cmd in rp["commands"]:
                rc, so, se = oracle.garden_cli(exe, cmd, timeout=90, cwd=d)
                print("$ garden %s -> exit %s\n%s%s" % (" ".join(cmd), rc, so, se[:400]))
                if rc in (101, 124) or "panicked at" in se:
                    st = 1
            return st
        p = rp["probe"]
        rc, so, se = oracle.garden_cli(exe, ["check", "--json", p["file"] + ".gdn"], timeout=30, cwd=d)
        print("$ garden check --json %s.gdn -> exit %s\n%s%s" % (p["file"], rc, so, se))
        ln = probe_line(rp["files"][p["file"] + ".gdn"], p)
        cerr = any(l.strip().startswith("{") and json.loads(l).get("severity") == "error"
                   and json.loads(l).get("line_number") == ln for l in so.split("\n") if l.strip().startswith("{"))
        rc2, so2, se2 = oracle.garden_cli(exe, ["run", "main.gdn"], timeout=30, cwd=d)
        print("$ garden run main.gdn -> exit %s\n%s%s" % (rc2, so2, se2))
        cv = "timeout" if rc == 124 else ("error" if cerr else "ok")
        rv = "timeout" if rc2 == 124 else ("ok" if "RESULT " in so2 else "error")
        print("probe `%s` in %s.gdn: expected %s, check %s, run %s" % (p["expr"], p["file"], p["expected"], cv, rv))
        return 0 if (cv == p["expected"] and rv == p["expected"]) else 1
    finally:
        shutil.rmtree(d, ignore_errors=True)
