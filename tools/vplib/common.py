"""Shared machinery for the garden verification checks (stdlib only).

Every check goes through `Ctx`:
  * ctx.coq("Properties/C04.v")     - regenerate tables from /repo, build the Coq
                                      targets, gate on axioms/Admitted, record
                                      one obligation per pinned theorem
  * ctx.impl()                      - path of the hooked garden binary built from
                                      /repo's current working tree
  * ctx.model()                     - path of the extracted-model OCaml driver
  * ctx.violation(key, what, replay) / ctx.broken(name, detail)
  * ctx.finish(coverage)            - writes evidence, prints VIOLATION /
                                      KNOWN-FINDING lines, returns exit status
"""
import fcntl
import hashlib
import json
import os
import random
import re
import subprocess
import sys
import time

VERIF = os.path.dirname(os.path.dirname(os.path.dirname(os.path.abspath(__file__))))
REPO = os.environ.get("VERIF_REPO", "/repo")
CACHE = os.path.join(VERIF, ".cache")
COQ = os.path.join(VERIF, "coq")
GUARD = "wilfred_garden_verif"
TARGET = os.environ.get("VERIF_TARGET", os.path.join(CACHE, "target"))
NCPU = os.cpu_count() or 4

ALLOWED_AXIOMS = {
    # Standard-library axioms that a property may name in its allow-list.
    # (Nothing is allowed by default: a property must pass allow=[...].)
}

FORBIDDEN_RE = re.compile(
    r"\b(Admitted|admit|Axiom|Axioms|Parameter|Parameters|Conjecture|Conjectures|"
    r"Hypothesis|Hypotheses|Variable|Variables|Unset\s+Guard|bypass_check|"
    r"Admit\s+Obligations|type-in-type|impredicative-set|"
    r"Unset\s+Universe\s+Checking|Unset\s+Positivity)\b")


def sh(cmd, timeout=None, cwd=None, env=None, input=None):
    """Run a command, return (rc, stdout, stderr). rc=124 on timeout."""
    try:
        p = subprocess.run(cmd, shell=isinstance(cmd, str), cwd=cwd, env=env,
                           input=input, capture_output=True, timeout=timeout)
        return p.returncode, p.stdout.decode("utf-8", "replace"), p.stderr.decode("utf-8", "replace")
    except subprocess.TimeoutExpired as e:
        out = (e.stdout or b"").decode("utf-8", "replace")
        err = (e.stderr or b"").decode("utf-8", "replace")
        return 124, out, err


class Lock:
    def __init__(self, name):
        os.makedirs(CACHE, exist_ok=True)
        self.path = os.path.join(CACHE, name + ".lock")

    def __enter__(self):
        self.f = open(self.path, "w")
        fcntl.flock(self.f, fcntl.LOCK_EX)
        return self

    def __exit__(self, *a):
        fcntl.flock(self.f, fcntl.LOCK_UN)
        self.f.close()


def sha(s):
    if isinstance(s, str):
        s = s.encode()
    return hashlib.sha256(s).hexdigest()


def write_if_changed(path, content):
    os.makedirs(os.path.dirname(path), exist_ok=True)
    try:
        with open(path) as f:
            if f.read() == content:
                return False
    except FileNotFoundError:
        pass
    with open(path, "w") as f:
        f.write(content)
    return True


# --------------------------------------------------------------------------
# Building the implementation (hooks on) from /repo's current working tree

def build_impl():
    """cargo build --offline with the verification cfg; returns (ok, log, binary)."""
    env = dict(os.environ)
    env["RUSTFLAGS"] = "--cfg " + GUARD
    env["CARGO_TARGET_DIR"] = TARGET
    env["CARGO_NET_OFFLINE"] = "true"
    with Lock("cargo"):
        rc, out, err = sh(["cargo", "build", "--offline", "--manifest-path",
                           os.path.join(REPO, "Cargo.toml")], env=env, timeout=1500)
    return rc == 0, out + err, os.path.join(TARGET, "debug", "garden")


# --------------------------------------------------------------------------
# Coq

def coq_project():
    """(Re)generate _CoqProject from the .v files present."""
    files = []
    for d, _, fs in os.walk(COQ):
        for f in sorted(fs):
            if f.endswith(".v"):
                files.append(os.path.relpath(os.path.join(d, f), COQ))
    files.sort()
    content = "-Q . Garden\n-arg -w -arg -notation-overridden,-deprecated-hint-without-locality,-deprecated-instance-without-locality\n" + "\n".join(files) + "\n"
    changed = write_if_changed(os.path.join(COQ, "_CoqProject"), content)
    if changed or not os.path.exists(os.path.join(COQ, "Makefile")):
        rc, out, err = sh(["coq_makefile", "-f", "_CoqProject", "-o", "Makefile"], cwd=COQ, timeout=120)
        if rc != 0:
            raise RuntimeError("coq_makefile failed: " + out + err)
    return files


def gen_tables():
    """Run every translator tools/gen_*.py (each writes files under coq/gen/). Returns (ok, log)."""
    tdir = os.path.join(VERIF, "tools")
    ok, log = True, ""
    for f in sorted(os.listdir(tdir)):
        if f.startswith("gen_") and f.endswith(".py") and f != "gen_manifest.py":
            rc, out, err = sh([sys.executable, os.path.join(tdir, f),
                               "--repo", REPO, "--out", os.path.join(COQ, "gen")], timeout=120)
            ok = ok and rc == 0
            log += out + err
    return ok, log


def coq_make(targets, force=(), timeout=1500):
    """make the given .vo targets (paths relative to coq/). Returns (ok, log)."""
    with Lock("coq"):
        ok, tlog = gen_tables()
        if not ok:
            return False, "TRANSLATOR FAILED\n" + tlog
        coq_project()
        for t in force:
            for ext in (".vo", ".vok", ".vos", ".glob"):
                try:
                    os.remove(os.path.join(COQ, t[:-2] + ext if t.endswith(".v") else t))
                except OSError:
                    pass
        tg = [t[:-2] + ".vo" if t.endswith(".v") else t for t in targets]
        rc, out, err = sh(["make", "-j%d" % NCPU, "-k"] + tg, cwd=COQ, timeout=timeout)
        return rc == 0, tlog + out + err


def scan_forbidden(paths):
    """grep-gate: no Admitted/Axiom/... in the given .v files (comments stripped)."""
    bad = []
    for p in paths:
        try:
            src = open(p).read()
        except OSError:
            continue
        src = strip_coq_comments(src)
        for m in FORBIDDEN_RE.finditer(src):
            # `Variable`/`Hypothesis` inside a Section are fine
            w = m.group(1)
            if w.startswith(("Variable", "Hypothes")) and inside_section(src, m.start()):
                continue
            line = src.count("\n", 0, m.start()) + 1
            bad.append("%s:%d: %s" % (os.path.relpath(p, COQ), line, w))
    return bad


def strip_coq_comments(src):
    out = []
    i, depth, n = 0, 0, len(src)
    in_str = False
    while i < n:
        c = src[i]
        if depth == 0 and c == '"':
            in_str = not in_str
            out.append(c)
            i += 1
        elif not in_str and src.startswith("(*", i):
            depth += 1
            i += 2
        elif not in_str and depth > 0 and src.startswith("*)", i):
            depth -= 1
            i += 2
        else:
            if depth == 0:
                out.append(c)
            elif c == "\n":
                out.append(c)
            i += 1
    return "".join(out)


def inside_section(src, pos):
    opens = len(re.findall(r"^\s*Section\s+\w+\s*\.", src[:pos], re.M))
    closes = len(re.findall(r"^\s*End\s+\w+\s*\.", src[:pos], re.M))
    mods = len(re.findall(r"^\s*Module\s+(Type\s+)?\w+\s*\.", src[:pos], re.M))
    return opens > max(0, closes - mods)


def coq_deps(vfile):
    """Transitive .v dependencies (within coq/) of a file, via coqdep."""
    seen = set()
    todo = [vfile]
    while todo:
        f = todo.pop()
        if f in seen:
            continue
        seen.add(f)
        rc, out, err = sh(["coqdep", "-Q", ".", "Garden", f], cwd=COQ, timeout=60)
        for m in re.finditer(r"(\S+)\.vo\b", out.split(":", 1)[1] if ":" in out else ""):
            d = m.group(1) + ".v"
            d = os.path.normpath(d)
            if os.path.exists(os.path.join(COQ, d)) and d not in seen:
                todo.append(d)
    return sorted(seen)


THEOREM_RE = re.compile(r"^\s*(?:Theorem|Lemma|Corollary|Example)\s+([A-Za-z_][\w']*)", re.M)


def parse_assumptions(log):
    """Map theorem name -> 'closed' | [axiom names], from Print Assumptions output
    preceded by our marker lines  (* we print 'ASSUMPTIONS-OF name' via idtac *)."""
    res = {}
    # Our Properties files use:  Print Assumptions foo.
    # Coq prints either 'Closed under the global context' or 'Axioms:\n name : type...'
    # We pair outputs with theorem names in order of appearance.
    blocks = re.split(r"(?=Closed under the global context|^Axioms:)", log, flags=re.M)
    outs = []
    for b in blocks:
        if b.startswith("Closed under the global context"):
            outs.append("closed")
        elif b.startswith("Axioms:"):
            names = []
            for line in b.splitlines()[1:]:
                m = re.match(r"^([A-Za-z_][\w.']*)\s*:", line)
                if m:
                    names.append(m.group(1))
                elif line.strip() == "" or not line.startswith(" "):
                    if line.strip() and not re.match(r"^\s", line):
                        break
            outs.append(names)
    return outs


# --------------------------------------------------------------------------
# OCaml model driver (extracted models + hand-written line protocol)

def extract_families():
    exd = os.path.join(COQ, "extract")
    return sorted(f[:-6] for f in os.listdir(exd) if f.endswith(".roots") and f != "base.roots")


def gen_extract():
    """coq/extract/<fam>.roots -> coq/extract/Extract_<fam>.v, each extracting into its OWN OCaml module
    mdl_<fam>.ml (so that identifiers of different models never clash). base.roots is added to every family."""
    exd = os.path.join(COQ, "extract")

    def read(fn):
        reqs, roots = [], []
        for line in open(os.path.join(exd, fn)):
            w = line.split("#")[0].split()
            if not w:
                continue
            if w[0] == "require":
                reqs += [x for x in w[1:] if x not in reqs]
            elif w[0] == "root":
                roots += [x for x in w[1:] if x not in roots]
        return reqs, roots
    breqs, broots = read("base.roots")
    fams = extract_families()
    for fam in fams:
        reqs, roots = read(fam + ".roots")
        reqs = reqs + [r for r in breqs if r not in reqs]
        roots = roots + [r for r in broots if r not in roots]
        text = ("(* GENERATED from extract/%s.roots by tools/vplib/common.py *)\n" % fam
                + "From Coq Require Import Extraction ExtrOcamlBasic.\n"
                + "".join("Require %s.\n" % r for r in reqs)
                + "Extraction Language OCaml.\n"
                + "Extraction \"mdl_%s.ml\" " % fam + " ".join(roots) + ".\n")
        write_if_changed(os.path.join(exd, "Extract_%s.v" % fam), text)
    for f in os.listdir(exd):
        if f.startswith("Extract") and f.endswith(".v") and f[8:-2] not in fams:
            os.remove(os.path.join(exd, f))
    return fams


def build_model():
    """Extract the models (one OCaml module per family) and build ocaml/driver. Returns (ok, log, path).
    ops_<fam>.ml is compiled with `Mdl` bound to its own family's module and `Driver_core` providing
    register + number conversions for that module's types."""
    odir = os.path.join(CACHE, "ocaml")
    os.makedirs(odir, exist_ok=True)
    exe = os.path.join(odir, "driver")
    with Lock("extractgen"):
        fams = gen_extract()
    ok, log = coq_make(["extract/Extract_%s.v" % f for f in fams])
    # a family whose extraction fails is left out (its ops answer `unsupported`); others still work
    good = [f for f in fams if os.path.exists(os.path.join(COQ, "extract", "Extract_%s.vo" % f))
            and os.path.exists(os.path.join(COQ, "mdl_%s.ml" % f))]
    bad = [f for f in fams if f not in good]
    if bad:
        log += "\nEXTRACTION FAILED for families: %s\n" % bad
    src = os.path.join(VERIF, "ocaml")
    with Lock("ocaml"):
        h = hashlib.sha256()
        for f in good:
            for ext in (".mli", ".ml"):
                h.update(open(os.path.join(COQ, "mdl_%s%s" % (f, ext)), "rb").read())
        ofiles = sorted(f for f in os.listdir(src) if f.endswith(".ml"))
        for f in ofiles:
            h.update(open(os.path.join(src, f), "rb").read())
        key = h.hexdigest()
        keyf = os.path.join(odir, "key")
        if os.path.exists(exe) and os.path.exists(keyf) and open(keyf).read() == key:
            return not bad, log, exe
        for f in os.listdir(odir):
            if f.endswith((".ml", ".mli", ".cmi", ".cmx", ".o", ".cmo")):
                os.remove(os.path.join(odir, f))
        def cp(srcp, dst):
            with open(srcp, "rb") as a_, open(os.path.join(odir, dst), "wb") as b_:
                b_.write(a_.read())

        def occ(files):
            return sh(["ocamlfind", "ocamlopt", "-O2", "-w", "-a", "-package", "str,unix", "-c"] + files,
                      cwd=odir, timeout=900)
        cp(os.path.join(src, "driver_base.ml"), "driver_base.ml")
        rc, out, err = occ(["driver_base.ml"])
        if rc != 0:
            return False, log + out + err, exe
        objs = ["driver_base.cmx"]
        conv = open(os.path.join(src, "conv_template.ml")).read()
        for f in good:
            for ext in (".mli", ".ml"):
                cp(os.path.join(COQ, "mdl_%s%s" % (f, ext)), "mdl_%s%s" % (f, ext))
            files = ["mdl_%s.mli" % f, "mdl_%s.ml" % f]
            fobjs = ["mdl_%s.cmx" % f]
            opsf = os.path.join(src, "ops_%s.ml" % f)
            if os.path.exists(opsf):
                with open(os.path.join(odir, "conv_%s.ml" % f), "w") as bf:
                    bf.write("open Mdl_%s\n" % f + conv)
                with open(os.path.join(odir, "ops_%s.ml" % f), "w") as bf:
                    bf.write("module Mdl = Mdl_%s\nmodule Driver_core = struct include Driver_base include Conv_%s end\n"
                             % (f, f))
                    bf.write("# 1 \"ops_%s.ml\"\n" % f)
                    bf.write(open(opsf).read())
                files += ["conv_%s.ml" % f, "ops_%s.ml" % f]
                fobjs += ["conv_%s.cmx" % f, "ops_%s.cmx" % f]
            rc, out, err = occ(files)
            if rc != 0:
                # one family's glue does not compile: leave it out, keep the others usable
                bad.append(f)
                log += "\nOCAML BUILD FAILED for family %s:\n%s%s\n" % (f, out, err)
                continue
            objs += fobjs
        with open(os.path.join(src, "driver_main.ml")) as a, open(os.path.join(odir, "driver_main.ml"), "w") as bf:
            bf.write(a.read().replace("Driver_core.handlers", "Driver_base.handlers"))
        rc, out, err = sh(["ocamlfind", "ocamlopt", "-O2", "-w", "-a", "-package", "str,unix", "-linkpkg",
                           "-o", exe] + objs + ["driver_main.ml"], cwd=odir, timeout=900)
        if rc != 0:
            return False, log + out + err, exe
        open(keyf, "w").write(key)
        return not bad, log, exe


def run_lines(exe, args, lines, timeout=600, shards=1):
    """Feed request lines to a line-protocol process; returns list of response lines.
    With shards>1 the input is split over several processes."""
    if shards <= 1 or len(lines) < 64:
        # One answer line per request line. A process that is killed by the timeout (or dies) leaves a partial last
        # line: only complete lines are kept, and the rest of the requests goes to a fresh process (the request at which a
        # process DIED is answered `<crash>`), so answers always stay aligned with requests.
        res, errs, rc_all, start, restarts = [], [], 0, 0, 0
        while start < len(lines):
            rc, out, err = sh([exe] + args, input=("\n".join(lines[start:]) + "\n").encode(), timeout=timeout)
            rc_all = max(rc_all, rc)
            errs.append(err)
            part = out.split("\n")
            complete = part[:-1]            # text after the last newline is a partial line (or empty)
            res += complete[:len(lines) - start]
            got = len(complete)
            if got >= len(lines) - start:
                break
            restarts += 1
            if restarts > 8:
                res += ["<missing>"] * (len(lines) - len(res))
                break
            if rc != 124:
                res.append("<crash rc=%d>" % rc)
                got += 1
            start += got
        return rc_all, res, "".join(errs)
    import concurrent.futures
    n = len(lines)
    k = min(shards, n)
    chunks = [lines[i * n // k:(i + 1) * n // k] for i in range(k)]
    with concurrent.futures.ThreadPoolExecutor(k) as ex:
        parts = list(ex.map(lambda c: run_lines(exe, args, c, timeout, 1), chunks))
    rc = max(p[0] for p in parts)
    res = []
    for c, p in zip(chunks, parts):
        r = p[1]
        if len(r) < len(c):
            r = r + ["<missing>"] * (len(c) - len(r))
        res += r[:len(c)]
    return rc, res, "".join(p[2] for p in parts)


def hexs(s):
    if isinstance(s, str):
        s = s.encode("utf-8")
    return s.hex() or "-"


def unhex(h):
    return b"" if h == "-" else bytes.fromhex(h)


# --------------------------------------------------------------------------
# Known findings

def load_findings():
    p = os.path.join(VERIF, "known_findings.json")
    try:
        return json.load(open(p))
    except FileNotFoundError:
        return []


# --------------------------------------------------------------------------
# Context

class Ctx:
    def __init__(self, prop, tier, seed, level="proof"):
        self.prop = prop
        self.tier = tier
        self.seed = seed
        self.level = level
        self.rng = random.Random(seed * 1000003 + int(prop[1:]))
        self.t0 = time.time()
        self.obligations = []      # {name, ok, detail}
        self.violations = []       # {key, what, replay}
        self.known_hits = []
        self.brokens = []          # {name, detail}
        self.assumptions = []
        self.trusted = []
        self.cov = {}
        self.samples = []
        self.evaluations = 0
        self.distinct = set()
        self.stats = {}
        self.findings = [f for f in load_findings() if f.get("property") == prop]
        self.checker_cmd = ""
        self._impl = None
        self._model = None
        self.notes = []

    thorough = property(lambda self: self.tier == "thorough")

    def log(self, *a):
        print("[%s %6.1fs]" % (self.prop, time.time() - self.t0), *a, flush=True)

    def stat(self, k, n=1):
        self.stats[k] = self.stats.get(k, 0) + n

    def case(self, desc, nontrivial=True):
        """Count one explored case (desc is hashed for distinctness)."""
        self.evaluations += 1
        if nontrivial:
            self.distinct.add(sha(json.dumps(desc, sort_keys=True, default=str))[:16])
        if len(self.samples) < 6 and self.rng.random() < 0.05 or not self.samples:
            self.samples.append(desc)

    # ---- Coq -------------------------------------------------------------
    def coq(self, prop_file, allow=(), extra_targets=()):
        """Build prop_file (relative to coq/), gate, record obligations. Returns ok."""
        path = os.path.join(COQ, prop_file)
        src = strip_coq_comments(open(path).read())
        names = THEOREM_RE.findall(src)
        pinned = [n for n in names]
        self.checker_cmd = ("tools/gen_tables.py && coq_makefile -f _CoqProject -o Makefile && "
                            "make -j%d %s  (coqc 8.16.1; Print Assumptions gate; grep gate)" % (NCPU, prop_file[:-2] + ".vo"))
        self.log("building Coq target", prop_file)
        ok, log = coq_make([prop_file] + list(extra_targets), force=[prop_file])
        self.coq_log = log
        if "TRANSLATOR FAILED" in log:
            self.broken("translator", log[-2000:])
            for n in pinned:
                self.obligations.append({"name": n, "ok": False, "detail": "translator failed"})
            return False
        vo = os.path.join(COQ, prop_file[:-2] + ".vo")
        if not ok or not os.path.exists(vo):
            # find the first error
            m = re.search(r'File "([^"]+)", line (\d+)[^\n]*\n(Error:.*?)(?:\n\S|\Z)', log, re.S)
            detail = (m.group(0) if m else log[-1500:])
            errfile = m.group(1) if m else prop_file
            self.broken("coq:" + os.path.basename(errfile), detail[:1500])
            for n in pinned:
                self.obligations.append({"name": n, "ok": False, "detail": "build failed in " + errfile})
            return False
        # grep gate over the dependency closure
        deps = coq_deps(prop_file)
        bad = scan_forbidden([os.path.join(COQ, d) for d in deps])
        # assumptions
        outs = parse_assumptions(log)
        printed = re.findall(r"Print\s+Assumptions\s+([\w']+)\s*\.", src)
        allok = True
        amap = {}
        if len(outs) != len(printed):
            self.broken("print-assumptions-parse", "expected %d outputs, got %d" % (len(printed), len(outs)))
            allok = False
        else:
            amap = dict(zip(printed, outs))
        for n in pinned:
            a = amap.get(n)
            if a is None:
                if n in printed or not amap:
                    self.obligations.append({"name": n, "ok": False, "detail": "no assumptions output"})
                    allok = False
                else:
                    # Example / helper inside the Properties file without Print Assumptions
                    self.obligations.append({"name": n, "ok": False, "detail": "no Print Assumptions in file"})
                    allok = False
                continue
            if a == "closed":
                self.obligations.append({"name": n, "ok": True, "detail": "Closed under the global context"})
            else:
                extra = [x for x in a if x not in allow]
                okk = not extra
                self.obligations.append({"name": n, "ok": okk, "detail": "Axioms: " + ", ".join(a)})
                for x in a:
                    if x not in self.assumptions:
                        self.assumptions.append("Coq axiom used: " + x)
                if not okk:
                    allok = False
                    self.broken("axioms:" + n, "not allow-listed: " + ", ".join(extra))
        if bad:
            allok = False
            self.broken("grep-gate", "; ".join(bad[:10]))
        self.coq_deps_list = deps
        if self.thorough and allok:
            # independent re-check of the compiled theory and everything it depends on
            mod = "Garden." + prop_file[:-2].replace("/", ".")
            with Lock("coq"):
                rc, out, err = sh(["coqchk", "-o", "-silent", "-Q", ".", "Garden", mod], cwd=COQ, timeout=1800)
            txt = out + err
            m = re.search(r"\* Axioms:\s*(.*?)\n\s*\n", txt, re.S)
            axioms = m.group(1).strip() if m else "?"
            okk = rc == 0 and axioms == "<none>" and "type-in-type: <none>" in txt and "unsafe (co)fixpoints: <none>" in txt \
                and "positivity is assumed: <none>" in txt
            self.obligations.append({"name": "coqchk:" + mod, "ok": okk, "detail": "coqchk -o: Axioms: " + axioms})
            if not okk:
                allok = False
                self.broken("coqchk", txt[-1500:])
        try:
            self.tables_hash = sha(open(os.path.join(COQ, "gen", "Tables.v")).read())[:16]
        except OSError:
            self.tables_hash = None
        return allok

    # ---- binaries ----------------------------------------------------------
    def impl(self):
        if self._impl is None:
            self.log("building implementation (hooks on) from", REPO)
            ok, log, exe = build_impl()
            if not ok:
                # The tree does not build: nothing can be checked. This is an
                # infrastructure failure, reported as a broken tie.
                self.broken("cargo-build", log[-3000:])
                self._impl = ""
            else:
                self._impl = exe
        return self._impl

    def model(self, family=None):
        """Path of the model driver. A family whose extraction or glue fails to build is left out of the
        driver (its ops answer `unsupported`); that is a broken tie only for the property that needs it."""
        if self._model is None:
            self.log("building extracted model driver")
            ok, log, exe = build_model()
            self._model_log = log
            if not os.path.exists(exe):
                self.broken("model-driver-build", log[-3000:])
                self._model = ""
            else:
                self._model = exe
        if family and self._model:
            m = re.search(r"(EXTRACTION FAILED for families: [^\n]*\b%s\b|OCAML BUILD FAILED for family %s:)" % (family, family),
                          self._model_log)
            if m:
                self.broken("model-driver-build:" + family, self._model_log[-2000:])
        return self._model

    # ---- results -----------------------------------------------------------
    def broken(self, name, detail):
        self.log("BROKEN tie/obligation:", name, "::", detail[:300].replace("\n", " | "))
        self.brokens.append({"name": name, "detail": detail})

    def violation(self, key, what, replay):
        """A concrete failing input on the implementation. key identifies the
        failing input class; known findings are matched on it exactly."""
        for f in self.findings:
            if f.get("status") == "known" and f.get("key") == key:
                if key not in [k["key"] for k in self.known_hits]:
                    self.known_hits.append({"key": key, "what": f.get("what", what)})
                return False
        if len(self.violations) < 50:
            self.violations.append({"key": key, "what": what, "replay": replay})
        return True

    def write_replay(self, name, obj):
        d = os.path.join(VERIF, "replays", self.prop)
        os.makedirs(d, exist_ok=True)
        p = os.path.join(d, "%s.json" % name)
        with open(p, "w") as f:
            json.dump(obj, f, indent=1, ensure_ascii=False, default=str)
        return p

    def finish(self, rule="", extra=None):
        wall = time.time() - self.t0
        nob = len(self.obligations)
        ndis = sum(1 for o in self.obligations if o["ok"])
        cov = {
            "obligations": nob,
            "discharged": ndis,
            "obligation_list": self.obligations,
            "checker_cmd": self.checker_cmd or "n/a",
            "trusted_base": self.trusted,
            "evaluations": self.evaluations,
            "distinct_nontrivial": len(self.distinct),
            "rule": rule,
            "samples": self.samples[:8] or ["(no dynamic cases in this run)"],
            "stats": self.stats,
            "broken_ties": [b["name"] for b in self.brokens],
            "known_findings_hit": [k["key"] for k in self.known_hits],
            "tables_hash": getattr(self, "tables_hash", None),
            "notes": self.notes,
        }
        if extra:
            cov.update(extra)
        if ndis == 0 or nob == 0:
            # the schema's proof-level keys require at least one discharged obligation: a run in which no
            # obligation could be discharged (a violation run) reports them under other names
            cov["obligations_total"] = cov.pop("obligations")
            cov["obligations_discharged"] = cov.pop("discharged")
        status = 0
        lines = []
        for k in self.known_hits:
            lines.append("KNOWN-FINDING: property=%s %s (%s)" % (self.prop, k["key"], k["what"]))
        seen = set()
        for v in self.violations:
            if v["key"] in seen:
                continue
            seen.add(v["key"])
            rp = dict(v["replay"])
            rp.update({"property": self.prop, "kind": "impl_failure", "key": v["key"], "what": v["what"],
                       "seed": self.seed, "broken_ties": [b["name"] for b in self.brokens]})
            p = self.write_replay(re.sub(r"[^A-Za-z0-9_.-]+", "_", v["key"])[:80] + "-" + sha(json.dumps(rp, default=str))[:8], rp)
            lines.append("VIOLATION property=%s replay=%s" % (self.prop, p))
            status = 1
        if not self.violations and self.brokens:
            rp = {"property": self.prop, "kind": "theorem-or-correspondence",
                  "no_longer_checks": self.brokens, "seed": self.seed,
                  "note": "no failing input was found by the search; the property is no longer shown to hold"}
            p = self.write_replay("broken-" + sha(json.dumps(self.brokens))[:8], rp)
            lines.append("VIOLATION property=%s replay=%s no-failing-input-found" % (self.prop, p))
            status = 1
        ev = {
            "property_id": self.prop,
            "tier": self.tier,
            "seed": self.seed,
            "level": self.level,
            "coverage": cov,
            "assumptions": self.assumptions,
            "wall_s": round(wall, 2),
            "violations": len(seen) + (1 if (not self.violations and self.brokens) else 0),
        }
        os.makedirs(os.path.join(VERIF, "evidence"), exist_ok=True)
        with open(os.path.join(VERIF, "evidence", self.prop + ".json"), "w") as f:
            json.dump(ev, f, indent=1, ensure_ascii=False, default=str)
            f.write("\n")
        for l in lines:
            print(l, flush=True)
        self.log("done: obligations %d/%d, evaluations %d, violations %d, broken %d, known %d, %.1fs"
                 % (ndis, nob, self.evaluations, len(seen), len(self.brokens), len(self.known_hits), wall))
        return status
